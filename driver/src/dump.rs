use crate::json::J;
use rustc_hir as hir;
use rustc_hir::def::DefKind;
use rustc_hir::def_id::{DefId, LocalDefId};
use rustc_middle::mir::{
    self, AggregateKind, BasicBlockData, BinOp, Body, CastKind, ConstValue, Operand, Place,
    ProjectionElem, Rvalue, StatementKind, TerminatorKind, UnOp,
};
use rustc_middle::ty::print::PrintTraitRefExt;
use rustc_middle::ty::{self, GenericArgsRef, Instance, Ty, TyCtxt, TypeVisitableExt, TypingEnv};
use rustc_span::Span;
use std::collections::HashSet;

pub fn dump_crate<'tcx>(tcx: TyCtxt<'tcx>, out_prefix: &str) {
    let crate_name = tcx.crate_name(rustc_hir::def_id::LOCAL_CRATE).to_string();
    let sess = tcx.sess;
    let is_test = sess.opts.test;
    let crate_types: Vec<String> =
        tcx.crate_types().iter().map(|c| format!("{:?}", c)).collect();
    let src = sess
        .local_crate_source_file()
        .and_then(|f| f.local_path().map(|p| format!("{}", p.display())))
        .unwrap_or_default();
    let d = Dumper { tcx };

    let mut fns = Vec::new();
    let mut consts = Vec::new();
    let mut statics = Vec::new();
    for ldid in tcx.hir_body_owners() {
        let did = ldid.to_def_id();
        match tcx.def_kind(did) {
            DefKind::Fn | DefKind::AssocFn | DefKind::Closure => {
                fns.push(d.dump_fn(ldid));
            }
            DefKind::Const { .. } | DefKind::AssocConst { .. } => {
                consts.push(d.dump_const_item(did));
            }
            DefKind::Static { .. } => {
                statics.push(d.dump_static(did));
            }
            _ => {}
        }
    }
    let adts = d.dump_adts();
    let unsafe_sites = d.unsafe_census();

    let doc = J::obj(vec![
        (
            "meta",
            J::obj(vec![
                ("crate", J::s(&crate_name)),
                ("crate_types", J::Arr(crate_types.into_iter().map(J::s).collect())),
                ("source", J::s(src.clone())),
                ("test_cfg", J::Bool(is_test)),
                ("overflow_checks", J::Bool(sess.overflow_checks())),
                ("debug_assertions", J::Bool(sess.opts.debug_assertions)),
                ("rustc", J::s(rustc_version())),
            ]),
        ),
        ("fns", J::Arr(fns)),
        ("consts", J::Arr(consts)),
        ("statics", J::Arr(statics)),
        ("adts", J::Arr(adts)),
        ("unsafe_sites", J::Arr(unsafe_sites)),
    ]);
    let mut s = String::new();
    doc.write(&mut s);
    let tag: String = src
        .chars()
        .map(|c| if c.is_ascii_alphanumeric() { c } else { '_' })
        .collect();
    let path = format!(
        "{}-{}-{}{}.json",
        out_prefix,
        crate_name,
        tag,
        if is_test { "-test" } else { "" }
    );
    std::fs::write(&path, s).expect("write facts");
}

fn rustc_version() -> String {
    option_env!("CFG_RELEASE").unwrap_or("nightly").to_string()
}

struct Dumper<'tcx> {
    tcx: TyCtxt<'tcx>,
}

impl<'tcx> Dumper<'tcx> {
    fn span(&self, sp: Span) -> J {
        let tcx = self.tcx;
        let from_exp = sp.from_expansion();
        let root = sp.source_callsite();
        let sm = tcx.sess.source_map();
        let lo = sm.lookup_char_pos(root.lo());
        let file = format!("{}", lo.file.name.prefer_local_unconditionally());
        J::obj(vec![
            ("file", J::s(file)),
            ("line", J::Int(lo.line as i128)),
            ("col", J::Int(lo.col.0 as i128 + 1)),
            ("exp", J::Bool(from_exp)),
        ])
    }
    fn line(&self, sp: Span) -> J {
        let root = sp.source_callsite();
        let lo = self.tcx.sess.source_map().lookup_char_pos(root.lo());
        J::Int(lo.line as i128)
    }

    fn path(&self, did: DefId) -> String {
        self.tcx.def_path_str(did)
    }

    fn vis(&self, did: DefId) -> J {
        match self.tcx.def_kind(did) {
            DefKind::Closure | DefKind::AnonConst | DefKind::InlineConst => J::s("priv"),
            _ => {
                let v = self.tcx.visibility(did);
                if v.is_public() {
                    J::s("pub")
                } else {
                    J::s("restricted")
                }
            }
        }
    }

    fn impl_info(&self, did: DefId) -> J {
        let tcx = self.tcx;
        let mut cur = did;
        // closures: climb to the enclosing fn
        while matches!(tcx.def_kind(cur), DefKind::Closure) {
            cur = tcx.parent(cur);
        }
        if !matches!(tcx.def_kind(cur), DefKind::AssocFn | DefKind::AssocConst { .. }) {
            return J::Null;
        }
        let parent = tcx.parent(cur);
        match tcx.def_kind(parent) {
            DefKind::Impl { of_trait } => {
                let self_ty = tcx.type_of(parent).instantiate_identity().skip_norm_wip();
                let tr = if of_trait {
                    let tref = tcx.impl_trait_ref(parent).instantiate_identity().skip_norm_wip();
                    J::s(format!("{}", tref.print_only_trait_path()))
                } else {
                    J::Null
                };
                let derived = tcx.is_automatically_derived(parent);
                J::obj(vec![
                    ("trait", tr),
                    ("self_ty", J::s(format!("{}", self_ty))),
                    ("derived", J::Bool(derived)),
                    ("impl_path", J::s(self.path(parent))),
                ])
            }
            _ => J::Null,
        }
    }

    fn dump_fn(&self, ldid: LocalDefId) -> J {
        let tcx = self.tcx;
        let did = ldid.to_def_id();
        let kind = format!("{:?}", tcx.def_kind(did));
        let body: &Body<'tcx> = tcx.optimized_mir(did);
        let parent = if matches!(tcx.def_kind(did), DefKind::Closure) {
            J::s(self.path(tcx.parent(did)))
        } else {
            J::Null
        };
        let promoted: Vec<J> = tcx
            .promoted_mir(did)
            .iter()
            .map(|b| self.dump_body(did, b))
            .collect();
        let mut o = vec![
            ("path", J::s(self.path(did))),
            ("kind", J::s(kind)),
            ("vis", self.vis(did)),
            ("span", self.span(tcx.def_span(did))),
            ("impl", self.impl_info(did)),
            ("parent", parent),
        ];
        if let J::Obj(b) = self.dump_body(did, body) {
            for (k, v) in b {
                o.push((Box::leak(k.into_boxed_str()), v));
            }
        }
        o.push(("promoted", J::Arr(promoted)));
        J::obj(o)
    }

    fn dump_body(&self, owner: DefId, body: &Body<'tcx>) -> J {
        let tcx = self.tcx;
        let mut names: Vec<Option<String>> = vec![None; body.local_decls.len()];
        for vdi in &body.var_debug_info {
            if let mir::VarDebugInfoContents::Place(p) = &vdi.value {
                if p.projection.is_empty() {
                    names[p.local.as_usize()] = Some(vdi.name.to_string());
                }
            }
        }
        let locals: Vec<J> = body
            .local_decls
            .iter_enumerated()
            .map(|(l, d)| {
                J::obj(vec![
                    ("ty", J::s(format!("{}", d.ty))),
                    ("name", J::opt(names[l.as_usize()].clone().map(J::s))),
                    ("mut", J::Bool(d.mutability.is_mut())),
                ])
            })
            .collect();
        // debug info that refers to projected places (captured variables etc.)
        let blocks: Vec<J> = body
            .basic_blocks
            .iter()
            .map(|bb| self.dump_block(owner, body, bb))
            .collect();
        J::obj(vec![
            ("arg_count", J::Int(body.arg_count as i128)),
            ("locals", J::Arr(locals)),
            ("blocks", J::Arr(blocks)),
        ])
    }

    fn dump_block(&self, owner: DefId, body: &Body<'tcx>, bb: &BasicBlockData<'tcx>) -> J {
        let mut stmts = Vec::new();
        for st in &bb.statements {
            match &st.kind {
                StatementKind::Assign(b) => {
                    let (place, rv) = &**b;
                    stmts.push(J::obj(vec![
                        ("k", J::s("assign")),
                        ("place", self.place(body, place)),
                        ("rv", self.rvalue(owner, body, rv)),
                        ("line", self.line(st.source_info.span)),
                        ("exp", J::Bool(st.source_info.span.from_expansion())),
                    ]));
                }
                StatementKind::SetDiscriminant { place, variant_index } => {
                    stmts.push(J::obj(vec![
                        ("k", J::s("setdiscr")),
                        ("place", self.place(body, place)),
                        ("variant", J::Int(variant_index.as_usize() as i128)),
                        ("line", self.line(st.source_info.span)),
                    ]));
                }
                StatementKind::StorageLive(_)
                | StatementKind::StorageDead(_)
                | StatementKind::Nop
                | StatementKind::FakeRead(..)
                | StatementKind::PlaceMention(..)
                | StatementKind::AscribeUserType(..)
                | StatementKind::Coverage(..)
                | StatementKind::ConstEvalCounter => {}
                other => {
                    stmts.push(J::obj(vec![
                        ("k", J::s("other")),
                        ("text", J::s(format!("{:?}", other))),
                        ("line", self.line(st.source_info.span)),
                    ]));
                }
            }
        }
        let term = bb.terminator();
        J::obj(vec![
            ("stmts", J::Arr(stmts)),
            ("term", self.terminator(owner, body, term)),
            ("line", self.line(term.source_info.span)),
            ("exp", J::Bool(term.source_info.span.from_expansion())),
            ("cleanup", J::Bool(bb.is_cleanup)),
        ])
    }

    fn place(&self, body: &Body<'tcx>, p: &Place<'tcx>) -> J {
        let mut proj = Vec::new();
        for (i, e) in p.projection.iter().enumerate() {
            let base_ty = Place::ty_from(p.local, &p.projection[..i], &body.local_decls, self.tcx);
            proj.push(match e {
                ProjectionElem::Deref => J::s("deref"),
                ProjectionElem::Field(f, ty) => {
                    let mut name = J::Null;
                    if let ty::Adt(adt, _) = base_ty.ty.kind() {
                        if !adt.is_union() {
                            let vi = base_ty.variant_index.unwrap_or(rustc_abi::FIRST_VARIANT);
                            if let Some(fd) = adt.variant(vi).fields.get(f) {
                                name = J::s(fd.name.to_string());
                            }
                        }
                    }
                    J::obj(vec![
                        ("f", J::Int(f.as_usize() as i128)),
                        ("ty", J::s(format!("{}", ty))),
                        ("name", name),
                        ("of", J::s(format!("{}", base_ty.ty))),
                    ])
                }
                ProjectionElem::Index(l) => J::obj(vec![("idx", J::Int(l.as_usize() as i128))]),
                ProjectionElem::ConstantIndex { offset, min_length, from_end } => J::obj(vec![
                    ("cidx", J::Int(offset as i128)),
                    ("min_length", J::Int(min_length as i128)),
                    ("from_end", J::Bool(from_end)),
                ]),
                ProjectionElem::Subslice { from, to, from_end } => J::obj(vec![
                    ("subslice", J::Arr(vec![J::Int(from as i128), J::Int(to as i128)])),
                    ("from_end", J::Bool(from_end)),
                ]),
                ProjectionElem::Downcast(name, idx) => J::obj(vec![
                    (
                        "variant",
                        J::opt(name.map(|n| J::s(n.to_string()))),
                    ),
                    ("vidx", J::Int(idx.as_usize() as i128)),
                ]),
                other => J::obj(vec![("other", J::s(format!("{:?}", other)))]),
            });
        }
        J::obj(vec![("l", J::Int(p.local.as_usize() as i128)), ("proj", J::Arr(proj))])
    }

    fn operand(&self, owner: DefId, body: &Body<'tcx>, op: &Operand<'tcx>) -> J {
        match op {
            Operand::Copy(p) => J::obj(vec![("copy", self.place(body, p))]),
            Operand::Move(p) => J::obj(vec![("move", self.place(body, p))]),
            Operand::Constant(c) => J::obj(vec![("const", self.mir_const(owner, &c.const_))]),
            #[allow(unreachable_patterns)]
            other => J::obj(vec![("const", J::obj(vec![("opaque", J::s(format!("{:?}", other)))]))]),
        }
    }

    fn scalar_int(&self, bits: u128, size: u64, ty: Ty<'tcx>) -> J {
        let tys = format!("{}", ty);
        match ty.kind() {
            ty::Bool => J::obj(vec![("bool", J::Bool(bits != 0))]),
            ty::Char => J::obj(vec![("char", J::Int(bits as i128))]),
            ty::Int(_) => {
                let shift = 128 - size * 8;
                let v = ((bits << shift) as i128) >> shift;
                J::obj(vec![("int", J::Int(v)), ("ty", J::s(tys))])
            }
            ty::Uint(_) => {
                // u128 values above i128::MAX do not occur in this crate
                J::obj(vec![("int", J::Int(bits as i128)), ("ty", J::s(tys))])
            }
            ty::Float(_) => J::obj(vec![("fbits", J::Int(bits as i128)), ("ty", J::s(tys))]),
            ty::Adt(adt, _) if adt.is_enum() => {
                // fieldless enum constant: map tag to variant
                let mut name = None;
                for (vi, d) in adt.discriminants(self.tcx) {
                    if d.val == bits {
                        name = Some(adt.variant(vi).name.to_string());
                    }
                }
                J::obj(vec![
                    ("adt", J::s(tys)),
                    ("variant", J::opt(name.map(J::s))),
                    ("tag", J::Int(bits as i128)),
                ])
            }
            _ => J::obj(vec![("scalar", J::Int(bits as i128)), ("ty", J::s(tys))]),
        }
    }

    fn const_value(&self, cv: ConstValue, ty: Ty<'tcx>) -> J {
        let tcx = self.tcx;
        match cv {
            ConstValue::Scalar(mir::interpret::Scalar::Int(si)) => {
                let size = si.size().bytes();
                let bits = si.to_bits(si.size());
                self.scalar_int(bits, size, ty)
            }
            ConstValue::Scalar(mir::interpret::Scalar::Ptr(ptr, _)) => {
                let aid = ptr.provenance.alloc_id();
                match tcx.global_alloc(aid) {
                    mir::interpret::GlobalAlloc::Static(sdid) => J::obj(vec![
                        ("static_ref", J::s(self.path(sdid))),
                        ("ty", J::s(format!("{}", ty))),
                    ]),
                    mir::interpret::GlobalAlloc::Memory(alloc) => {
                        // reference to constant memory: &[u8; N], &str behind ptr, etc.
                        let a = alloc.inner();
                        let bytes = a.inspect_with_uninit_and_ptr_outside_interpreter(0..a.len());
                        if a.len() <= 4096 {
                            J::obj(vec![
                                ("bytes", J::Arr(bytes.iter().map(|b| J::Int(*b as i128)).collect())),
                                ("ty", J::s(format!("{}", ty))),
                            ])
                        } else {
                            J::obj(vec![("opaque", J::s(format!("ptr to {} bytes: {}", a.len(), ty)))])
                        }
                    }
                    other => J::obj(vec![("opaque", J::s(format!("{:?}: {}", other, ty)))]),
                }
            }
            ConstValue::ZeroSized => match ty.kind() {
                ty::FnDef(did, args) => J::obj(vec![
                    ("fn", J::s(tcx.def_path_str_with_args(*did, args))),
                    ("fn_path", J::s(self.path(*did))),
                ]),
                _ => J::obj(vec![("zst", J::s(format!("{}", ty)))]),
            },
            ConstValue::Slice { alloc_id, meta } => {
                let a = tcx.global_alloc(alloc_id).unwrap_memory().inner();
                let len = meta as usize;
                let bytes = a.inspect_with_uninit_and_ptr_outside_interpreter(0..a.len());
                let is_str = matches!(ty.kind(), ty::Ref(_, inner, _) if inner.is_str());
                if is_str {
                    let s = String::from_utf8_lossy(&bytes[..len.min(bytes.len())]).to_string();
                    J::obj(vec![("str", J::s(s))])
                } else {
                    J::obj(vec![
                        ("bytes", J::Arr(bytes.iter().map(|b| J::Int(*b as i128)).collect())),
                        ("ty", J::s(format!("{}", ty))),
                    ])
                }
            }
            ConstValue::Indirect { alloc_id, offset } => {
                self.indirect_value(alloc_id, offset.bytes() as usize, ty)
            }
        }
    }

    fn indirect_value(&self, alloc_id: mir::interpret::AllocId, offset: usize, ty: Ty<'tcx>) -> J {
        let a = self.tcx.global_alloc(alloc_id).unwrap_memory().inner();
        self.alloc_value(a, offset, ty)
    }

    fn alloc_value(&self, a: &mir::interpret::Allocation, offset: usize, ty: Ty<'tcx>) -> J {
        let tcx = self.tcx;
        let bytes = a.inspect_with_uninit_and_ptr_outside_interpreter(0..a.len());
        let te = TypingEnv::fully_monomorphized();
        if let ty::Array(elem, _) = ty.kind() {
            // arrays of arrays / tuples (`[[u16; 8]; 13]`, `[(Suit, Suit); 6]`): nested values, element by element
            if matches!(elem.kind(), ty::Array(..) | ty::Tuple(..)) {
                if let Some(J::Arr(vals)) = self.value_at(bytes, offset, ty, 0) {
                    return J::obj(vec![
                        ("array", J::Arr(vals)),
                        ("elem", J::s(format!("{}", elem))),
                        ("ty", J::s(format!("{}", ty))),
                    ]);
                }
            }
            if let Ok(layout) = tcx.layout_of(te.as_query_input(*elem)) {
                let esz = layout.size.bytes() as usize;
                if esz > 0 && esz <= 16 {
                    let n = (bytes.len() - offset) / esz;
                    let mut vals = Vec::with_capacity(n);
                    for i in 0..n {
                        let mut v: u128 = 0;
                        for k in 0..esz {
                            v |= (bytes[offset + i * esz + k] as u128) << (8 * k);
                        }
                        match elem.kind() {
                            ty::Uint(_) => vals.push(J::Int(v as i128)),
                            ty::Int(_) => {
                                let shift = 128 - esz * 8;
                                vals.push(J::Int(((v << shift) as i128) >> shift))
                            }
                            ty::Adt(adt, _) if adt.is_enum() => {
                                let mut name = format!("?{}", v);
                                for (vi, d) in adt.discriminants(tcx) {
                                    if d.val == v {
                                        name = adt.variant(vi).name.to_string();
                                    }
                                }
                                vals.push(J::s(name));
                            }
                            _ => vals.push(J::Int(v as i128)),
                        }
                    }
                    return J::obj(vec![
                        ("array", J::Arr(vals)),
                        ("elem", J::s(format!("{}", elem))),
                        ("ty", J::s(format!("{}", ty))),
                    ]);
                }
            }
        }
        if bytes.len() <= 4096 {
            J::obj(vec![
                ("bytes", J::Arr(bytes.iter().map(|b| J::Int(*b as i128)).collect())),
                ("ty", J::s(format!("{}", ty))),
            ])
        } else {
            J::obj(vec![("opaque", J::s(format!("indirect {} bytes: {}", bytes.len(), ty)))])
        }
    }

    /// structured value of type `ty` at `off` in constant memory: integers, fieldless enums (variant name), arrays (JSON
    /// arrays) and tuples (JSON arrays of the fields in declaration order); None for anything else
    fn value_at(&self, bytes: &[u8], off: usize, ty: Ty<'tcx>, depth: usize) -> Option<J> {
        let tcx = self.tcx;
        let te = TypingEnv::fully_monomorphized();
        if depth > 4 {
            return None;
        }
        let layout = tcx.layout_of(te.as_query_input(ty)).ok()?;
        let sz = layout.size.bytes() as usize;
        if off + sz > bytes.len() {
            return None;
        }
        let read = |o: usize, n: usize| -> u128 {
            let mut v: u128 = 0;
            for k in 0..n.min(16) {
                v |= (bytes[o + k] as u128) << (8 * k);
            }
            v
        };
        match ty.kind() {
            ty::Uint(_) | ty::Bool | ty::Char => Some(J::Int(read(off, sz) as i128)),
            ty::Int(_) => {
                let v = read(off, sz);
                let shift = 128 - sz * 8;
                Some(J::Int(((v << shift) as i128) >> shift))
            }
            ty::Adt(adt, _) if adt.is_enum() && adt.variants().iter().all(|v| v.fields.is_empty()) => {
                let v = read(off, sz);
                let mut name = format!("?{}", v);
                for (vi, d) in adt.discriminants(tcx) {
                    if d.val == v {
                        name = adt.variant(vi).name.to_string();
                    }
                }
                Some(J::s(name))
            }
            ty::Array(elem, _) => {
                let el = tcx.layout_of(te.as_query_input(*elem)).ok()?;
                let esz = el.size.bytes() as usize;
                if esz == 0 {
                    return None;
                }
                let n = sz / esz;
                let mut vals = Vec::with_capacity(n);
                for i in 0..n {
                    vals.push(self.value_at(bytes, off + i * esz, *elem, depth + 1)?);
                }
                Some(J::Arr(vals))
            }
            ty::Tuple(fields) => {
                let mut vals = Vec::new();
                for (i, fty) in fields.iter().enumerate() {
                    let fo = layout.fields.offset(i).bytes() as usize;
                    vals.push(self.value_at(bytes, off + fo, fty, depth + 1)?);
                }
                Some(J::Arr(vals))
            }
            _ => None,
        }
    }

    fn mir_const(&self, owner: DefId, c: &mir::Const<'tcx>) -> J {
        let tcx = self.tcx;
        match c {
            mir::Const::Val(cv, ty) => self.const_value(*cv, *ty),
            mir::Const::Unevaluated(uv, ty) => {
                if let Some(p) = uv.promoted {
                    return J::obj(vec![
                        ("promoted", J::Int(p.as_usize() as i128)),
                        ("ty", J::s(format!("{}", ty))),
                    ]);
                }
                let mut o = vec![
                    ("named", J::s(self.path(uv.def))),
                    ("ty", J::s(format!("{}", ty))),
                    ("local", J::Bool(uv.def.is_local())),
                ];
                let te = TypingEnv::post_analysis(tcx, owner);
                if let Ok(cv) = tcx.const_eval_resolve(te, *uv, rustc_span::DUMMY_SP) {
                    // large tables are emitted once under "consts"; keep scalars inline
                    match cv {
                        ConstValue::Scalar(_) => o.push(("value", self.const_value(cv, *ty))),
                        ConstValue::Indirect { alloc_id, .. } => {
                            let a = tcx.global_alloc(alloc_id).unwrap_memory().inner();
                            if a.len() <= 64 {
                                o.push(("value", self.const_value(cv, *ty)));
                            }
                        }
                        _ => o.push(("value", self.const_value(cv, *ty))),
                    }
                }
                J::obj(o)
            }
            mir::Const::Ty(ty, ct) => {
                if let Some(si) = ct.try_to_leaf() {
                    let size = si.size().bytes();
                    let bits = si.to_bits(si.size());
                    return self.scalar_int(bits, size, *ty);
                }
                J::obj(vec![
                    ("opaque", J::s(format!("tyconst {:?}", ct))),
                    ("ty", J::s(format!("{}", ty))),
                ])
            }
        }
    }

    fn rvalue(&self, owner: DefId, body: &Body<'tcx>, rv: &Rvalue<'tcx>) -> J {
        let tcx = self.tcx;
        match rv {
            Rvalue::Use(op, ..) => J::obj(vec![("use", self.operand(owner, body, op))]),
            Rvalue::Repeat(op, n) => J::obj(vec![
                ("repeat", self.operand(owner, body, op)),
                ("n", J::s(format!("{}", n))),
            ]),
            Rvalue::Ref(_, bk, p) => J::obj(vec![
                ("ref", self.place(body, p)),
                ("mut", J::Bool(matches!(bk, mir::BorrowKind::Mut { .. }))),
            ]),
            Rvalue::RawPtr(k, p) => J::obj(vec![
                ("rawptr", self.place(body, p)),
                ("kind", J::s(format!("{:?}", k))),
            ]),
            Rvalue::ThreadLocalRef(did) => J::obj(vec![("tls", J::s(self.path(*did)))]),
            Rvalue::Cast(kind, op, ty) => {
                let from = op.ty(&body.local_decls, tcx);
                J::obj(vec![
                    ("cast", J::s(cast_kind(kind))),
                    ("a", self.operand(owner, body, op)),
                    ("from", J::s(format!("{}", from))),
                    ("to", J::s(format!("{}", ty))),
                ])
            }
            Rvalue::BinaryOp(op, ab) => {
                let (a, b) = &**ab;
                J::obj(vec![
                    ("bin", J::s(bin_op(*op))),
                    ("a", self.operand(owner, body, a)),
                    ("b", self.operand(owner, body, b)),
                    ("aty", J::s(format!("{}", a.ty(&body.local_decls, tcx)))),
                ])
            }
            Rvalue::UnaryOp(op, a) => J::obj(vec![
                ("un", J::s(un_op(*op))),
                ("a", self.operand(owner, body, a)),
            ]),
            Rvalue::Discriminant(p) => J::obj(vec![("discr", self.place(body, p))]),
            Rvalue::Aggregate(kind, ops) => {
                let k = match &**kind {
                    AggregateKind::Array(t) => J::obj(vec![("array", J::s(format!("{}", t)))]),
                    AggregateKind::Tuple => J::s("tuple"),
                    AggregateKind::Adt(did, vidx, _args, _, _) => {
                        let adt = tcx.adt_def(*did);
                        let v = adt.variant(*vidx);
                        J::obj(vec![
                            ("adt", J::s(self.path(*did))),
                            ("variant", J::s(v.name.to_string())),
                            ("vidx", J::Int(vidx.as_usize() as i128)),
                            ("local", J::Bool(did.is_local())),
                        ])
                    }
                    AggregateKind::Closure(did, _) => {
                        J::obj(vec![("closure", J::s(self.path(*did)))])
                    }
                    other => J::obj(vec![("other", J::s(format!("{:?}", other)))]),
                };
                J::obj(vec![
                    ("agg", k),
                    (
                        "ops",
                        J::Arr(ops.iter().map(|o| self.operand(owner, body, o)).collect()),
                    ),
                ])
            }
            Rvalue::CopyForDeref(p) => J::obj(vec![("use", J::obj(vec![("copy", self.place(body, p))]))]),
            other => J::obj(vec![("other", J::s(format!("{:?}", other)))]),
        }
    }

    fn callee(&self, owner: DefId, body: &Body<'tcx>, func: &Operand<'tcx>) -> J {
        let tcx = self.tcx;
        let fty = func.ty(&body.local_decls, tcx);
        if let ty::FnDef(cd, args) = fty.kind() {
            let te = TypingEnv::post_analysis(tcx, owner);
            let mut resolved = J::Null;
            let mut resolved_local = false;
            let mut resolved_kind = J::Null;
            let mut rargs: Option<(DefId, GenericArgsRef<'tcx>)> = None;
            if let Ok(Some(inst)) = Instance::try_resolve(tcx, te, *cd, args) {
                let rd = inst.def_id();
                resolved = J::s(self.path(rd));
                resolved_local = rd.is_local();
                resolved_kind = J::s(instance_kind(&inst));
                rargs = Some((rd, inst.args));
            }
            let mut bound_impls = Vec::new();
            let mut seen: HashSet<String> = HashSet::new();
            self.bound_impls(owner, *cd, args, 0, &mut seen, &mut bound_impls);
            if let Some((rd, ra)) = rargs {
                if rd != *cd {
                    self.bound_impls(owner, rd, ra, 0, &mut seen, &mut bound_impls);
                }
            }
            let trait_of = tcx
                .trait_of_assoc(*cd)
                .map(|t| J::s(self.path(t)))
                .unwrap_or(J::Null);
            J::obj(vec![
                ("path", J::s(self.path(*cd))),
                ("full", J::s(tcx.def_path_str_with_args(*cd, args))),
                ("name", J::s(tcx.item_name(*cd).to_string())),
                ("trait", trait_of),
                ("local", J::Bool(cd.is_local())),
                ("resolved", resolved),
                ("resolved_local", J::Bool(resolved_local)),
                ("resolved_kind", resolved_kind),
                (
                    "generic_args",
                    J::Arr(args.iter().map(|a| J::s(format!("{}", a))).collect()),
                ),
                ("bound_impls", J::Arr(bound_impls)),
            ])
        } else {
            J::obj(vec![
                ("indirect", self.operand(owner, body, func)),
                ("ty", J::s(format!("{}", fty))),
            ])
        }
    }

    // crate-local impl methods an external generic callee can reach through its
    // trait bounds, instantiated with the call's generic arguments
    fn bound_impls(
        &self,
        owner: DefId,
        def: DefId,
        args: GenericArgsRef<'tcx>,
        depth: usize,
        seen: &mut HashSet<String>,
        out: &mut Vec<J>,
    ) {
        let tcx = self.tcx;
        if depth > 4 {
            return;
        }
        let key = tcx.def_path_str_with_args(def, args);
        if !seen.insert(format!("D:{}", key)) {
            return;
        }
        let te = TypingEnv::post_analysis(tcx, owner);
        let preds = tcx.predicates_of(def).instantiate(tcx, args);
        for (clause, _sp) in preds {
            let clause = clause.skip_norm_wip();
            let Some(tc) = clause.as_trait_clause() else { continue };
            let Some(tp) = tc.no_bound_vars() else { continue };
            let tr = tp.trait_ref;
            let Ok(tr) = tcx.try_normalize_erasing_regions(te, ty::Unnormalized::new_wip(tr)) else {
                continue;
            };
            if tr.has_non_region_param() || tr.has_non_region_infer() {
                continue;
            }
            // closures among the self types: reachable crate code
            let self_ty = tr.self_ty();
            if let ty::Closure(cdid, _) = self_ty.kind() {
                if cdid.is_local() {
                    let p = self.path(*cdid);
                    if seen.insert(format!("C:{}", p)) {
                        out.push(J::obj(vec![("closure", J::s(p))]));
                    }
                }
                continue;
            }
            if let ty::FnDef(fdid, _) = self_ty.kind() {
                if fdid.is_local() {
                    let p = self.path(*fdid);
                    if seen.insert(format!("F:{}", p)) {
                        out.push(J::obj(vec![("fnitem", J::s(p))]));
                    }
                }
                continue;
            }
            let Ok(src) = tcx.codegen_select_candidate(te.as_query_input(tr)) else { continue };
            if let rustc_middle::traits::ImplSource::UserDefined(d) = src {
                let idid = d.impl_def_id;
                if idid.is_local() {
                    for item in tcx.associated_items(idid).in_definition_order() {
                        if item.is_fn() {
                            let p = self.path(item.def_id);
                            if seen.insert(format!("M:{}", p)) {
                                out.push(J::obj(vec![
                                    ("method", J::s(p)),
                                    ("trait", J::s(self.path(tr.def_id))),
                                    ("self_ty", J::s(format!("{}", self_ty))),
                                ]));
                            }
                        }
                    }
                }
                self.bound_impls(owner, idid, d.args, depth + 1, seen, out);
            }
        }
    }

    fn terminator(&self, owner: DefId, body: &Body<'tcx>, t: &mir::Terminator<'tcx>) -> J {
        let bbj = |b: mir::BasicBlock| J::Int(b.as_usize() as i128);
        match &t.kind {
            TerminatorKind::Goto { target } => J::obj(vec![("k", J::s("goto")), ("to", bbj(*target))]),
            TerminatorKind::SwitchInt { discr, targets } => {
                let ty = discr.ty(&body.local_decls, self.tcx);
                let arms: Vec<J> = targets
                    .iter()
                    .map(|(v, b)| J::Arr(vec![J::Int(v as i128), bbj(b)]))
                    .collect();
                J::obj(vec![
                    ("k", J::s("switch")),
                    ("on", self.operand(owner, body, discr)),
                    ("ty", J::s(format!("{}", ty))),
                    ("arms", J::Arr(arms)),
                    ("otherwise", bbj(targets.otherwise())),
                ])
            }
            TerminatorKind::Return => J::obj(vec![("k", J::s("return"))]),
            TerminatorKind::Unreachable => J::obj(vec![("k", J::s("unreachable"))]),
            TerminatorKind::UnwindResume => J::obj(vec![("k", J::s("resume"))]),
            TerminatorKind::UnwindTerminate(_) => J::obj(vec![("k", J::s("terminate"))]),
            TerminatorKind::Drop { place, target, .. } => J::obj(vec![
                ("k", J::s("drop")),
                ("place", self.place(body, place)),
                ("to", bbj(*target)),
            ]),
            TerminatorKind::Call { func, args, destination, target, .. } => J::obj(vec![
                ("k", J::s("call")),
                ("callee", self.callee(owner, body, func)),
                (
                    "args",
                    J::Arr(args.iter().map(|a| self.operand(owner, body, &a.node)).collect()),
                ),
                ("dest", self.place(body, destination)),
                ("to", J::opt(target.map(bbj))),
            ]),
            TerminatorKind::Assert { cond, expected, msg, target, .. } => {
                let m = match &**msg {
                    mir::AssertKind::BoundsCheck { len, index } => J::obj(vec![
                        ("kind", J::s("BoundsCheck")),
                        ("len", self.operand(owner, body, len)),
                        ("index", self.operand(owner, body, index)),
                    ]),
                    mir::AssertKind::Overflow(op, a, b) => J::obj(vec![
                        ("kind", J::s("Overflow")),
                        ("op", J::s(bin_op(*op))),
                        ("a", self.operand(owner, body, a)),
                        ("b", self.operand(owner, body, b)),
                    ]),
                    mir::AssertKind::OverflowNeg(a) => J::obj(vec![
                        ("kind", J::s("OverflowNeg")),
                        ("a", self.operand(owner, body, a)),
                    ]),
                    mir::AssertKind::DivisionByZero(a) => J::obj(vec![
                        ("kind", J::s("DivisionByZero")),
                        ("a", self.operand(owner, body, a)),
                    ]),
                    mir::AssertKind::RemainderByZero(a) => J::obj(vec![
                        ("kind", J::s("RemainderByZero")),
                        ("a", self.operand(owner, body, a)),
                    ]),
                    other => J::obj(vec![
                        ("kind", J::s("Other")),
                        ("text", J::s(format!("{:?}", other))),
                    ]),
                };
                J::obj(vec![
                    ("k", J::s("assert")),
                    ("cond", self.operand(owner, body, cond)),
                    ("expected", J::Bool(*expected)),
                    ("msg", m),
                    ("to", bbj(*target)),
                ])
            }
            other => J::obj(vec![("k", J::s("other")), ("text", J::s(format!("{:?}", other)))]),
        }
    }

    fn dump_const_item(&self, did: DefId) -> J {
        let tcx = self.tcx;
        let ty = tcx.type_of(did).instantiate_identity().skip_norm_wip();
        let mut o = vec![
            ("path", J::s(self.path(did))),
            ("ty", J::s(format!("{}", ty))),
            ("vis", self.vis(did)),
            ("span", self.span(tcx.def_span(did))),
        ];
        if let Ok(cv) = tcx.const_eval_poly(did) {
            o.push(("value", self.const_value(cv, ty)));
        }
        J::obj(o)
    }

    fn dump_static(&self, did: DefId) -> J {
        let tcx = self.tcx;
        let ty = tcx.type_of(did).instantiate_identity().skip_norm_wip();
        let te = TypingEnv::post_analysis(tcx, did);
        let freeze = ty.is_freeze(tcx, te);
        let mut o = vec![
            ("path", J::s(self.path(did))),
            ("ty", J::s(format!("{}", ty))),
            ("mutable", J::Bool(tcx.is_mutable_static(did))),
            ("thread_local", J::Bool(tcx.is_thread_local_static(did))),
            ("freeze", J::Bool(freeze)),
            ("span", self.span(tcx.def_span(did))),
        ];
        // an immutable static without interior mutability is a named constant with an address: dump its initialiser
        if freeze && !tcx.is_mutable_static(did) && !tcx.is_thread_local_static(did) {
            if let Ok(alloc) = tcx.eval_static_initializer(did) {
                o.push(("value", self.alloc_value(alloc.inner(), 0, ty)));
            }
        }
        J::obj(o)
    }

    fn dump_adts(&self) -> Vec<J> {
        let tcx = self.tcx;
        let mut out = Vec::new();
        let send = tcx.get_diagnostic_item(rustc_span::sym::Send);
        let sync = tcx.get_diagnostic_item(rustc_span::sym::Sync);
        for id in tcx.hir_crate_items(()).definitions() {
            let did = id.to_def_id();
            let kind = tcx.def_kind(did);
            if !matches!(kind, DefKind::Struct | DefKind::Enum | DefKind::Union) {
                continue;
            }
            let adt = tcx.adt_def(did);
            let ty = tcx.type_of(did).instantiate_identity().skip_norm_wip();
            let te = TypingEnv::post_analysis(tcx, did);
            let generics = tcx.generics_of(did);
            let lifetimes = generics
                .own_params
                .iter()
                .filter(|p| matches!(p.kind, ty::GenericParamDefKind::Lifetime))
                .count();
            let type_params = generics
                .own_params
                .iter()
                .filter(|p| matches!(p.kind, ty::GenericParamDefKind::Type { .. }))
                .count();
            let mut variants = Vec::new();
            for (vi, v) in adt.variants().iter_enumerated() {
                let mut fields = Vec::new();
                for f in v.fields.iter() {
                    let fty_raw = tcx.type_of(f.did).instantiate_identity();
                    // evaluate array lengths given by named constants (`[Card; DECK_LEN]` prints as `[Card; 49]`)
                    let fty = tcx
                        .try_normalize_erasing_regions(te, fty_raw)
                        .unwrap_or_else(|_| tcx.type_of(f.did).instantiate_identity().skip_norm_wip());
                    fields.push(J::obj(vec![
                        ("name", J::s(f.name.to_string())),
                        ("ty", J::s(format!("{}", fty))),
                        ("vis", if f.vis.is_public() { J::s("pub") } else { J::s("restricted") }),
                        ("freeze", J::Bool(fty.is_freeze(tcx, te))),
                        ("kind", J::s(ty_kind_tag(fty))),
                    ]));
                }
                let discr = if adt.is_enum() { adt.discriminant_for_variant(tcx, vi).val } else { 0 };
                variants.push(J::obj(vec![
                    ("name", J::s(v.name.to_string())),
                    ("discr", J::Int(discr as i128)),
                    ("fields", J::Arr(fields)),
                ]));
            }
            let mut o = vec![
                ("path", J::s(self.path(did))),
                ("kind", J::s(format!("{:?}", kind))),
                ("vis", self.vis(did)),
                ("lifetimes", J::Int(lifetimes as i128)),
                ("type_params", J::Int(type_params as i128)),
                ("freeze", J::Bool(ty.is_freeze(tcx, te))),
                ("variants", J::Arr(variants)),
                ("span", self.span(tcx.def_span(did))),
            ];
            if type_params == 0 && lifetimes == 0 {
                use rustc_infer::infer::TyCtxtInferExt;
                use rustc_trait_selection::infer::InferCtxtExt;
                let infcx = tcx.infer_ctxt().build(ty::TypingMode::PostAnalysis);
                if let Some(s) = send {
                    let r = infcx.type_implements_trait(s, [ty], te.param_env);
                    o.push(("send", J::Bool(r.must_apply_modulo_regions())));
                }
                if let Some(s) = sync {
                    let r = infcx.type_implements_trait(s, [ty], te.param_env);
                    o.push(("sync", J::Bool(r.must_apply_modulo_regions())));
                }
            }
            // trait impls on this type
            let mut impls = Vec::new();
            for idid in tcx.hir_crate_items(()).definitions() {
                let idid = idid.to_def_id();
                if let DefKind::Impl { of_trait: true } = tcx.def_kind(idid) {
                    let sty = tcx.type_of(idid).instantiate_identity().skip_norm_wip();
                    if let ty::Adt(a, _) = sty.kind() {
                        if a.did() == did {
                            let tref = tcx.impl_trait_ref(idid).instantiate_identity().skip_norm_wip();
                            impls.push(J::obj(vec![
                                ("trait", J::s(format!("{}", tref.print_only_trait_path()))),
                                ("derived", J::Bool(tcx.is_automatically_derived(idid))),
                            ]));
                        }
                    }
                }
            }
            o.push(("impls", J::Arr(impls)));
            out.push(J::obj(o));
        }
        out
    }

    fn unsafe_census(&self) -> Vec<J> {
        let tcx = self.tcx;
        let mut out = Vec::new();
        // unsafe blocks inside bodies
        for ldid in tcx.hir_body_owners() {
            let body = tcx.hir_body_owned_by(ldid);
            let mut v = UnsafeVisitor { d: self, owner: ldid, out: &mut out };
            hir::intravisit::Visitor::visit_body(&mut v, body);
        }
        // unsafe fns / impls / traits
        for id in tcx.hir_crate_items(()).definitions() {
            let did = id.to_def_id();
            match tcx.def_kind(did) {
                DefKind::Fn | DefKind::AssocFn => {
                    let sig = tcx.fn_sig(did).instantiate_identity().skip_norm_wip();
                    if sig.safety().is_unsafe() {
                        out.push(J::obj(vec![
                            ("kind", J::s("unsafe_fn")),
                            ("fn", J::s(self.path(did))),
                            ("span", self.span(tcx.def_span(did))),
                        ]));
                    }
                }
                DefKind::Impl { of_trait: true } => {
                    let tref = tcx.impl_trait_ref(did).instantiate_identity().skip_norm_wip();
                    let tdef = tcx.trait_def(tref.def_id);
                    if tdef.safety.is_unsafe() {
                        out.push(J::obj(vec![
                            ("kind", J::s("unsafe_impl")),
                            ("fn", J::s(self.path(did))),
                            ("trait", J::s(format!("{}", tref.print_only_trait_path()))),
                            ("derived", J::Bool(tcx.is_automatically_derived(did))),
                            ("span", self.span(tcx.def_span(did))),
                        ]));
                    }
                }
                _ => {}
            }
        }
        out
    }
}

struct UnsafeVisitor<'a, 'tcx> {
    d: &'a Dumper<'tcx>,
    owner: LocalDefId,
    out: &'a mut Vec<J>,
}

impl<'a, 'tcx> hir::intravisit::Visitor<'tcx> for UnsafeVisitor<'a, 'tcx> {
    fn visit_block(&mut self, b: &'tcx hir::Block<'tcx>) {
        if let hir::BlockCheckMode::UnsafeBlock(src) = b.rules {
            self.out.push(J::obj(vec![
                ("kind", J::s("unsafe_block")),
                ("fn", J::s(self.d.path(self.owner.to_def_id()))),
                ("user", J::Bool(matches!(src, hir::UnsafeSource::UserProvided))),
                ("span", self.d.span(b.span)),
            ]));
        }
        hir::intravisit::walk_block(self, b);
    }
}

fn ty_kind_tag(t: Ty<'_>) -> &'static str {
    match t.kind() {
        ty::Ref(..) => "ref",
        ty::RawPtr(..) => "rawptr",
        ty::Adt(..) => "adt",
        ty::Array(..) => "array",
        ty::Slice(..) => "slice",
        ty::Tuple(..) => "tuple",
        ty::FnPtr(..) => "fnptr",
        ty::Dynamic(..) => "dyn",
        ty::Closure(..) => "closure",
        ty::Param(..) => "param",
        _ => "prim",
    }
}

fn instance_kind(i: &Instance<'_>) -> String {
    let s = format!("{:?}", i.def);
    s.split('(').next().unwrap_or("").to_string()
}

fn cast_kind(k: &CastKind) -> String {
    format!("{:?}", k).split('(').next().unwrap_or("").to_string()
}

fn bin_op(op: BinOp) -> String {
    format!("{:?}", op)
}

fn un_op(op: UnOp) -> String {
    format!("{:?}", op)
}
