// minimal JSON value + writer (no dependencies)
use std::fmt::Write;

#[derive(Clone, Debug)]
pub enum J {
    Null,
    Bool(bool),
    Int(i128),
    Str(String),
    Arr(Vec<J>),
    Obj(Vec<(String, J)>),
}

impl J {
    pub fn s<T: Into<String>>(v: T) -> J {
        J::Str(v.into())
    }
    pub fn obj(kv: Vec<(&str, J)>) -> J {
        J::Obj(kv.into_iter().map(|(k, v)| (k.to_string(), v)).collect())
    }
    pub fn opt(v: Option<J>) -> J {
        v.unwrap_or(J::Null)
    }
    pub fn write(&self, out: &mut String) {
        match self {
            J::Null => out.push_str("null"),
            J::Bool(b) => out.push_str(if *b { "true" } else { "false" }),
            J::Int(i) => {
                let _ = write!(out, "{}", i);
            }
            J::Str(s) => write_str(s, out),
            J::Arr(a) => {
                out.push('[');
                for (i, v) in a.iter().enumerate() {
                    if i > 0 {
                        out.push(',');
                    }
                    v.write(out);
                }
                out.push(']');
            }
            J::Obj(o) => {
                out.push('{');
                for (i, (k, v)) in o.iter().enumerate() {
                    if i > 0 {
                        out.push(',');
                    }
                    write_str(k, out);
                    out.push(':');
                    v.write(out);
                }
                out.push('}');
            }
        }
    }
}

fn write_str(s: &str, out: &mut String) {
    out.push('"');
    for c in s.chars() {
        match c {
            '"' => out.push_str("\\\""),
            '\\' => out.push_str("\\\\"),
            '\n' => out.push_str("\\n"),
            '\r' => out.push_str("\\r"),
            '\t' => out.push_str("\\t"),
            c if (c as u32) < 0x20 => {
                let _ = write!(out, "\\u{:04x}", c as u32);
            }
            c => out.push(c),
        }
    }
    out.push('"');
}
