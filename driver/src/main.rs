// espada-facts: a rustc_private driver that dumps the type-checked program
// (MIR with resolved callees, evaluated constants, ADT facts, unsafe/static census)
// of every *local* crate it compiles as one JSON document.  It executes nothing of
// the analysed crate.  Used as RUSTC_WORKSPACE_WRAPPER under `cargo +nightly check`.
#![feature(rustc_private)]
#![allow(clippy::all)]

extern crate rustc_abi;
extern crate rustc_driver;
extern crate rustc_hir;
extern crate rustc_infer;
extern crate rustc_interface;
extern crate rustc_middle;
extern crate rustc_span;
extern crate rustc_trait_selection;

mod json;
mod dump;

use rustc_driver::Compilation;
use rustc_interface::interface::Compiler;
use rustc_middle::ty::TyCtxt;

struct Cb;

impl rustc_driver::Callbacks for Cb {
    fn after_analysis<'tcx>(&mut self, _c: &Compiler, tcx: TyCtxt<'tcx>) -> Compilation {
        if let Ok(out) = std::env::var("ESPADA_FACTS_OUT") {
            dump::dump_crate(tcx, &out);
        }
        Compilation::Continue
    }
}

fn main() {
    let mut args: Vec<String> = std::env::args().collect();
    // RUSTC_WORKSPACE_WRAPPER passes [wrapper, rustc, args...]
    if args.len() > 1 && (args[1].ends_with("rustc") || args[1].contains("/rustc")) {
        args.remove(1);
    }
    let mut cb = Cb;
    rustc_driver::run_compiler(&args, &mut cb);
}
