"""C03 — a showdown flags exactly the strongest hands (necessary structural conditions).

 1. seven-card provenance of the evaluated hand (p[0], p[1], board[0..4], each once)
 2. board collision: `None` guarded by contains(board, p[0]) || contains(board, p[1]); evaluation after it
 3. min-selection discipline (strict-less resets, less-or-equal inserts, ties kept)
 4. the player position flows only into the winner set
 5. winner_len counts exactly the flag that is_winner returns, set from the winner set for all players
Not decided: the input/output relation over all boards and tie patterns."""
from sa import idioms as I, loops as L, prov as P
from sa.report import Unrecognised
from rules import runpass

SHOWDOWN = "evaluator::showdown::Showdown"
PLAYER = "evaluator::showdown::ShowdownPlayer"
CARD_PAIR = "hand_range::card_pair::CardPair"
MADE_HAND = "evaluator::made_hand::MadeHand"
FROM7 = f"<{MADE_HAND} as std::convert::From<[card::card::Card; 7]>>::from"
PAIR_INDEX = f"<{CARD_PAIR} as std::ops::Index<usize>>::index"


def U(rule, msg, fn=None):
    return Unrecognised(rule, msg, fn.path if fn else None, fn.line if fn else None)


def contains_term(t, sub):
    return any(s == sub for s in P.walk(t))


def _two_pass(ctx, F, fn, pr, fl, main, rule, is_p, is_b, lt_edges, le_edges, assign_blocks, made, ty, by_min=False, min_call=None):
    """the two-pass form of the selection: (1) best = min over all players (`if p < best { best = p }` for every player),
    (2) after that loop, every player's flag is set to (its own index == best).  Returns whether the flag pass has that form;
    problems of pass 1 are reported under `rule`."""
    problems = []
    tails = [t for (t, h) in fn.cfg.back_edges() if h == main.header]
    if min_call is not None:
        # best = records.iter().map(|r| r.hand.power_index()).min(): checked by the caller; nothing to check in the player loop
        ab = None
        inner_lt = []
    elif len(assign_blocks) != 1:
        raise U(rule, f"expected one `best = p` in the player loop; found {len(assign_blocks)}", fn)
    else:
        ab = assign_blocks[0]
    if min_call is not None:
        pass
    elif by_min:
        # best = best.min(p) for every player
        if not L.in_every_iteration(fn, main, ab):
            problems.append(("best-update", "`best = best.min(p)` is not executed for every player", ab))
        inner_lt = []
    else:
        if not I.guarded_by(fn, ab, le_edges, start=main.header):
            problems.append(("best-update", "`best = p` is not guarded by `p < best`", ab))
        inner_lt = [(b, l) for (b, l) in lt_edges if b in main.body]
        if not inner_lt:
            problems.append(("best-update", "no `p < best` test in the player loop", ab))
    for (b, l) in inner_lt:
        tgt = [t for l_, t in fn.cfg.succ_edges[b] if l_ == l][0]
        r = I.reachable_avoiding(fn, [], start=tgt, removed_blocks=[ab])
        if any(t in r for t in tails):
            problems.append(("best-update-skipped", "a stronger hand (p < best) does not always become the new best", b))
    for key, msg, bi in problems:
        ctx.violation(rule, f"{fn.path}|{key}", msg, fn=fn.path, file=fn.file, line=fn.blocks[bi]["line"],
                      construct="min-selection (two-pass): " + key)
    # pass 2
    isw = F.fn(PLAYER + "::is_winner")
    g = I.getter_field(isw)
    if g is None:
        raise U(rule, "is_winner is not a field getter", isw)
    k = g[0]
    flag_loops = [lp for lp in fl if lp is not main]
    stores = []
    for l, lst in pr.stores.items():
        for (sb, si, pl, rv) in lst:
            pj = pl["proj"]
            if pj and isinstance(pj[-1], dict) and pj[-1].get("f") == k and pj[-1].get("of") == PLAYER:
                stores.append((sb, pr.rvalue(rv) if "callterm" not in rv else None, pl))
    why = None
    if len(flag_loops) != 1 or len(stores) != 1:
        why = f"{len(flag_loops)} loops after the player loop / {len(stores)} stores into the win flag (expected 1 / 1)"
    else:
        lp = flag_loops[0]
        sb, sval, spl = stores[0]
        src2, chain2 = lp.chain()
        # the players vector: the local receiving push(ShowdownPlayer {..}) in the main loop
        vecs = set()
        for bi, t in fn.calls():
            if bi in main.body and t["callee"].get("name") == "push":
                v = P.strip(P.narrow_deep(P.strip(pr.operand(t["args"][1]))))
                if v[0] == "agg" and v[1].startswith("adt:" + PLAYER):
                    vecs.add(P.strip(pr.operand(t["args"][0])))
        hand_k = None
        for bi in fn.cfg.reachable:
            for st in fn.blocks[bi]["stmts"]:
                if st["k"] == "assign" and "agg" in st["rv"] and isinstance(st["rv"]["agg"], dict) and st["rv"]["agg"].get("adt") == PLAYER:
                    a = pr.rvalue(st["rv"])
                    ks = [i for i, o in enumerate(a[2]) if P.strip(o) == P.strip(made)]
                    if len(ks) == 1:
                        hand_k = ks[0]
        item = P.strip(lp.item_term)

        def is_p2(t):
            s_ = P.strip(t)
            if min_call is not None and s_[0] == "agg" and s_[1] == "adt:std::option::Option::Some" and len(s_[2]) == 1:
                s_ = P.strip(s_[2][0])      # `Some(p) == best` against the Option that Iterator::min returns
            if s_[0] == "call" and len(s_[2]) == 1:
                gfn = F.fns.get(s_[1])
                if gfn is None or I.getter_field(gfn) is None:
                    return False
                h = P.strip(s_[2][0])
            elif s_[0] == "field":
                h = P.strip(s_[1])
            else:
                return False
            return h[0] == "field" and h[2] == hand_k and P.strip(h[1]) == item
        # (the collected vector may have travelled through `Some(v)?` / `ControlFlow::Continue(v)`: a downcast of a freshly built
        # aggregate yields its field)
        if len(vecs) != 1 or (P.strip(src2) not in vecs and P.strip(P.narrow_deep(P.strip(src2))) not in vecs):
            why = "the flag loop does not run over the players collected by the first loop"
        elif any(c.rsplit("::", 1)[-1] in ("skip", "take", "rev", "filter", "step_by", "zip", "filter_map", "take_while", "skip_while")
                 for c in chain2):
            why = "the flag loop skips players"
        elif not (fn.cfg.dominates(main.exit_block, lp.header) and main.header not in fn.cfg.reach_from(lp.header)):
            why = "the flag loop does not come after the minimum is complete"
        elif min_call is not None and not _min_chain_ok(F, fn, pr, min_call, vecs, hand_k, main, lp):
            why = "the minimum is not taken over the hand index of every collected player before the flag loop"
        elif hand_k is None:
            why = "the evaluated hand is not stored in the player record"
        elif runpass.early_exits(fn, lp):
            why = "the flag loop can stop early"
        else:
            base = spl["l"]
            if sval == ("bool", True):
                edges = I.edges_implying(fn, pr, "Eq", is_p2, is_b, F=F)
                ne = I.edges_implying(fn, pr, "Ne", is_p2, is_b, F=F)
                edges = [e for e in edges if e[0] in lp.body]
                if not edges or not I.guarded_by(fn, sb, edges, start=lp.header):
                    why = "the win flag is set without `p == best`"
                else:
                    for (b, l) in edges:
                        tgt = [t for l_, t in fn.cfg.succ_edges[b] if l_ == l][0]
                        r = I.reachable_avoiding(fn, [], start=tgt, removed_blocks=[sb])
                        if lp.header in r:
                            why = "a player that ties the best is not always flagged"
            else:
                rel = I.norm_rel(P.strip(sval, calls=False), True) if sval is not None else None
                if rel is None or rel[0] != "Eq" or not ((is_p2(rel[1]) and is_b(rel[2])) or (is_p2(rel[2]) and is_b(rel[1]))):
                    why = "the stored flag is not (player's hand index == best)"
                elif not L.in_every_iteration(fn, lp, sb):
                    why = "the flag is not computed for every player"
    if why:
        ctx.violation(rule, f"{fn.path}|two-pass-flag", "two-pass selection: " + why, fn=fn.path, file=fn.file, line=fn.line,
                      construct="min-selection (two-pass): flag pass")
        return False
    if not problems:
        ctx.ok(rule, {"best_init": f"{ty}::MAX", "form": "two-pass: best = min(p); win = (p == best) for every player", "ties": "kept"},
               sample=True)
    return True


def _min_chain_ok(F, fn, pr, min_call, vecs, hand_k, main, flag_loop):
    """min_call = Iterator::min(records.iter().map(|r| r.hand.power_index())) taken after the player loop, before the flag loop"""
    mb = min_call[3] if len(min_call) > 3 else None
    if mb is None or not fn.cfg.dominates(main.exit_block, mb) or not fn.cfg.dominates(mb, flag_loop.header) or mb in main.body or mb in flag_loop.body:
        return False
    src, chain = L.iterator_chain(min_call[2][0])
    names = [c.rsplit("::", 1)[-1] for c in chain]
    if (P.strip(src) not in vecs and P.strip(P.narrow_deep(P.strip(src))) not in vecs) or names.count("map") != 1 or any(n not in ("iter", "into_iter", "map", "deref", "copied") for n in names):
        return False
    mp = [x for x in P.walk(min_call[2][0]) if x[0] == "call" and x[1].rsplit("::", 1)[-1] == "map" and len(x[2]) == 2]
    if len(mp) != 1:
        return False
    clo = P.strip(mp[0][2][1], calls=False)
    if not (clo[0] == "agg" and clo[1].startswith("closure:") and clo[1][len("closure:"):] in F.fns):
        return False
    cf = F.fns[clo[1][len("closure:"):]]
    if cf.cfg.has_loops() or any(b_["term"]["k"] == "switch" for i_, b_ in enumerate(cf.blocks) if i_ in cf.cfg.reachable):
        return False
    r = P.strip(P.Prov(cf).local(0))
    if r[0] == "call" and len(r[2]) == 1:
        g = F.fns.get(r[1])
        if g is None or I.getter_field(g) is None:
            return False
        h = P.strip(r[2][0])
    elif r[0] == "field":
        h = P.strip(r[1])
    else:
        return False
    return h[0] == "field" and h[2] == hand_k and P.strip(h[1]) == ("param", 2)


def run(ctx, prefix="C03", set_explanation=True):
    if set_explanation:
        ctx.explanation = ("static necessary conditions in Showdown::new / winner_len by provenance and edge-cut dominance: "
                           "the 7 evaluated cards, the board-collision guard on both hole cards, the single-pass minimum "
                           "discipline (reset under <, insert under <=, ties kept), position genericity, flag counting. The full "
                           "input/output relation over all boards and ties is NOT decided.")
    F = ctx.facts("lib")
    fn = F.fn(SHOWDOWN + "::new")
    wl = F.fn(SHOWDOWN + "::winner_len")
    ctx.analysed([fn, wl])
    pr = P.Prov(fn)
    fl = L.for_loops(fn, pr)
    main = [lp for lp in fl if P.strip(lp.chain()[0]) == ("param", 1)]
    if len(main) != 1:
        raise U(prefix + ".shape", "no single loop over the players argument", fn)
    main = main[0]
    src, chain = main.chain()
    names = [c.rsplit("::", 1)[-1] for c in chain]
    if any(n in ("rev", "skip", "take", "filter", "step_by", "zip", "filter_map", "take_while", "skip_while") for n in names):
        raise U(prefix + ".shape", f"player loop is not a plain loop over all players: {chain}", fn)
    item = main.item_term
    if "enumerate" in names:
        pos = ("field", item, 0)
        player = ("field", item, 1)
    else:
        # no position at all (two-pass form: minimum first, then flag the players that tie it)
        pos = None
        player = P.strip(item)

    def card_class(t):
        s = P.strip(t)
        if s[0] == "call" and s[1] == PAIR_INDEX and P.strip(s[2][0]) == player:
            return ("hole", P.const_int(s[2][1]))
        if s[0] == "field" and P.strip(s[1]) == player:
            return ("hole", s[2])
        if s[0] == "index" and P.strip(s[1]) == ("param", 2):
            return ("board", P.const_int(s[2]))
        if s[0] == "cindex" and P.strip(s[1]) == ("param", 2):   # `let [b0, ..] = board` pattern
            return ("board", s[2])
        if s[0] == "cindex" and P.strip(s[1]) == ("param", 2):   # `let [b0, ..] = board` pattern
            return ("board", s[2])
        return ("other", P.show_key(s))

    # ---- rule 1 ---------------------------------------------------------------------------
    rule = prefix + ".seven-cards"
    ctx.rule(rule, "the hand given to the evaluator is {p[0], p[1], board[0..4]}, each exactly once")
    conv = []
    for bi, t in fn.calls():
        if bi not in fn.cfg.reachable:
            continue
        c = t["callee"]
        tgt = c.get("resolved") or c.get("path")
        bounds = [b.get("method") for b in c.get("bound_impls", [])]
        if tgt == FROM7 or FROM7 in bounds:
            conv.append((bi, t))
    if len(conv) != 1:
        raise U(rule, f"{len(conv)} conversions into MadeHand in Showdown::new", fn)
    cb, ct = conv[0]
    arr = P.strip(pr.operand(ct["args"][0]))
    if not (arr[0] == "agg" and arr[1] == "array" and len(arr[2]) == 7):
        raise U(rule, f"evaluated hand is not a 7-array literal: {P.show(arr)[:100]}", fn)
    classes = sorted(card_class(o) for o in arr[2])
    want = sorted([("hole", 0), ("hole", 1)] + [("board", k) for k in range(5)])
    if classes == want:
        ctx.ok(rule, {"cards": [f"{a}{b}" for a, b in classes]}, sample=True)
    else:
        ctx.violation(rule, f"{fn.path}|seven-cards", f"the evaluated cards are {classes}; expected {want}",
                      fn=fn.path, file=fn.file, line=fn.blocks[cb]["line"], construct="7-card array passed to MadeHand::from")
    made = pr.call_term(ct, cb)

    # ---- rule 2 ---------------------------------------------------------------------------
    rule = prefix + ".board-collision"
    ctx.rule(rule, "None is returned exactly under contains(board, p[0]) || contains(board, p[1]), before evaluation")
    t_edges, f_edges, seen = [], {}, set()
    for b, lab, truth, term in I.bool_edges(fn, pr):
        tt, tr = term, truth
        while tt[0] == "un" and tt[1] == "Not":
            tt, tr = tt[2], not tr
        if tt[0] == "call" and tt[1].rsplit("::", 1)[-1] == "contains" and len(tt[2]) == 2:
            hay = P.strip(tt[2][0])
            while hay[0] == "cast":
                hay = P.strip(hay[2])
            cc = card_class(tt[2][1])
            if hay == ("param", 2) and cc[0] == "hole":
                seen.add(cc[1])
                if tr:
                    t_edges.append((b, lab))
                else:
                    f_edges.setdefault(cc[1], []).append((b, lab))
    nones = [b for b in sorted(fn.cfg.reachable) for s in fn.blocks[b]["stmts"]
             if s["k"] == "assign" and s["place"]["l"] == 0 and not s["place"]["proj"]
             and pr.rvalue(s["rv"])[0] == "agg" and pr.rvalue(s["rv"])[1].endswith("Option::None")]
    # `helper(..)?` returning the helper's None: `_0 = FromResidual::from_residual(..)` of an Option
    for b_, t_ in fn.calls():
        if b_ in fn.cfg.reachable and t_["callee"].get("name") == "from_residual" and "Option" in (t_["callee"].get("full") or "") \
                and t_["dest"]["l"] == 0 and not t_["dest"]["proj"]:
            nones.append(b_)
    if seen != {0, 1}:
        ctx.violation(rule, f"{fn.path}|hole-cards-tested", f"only hole card(s) {sorted(seen)} are tested against the board",
                      fn=fn.path, file=fn.file, line=fn.line)
    elif not nones:
        ctx.violation(rule, f"{fn.path}|no-none", "no `None` return for a board collision", fn=fn.path, file=fn.file, line=fn.line)
    else:
        ok = all(I.guarded_by(fn, R, t_edges, start=main.header) for R in nones)
        ok = ok and all(I.guarded_by(fn, cb, f_edges.get(k, []), start=main.header) for k in (0, 1))
        if ok:
            ctx.ok(rule, {"none_returns": len(nones), "guards": "contains(board,&p[0]) || contains(board,&p[1])"}, sample=True)
        else:
            ctx.violation(rule, f"{fn.path}|collision-guard",
                          "a `None` return is not guarded by the board test, or the hand is evaluated before both tests failed",
                          fn=fn.path, file=fn.file, line=fn.blocks[nones[0]]["line"])

    # ---- rule 3 ---------------------------------------------------------------------------
    rule = prefix + ".min-discipline"
    ctx.rule(rule, "best = MAX; under p < best: best = p and winners.clear(); under p <= best (ties included): winners.insert(i) "
                   "[or, two-pass: best = min over all players, then every player is flagged with (p == best)]")

    def is_p(t):
        s = P.strip(t)
        if s[0] == "call" and len(s[2]) == 1:
            g = F.fns.get(s[1])
            if g is None or I.getter_field(g) is None:
                return False
            a_ = P.strip(s[2][0])
            # also through the record just built for this player (`record.hand.power_index()`, `ShowdownPlayer::new(..)?`)
            return a_ == made or P.strip(P.narrow_deep(a_)) == made
        return s[0] == "field" and (P.strip(s[1]) == made or P.strip(P.narrow_deep(P.strip(s[1]))) == made)
    best = None
    best_by_min = False
    for l, ds in pr.defs.items():
        if len(ds) < 2:
            continue
        alts = P.alts(pr.local(l))
        inits = [a for a in alts if P.const_int(a) is not None]
        ps = [a for a in alts if is_p(a)]
        # best = best.min(p)
        mins = [a for a in alts if a[0] == "call" and a[1] == "std::cmp::Ord::min" and len(a[2]) == 2 and
                any(P.strip(x) == ("self", l) for x in a[2]) and any(is_p(x) for x in a[2])]
        if len(alts) == 2 and len(inits) == 1 and len(ps) == 1:
            best = (l, P.const_int(inits[0]), ds)
        elif len(alts) == 2 and len(inits) == 1 and len(mins) == 1 and fn.local_ty(l) in ("u8", "u16", "u32", "u64", "usize"):
            best = (l, P.const_int(inits[0]), ds)
            best_by_min = True
    if best is None:
        # third form: no running best at all; `records.iter().map(|r| r.hand.power_index()).min()` after the player loop
        mins_ = [(bi, t_) for bi, t_ in fn.calls() if bi in fn.cfg.reachable and I.callee_path(t_) == "std::iter::Iterator::min"]
        if len(mins_) != 1 or any(I.callee_path(t).startswith("std::collections::HashSet") for _b, t in fn.calls()):
            raise U(rule, "running best (init constant, updated with the player's index) not found", fn)
        min_call = pr.call_term(mins_[0][1], mins_[0][0])

        def is_bm(t):
            return P.strip(t, calls=False) == min_call
        two_pass, wset = True, None
        flag_two_pass_ok = _two_pass(ctx, F, fn, pr, fl, main, rule, is_p, is_bm, [], [], [], made, "u16", min_call=min_call)
    if best is not None:
        bl, binit, bdefs = best
        ty = fn.local_ty(bl)
        tmax = {"u8": 255, "u16": 65535, "u32": 2 ** 32 - 1, "u64": 2 ** 64 - 1, "usize": 2 ** 64 - 1}.get(ty)
        if binit != tmax:
            ctx.violation(rule, f"{fn.path}|best-init", f"running best starts at {binit}, not at {ty}::MAX: a hand whose index "
                          f"exceeds it can never win", fn=fn.path, file=fn.file, line=fn.line)
        b_term = pr.local(bl)

        def is_b(t):
            s = P.strip(t)
            return s == b_term or s == ("self", bl)
        lt_edges = I.edges_implying(fn, pr, "Lt", is_p, is_b, F=F)
        le_edges = I.edges_implying(fn, pr, "Le", is_p, is_b, F=F)
        assign_blocks = [bi for (bi, si, kind, payload) in bdefs if kind == "rv" and bi in main.body and is_p(pr.rvalue(payload))]
        if best_by_min:
            assign_blocks = [bi for (bi, si, kind, payload) in bdefs if bi in main.body]
        # winner set: the HashSet receiving insert(pos)
        ins, clr = [], []
        wset = None
        for bi, t in fn.calls():
            if bi not in fn.cfg.reachable or not I.callee_path(t).startswith("std::collections::HashSet"):
                continue
            nm = t["callee"].get("name")
            recv = P.strip(pr.operand(t["args"][0]))
            if nm == "insert" and pos is not None and P.strip(pr.operand(t["args"][1])) == pos:
                ins.append(bi)
                wset = recv
            if nm == "clear":
                clr.append((bi, recv))
        uses_set = any(I.callee_path(t).startswith("std::collections::HashSet") for _b, t in fn.calls())
        two_pass = wset is None and not uses_set
        flag_two_pass_ok = None
        if two_pass:
            flag_two_pass_ok = _two_pass(ctx, F, fn, pr, fl, main, rule, is_p, is_b, lt_edges, le_edges, assign_blocks, made, ty,
                                         by_min=best_by_min)
        elif wset is None or not ins:
            raise U(rule, "no winners.insert(position) found", fn)
        else:
            clr = [bi for bi, r in clr if r == wset]
            problems = []
            if len(assign_blocks) != 1 or len(clr) != 1 or not ins:
                raise U(rule, f"expected one best=p, one clear and at least one insert in the loop; found {len(assign_blocks)}/{len(clr)}/{len(ins)}", fn)
            ab, cbk = assign_blocks[0], clr[0]
            if not I.guarded_by(fn, ab, lt_edges, start=main.header):
                problems.append(("best-update", "`best = p` is not guarded by `p < best`", ab))
            if not I.guarded_by(fn, cbk, lt_edges, start=main.header):
                problems.append(("clear", "`winners.clear()` is not guarded by `p < best`", cbk))
            if not (fn.cfg.dominates(ab, cbk) or fn.cfg.dominates(cbk, ab)):
                problems.append(("clear-pairing", "`best = p` and `winners.clear()` are on different paths", cbk))
            for ib in ins:
                if not I.guarded_by(fn, ib, le_edges, start=main.header):
                    problems.append(("insert", "`winners.insert(i)` is not guarded by `p <= best`", ib))
            if all(I.guarded_by(fn, ib, lt_edges, start=main.header) for ib in ins):
                problems.append(("ties", "`winners.insert(i)` only happens under `p < best`: ties are dropped", ins[0]))
            # an equal hand must always be inserted: every path from a `p == best`-only edge ... (covered by the tie rule and the
            # new-best rule below for the single-comparison idioms)
            # a new best must always be inserted: every path from the update back to the loop header passes an insert
            tails = [t for (t, h) in fn.cfg.back_edges() if h == main.header]
            r = I.reachable_avoiding(fn, [], start=ab, removed_blocks=ins)
            if any(t in r for t in tails) and ab not in ins:
                problems.append(("new-best-inserted", "a path from `best = p` to the next iteration skips `winners.insert(i)`", ab))
            # a clear must not wipe the new best: no insert before the clear on the update path
            for ib in ins:
                if fn.cfg.dominates(ib, cbk) and ib != cbk:
                    problems.append(("insert-before-clear", "the new best is inserted before `winners.clear()`", ib))
            # p > best must not insert: insert unreachable when all <=-implying edges are removed (same as guarded_by above)
            if problems:
                for key, msg, bi in problems:
                    ctx.violation(rule, f"{fn.path}|{key}", msg, fn=fn.path, file=fn.file, line=fn.blocks[bi]["line"],
                                  construct="min-selection: " + key)
            else:
                ctx.ok(rule, {"best_init": f"{ty}::MAX", "reset": "p < best", "insert": "p <= best", "ties": "kept"}, sample=True)

    # ---- rule 4 ---------------------------------------------------------------------------
    rule = prefix + ".position-generic"
    ctx.rule(rule, "the player position is used only as a member of the winner set (no positional privilege)")
    flag_loops = [lp for lp in fl if lp is not main]
    positions = ([pos] if pos is not None else []) + [("field", lp.item_term, 0) for lp in flag_loops if "enumerate" in [c.rsplit("::", 1)[-1] for c in lp.chain()[1]]]
    bad_uses = []
    n_uses = 0
    for bi in sorted(fn.cfg.reachable):
        blk = fn.blocks[bi]
        for s in blk["stmts"]:
            if s["k"] != "assign":
                continue
            rv = s["rv"]
            if any(k in rv for k in ("bin", "un", "cast")):
                ops = [rv[k] for k in ("a", "b") if k in rv]
                for o in ops:
                    t = pr.operand(o)
                    if any(contains_term(t, p_) for p_ in positions):
                        bad_uses.append((s["line"], "arithmetic/comparison on the position"))
        t = blk["term"]
        if t["k"] == "switch":
            tt = pr.operand(t["on"])
            if any(contains_term(tt, p_) for p_ in positions):
                # allowed: switch on contains(winners, &pos)
                s = tt
                while s[0] == "un":
                    s = s[2]
                if not (s[0] == "call" and s[1].rsplit("::", 1)[-1] == "contains" and P.strip(s[2][0]) == wset):
                    bad_uses.append((blk["line"], "branch on the position"))
                else:
                    n_uses += 1
        if t["k"] == "call":
            for k, a in enumerate(t["args"]):
                ta = pr.operand(a)
                if any(contains_term(ta, p_) and P.strip(ta) in positions for p_ in positions):
                    nm = t["callee"].get("name")
                    recv = P.strip(pr.operand(t["args"][0])) if t["args"] else None
                    if nm in ("insert", "contains") and recv == wset and k == 1:
                        n_uses += 1
                    else:
                        bad_uses.append((blk["line"], f"position passed to {I.callee_path(t)}"))
    if bad_uses:
        ctx.violation(rule, f"{fn.path}|position-use", f"{bad_uses[0][1]}: a player's seat influences the result",
                      fn=fn.path, file=fn.file, line=bad_uses[0][0])
    else:
        ctx.ok(rule, {"uses_of_position": n_uses, "all": "winners.insert / winners.contains"}, sample=True)

    # ---- rule 5 ---------------------------------------------------------------------------
    rule = prefix + ".flag-count"
    ctx.rule(rule, "win flag: false at construction, set for every member of the winner set; winner_len counts that flag over all players")
    isw = F.fn(PLAYER + "::is_winner")
    g = I.getter_field(isw)
    if g is None:
        raise U(rule, "is_winner is not a field getter", isw)
    k = g[0]
    # construction with false
    aggs = [pr.rvalue(s["rv"]) for bi in fn.cfg.reachable for s in fn.blocks[bi]["stmts"]
            if s["k"] == "assign" and "agg" in s["rv"] and isinstance(s["rv"]["agg"], dict) and s["rv"]["agg"].get("adt") == PLAYER]
    ok5 = bool(aggs) and all(a[2][k] == ("bool", False) for a in aggs)
    # stores of true into field k of the flag loop's player, guarded by contains(winners, &pos2)
    stores = []
    for l, lst in pr.stores.items():
        for (sb, si, pl, rv) in lst:
            pj = pl["proj"]
            if pj and isinstance(pj[-1], dict) and pj[-1].get("f") == k and pj[-1].get("of") == PLAYER:
                stores.append((sb, pr.rvalue(rv) if "callterm" not in rv else None, pl))
    if two_pass:
        ok5 = ok5 and bool(flag_two_pass_ok)
    elif len(stores) != 1 or len(flag_loops) != 1:
        ok5 = False
    else:
        lp = flag_loops[0]
        src2, chain2 = lp.chain()
        pos2 = ("field", lp.item_term, 0)
        sb, sval = stores[0][0], stores[0][1]

        def is_member_test(term):
            return term[0] == "call" and term[1].rsplit("::", 1)[-1] == "contains" and P.strip(term[2][0]) == wset \
                and P.strip(term[2][1]) == pos2
        if sval == ("bool", True):
            edges = [(b, lab) for b, lab, truth, term in I.bool_edges(fn, pr) if truth and is_member_test(term)]
            if not edges or not I.guarded_by(fn, sb, edges, start=lp.header):
                ok5 = False
            # and the reverse: the contains-true edge always reaches the store
            if edges and not all(sb in fn.cfg.reach_from(fn.cfg.succ_edges[b][[l_ for l_, _ in fn.cfg.succ_edges[b]].index(lab)][1]) for b, lab in edges):
                ok5 = False
        elif sval is not None and is_member_test(P.strip(sval, calls=False)):
            # player.win = winners.contains(&i), for every player
            if not L.in_every_iteration(fn, lp, sb):
                ok5 = False
        else:
            ok5 = False
        if any(c.rsplit("::", 1)[-1] in ("skip", "take", "rev", "filter", "step_by", "zip", "filter_map", "take_while", "skip_while")
               for c in chain2) or runpass.early_exits(fn, lp):
            ok5 = False
    # winner_len
    prw = P.Prov(wl)
    wls = L.for_loops(wl, prw)
    okw = False
    if not wls:
        # iterator form: self.players.iter().filter(|p| p.<flag>).count() [as uN]
        r = prw.local(0)
        while r[0] == "cast":
            r = r[2]
        players_field = [i for i, f in enumerate(F.adts[SHOWDOWN]["variants"][0]["fields"]) if PLAYER in f["ty"]]
        is_count = r[0] == "call" and r[1].rsplit("::", 1)[-1] == "count" and r[2]
        if r[0] == "call" and r[1].rsplit("::", 1)[-1] == "fold" and len(r[2]) == 3 and P.const_int(r[2][1]) == 0:
            # fold(0, |n, _| n + 1) is count()
            fc = r[2][2]
            if fc[0] == "agg" and fc[1].startswith("closure:") and fc[1][len("closure:"):] in F.fns:
                ff = F.fns[fc[1][len("closure:"):]]
                ft = P.strip(P.Prov(ff).local(0)) if not ff.cfg.has_loops() else None
                is_count = bool(ft) and ft[0] == "bin" and ft[1] == "Add" and P.strip(ft[2]) == ("param", 2) and P.const_int(ft[3]) == 1
        if is_count:
            flt = P.strip(r[2][0], calls=False)
            if flt[0] == "call" and flt[1].rsplit("::", 1)[-1] == "filter" and len(flt[2]) == 2:
                src_, ch_ = L.iterator_chain(flt[2][0])
                clo = flt[2][1]
                whole = P.strip(src_) == ("field", ("deref", ("param", 1)), players_field[0]) and not any(
                    c.rsplit("::", 1)[-1] in ("skip", "take", "rev", "filter", "step_by") for c in ch_)
                if whole and clo[0] == "agg" and clo[1].startswith("closure:"):
                    cfn = F.fns.get(clo[1][len("closure:"):])
                    if cfn is not None and not cfn.cfg.has_loops():
                        ct = P.strip(P.Prov(cfn).local(0))
                        okw = ct[0] == "field" and ct[2] == k and P.strip(ct[1]) == ("param", 2)
    if len(wls) == 1:
        lw = wls[0]
        srcw, chw = lw.chain()
        s = P.strip(srcw)
        players_field = [i for i, f in enumerate(F.adts[SHOWDOWN]["variants"][0]["fields"]) if PLAYER in f["ty"]]
        whole = s == ("field", ("deref", ("param", 1)), players_field[0]) and not any(
            c.rsplit("::", 1)[-1] in ("skip", "take", "rev", "filter", "step_by") for c in chw)
        acc = prw.local(0)
        while acc[0] == "cast":        # `.. as u8` of a wider counter
            acc = acc[2]
        alts = P.alts(acc)
        inc = [a for a in alts if a[0] == "bin" and a[1] == "Add" and P.const_int(a[3]) == 1]
        ini = [a for a in alts if P.const_int(a) == 0]
        edges = []
        for b, lab, truth, term in I.bool_edges(wl, prw):
            st = P.strip(term)
            if st == ("field", P.strip(lw.item_term), k) or st == ("field", ("deref", lw.item_term), k):
                if truth:
                    edges.append((b, lab))
        inc_blocks = []
        for l, ds in prw.defs.items():
            if prw.local(l) == acc and len(ds) >= 2:
                inc_blocks = [bi for (bi, si, kind, payload) in ds if kind == "rv" and prw.rvalue(payload)[0] == "bin"]
        okw = whole and len(alts) == 2 and len(inc) == 1 and len(ini) == 1 and bool(edges) and bool(inc_blocks) and \
            all(I.guarded_by(wl, ib_, edges, start=lw.header) for ib_ in inc_blocks)
        if not okw and whole and len(alts) == 2 and len(ini) == 1:
            # acc += u8::from(player.win) for every player (bool -> 0/1)
            adds = [a for a in alts if a[0] == "bin" and a[1] == "Add" and P.strip(a[2])[0] == "self"]
            if len(adds) == 1:
                ad = P.strip(adds[0][3], calls=False)
                flag_t = None
                if ad[0] == "call" and "From<bool> for u" in ad[1] and ad[1].endswith(">::from") and len(ad[2]) == 1:
                    flag_t = P.strip(ad[2][0])
                elif ad[0] == "cast" and ad[1] == "IntToInt" and ad[3] == "bool":
                    flag_t = P.strip(ad[2])
                item_ = P.strip(lw.item_term)
                is_flag = flag_t is not None and flag_t[0] == "field" and flag_t[2] == k and P.strip(flag_t[1]) == item_
                blocks_ = []
                for l, ds in prw.defs.items():
                    if prw.local(l) == acc and len(ds) >= 2:
                        blocks_ = [bi for (bi, si, kind, payload) in ds if kind == "rv" and prw.rvalue(payload)[0] == "bin"]
                okw = is_flag and bool(blocks_) and all(L.in_every_iteration(wl, lw, b_) for b_ in blocks_) and not runpass.early_exits(wl, lw)
                edges = []
        # every flagged player is counted: the true edge leads to the increment
        if okw and edges:
            for b, lab in edges:
                tgt = [t_ for l_, t_ in wl.cfg.succ_edges[b] if l_ == lab][0]
                r2 = I.reachable_avoiding(wl, [], start=tgt, removed_blocks=inc_blocks)
                if lw.header in r2:
                    okw = False
    if ok5 and okw:
        ctx.ok(rule, {"flag_field": F.adts[PLAYER]["variants"][0]["fields"][k]["name"], "set": "contains(winners, &i)",
                      "winner_len": "+1 per flagged player over all players"}, sample=True)
    else:
        which = fn if not ok5 else wl
        ctx.violation(rule, f"{which.path}|flag-discipline",
                      "the win flag is not (false at construction, true exactly for winner-set members)" if not ok5 else
                      "winner_len does not add exactly 1 for every flagged player over all players",
                      fn=which.path, file=which.file, line=which.line)
    # ---- rule 6 ---------------------------------------------------------------------------
    rule = prefix + ".player-record"
    ctx.rule(rule, "each player record stores the player's own hole cards, the whole board and the hand evaluated from them; "
                   "cards() returns those seven cards, each once")
    fields = F.adts[PLAYER]["variants"][0]["fields"]
    k_pair = [i for i, f in enumerate(fields) if f["ty"] == CARD_PAIR]
    k_board = [i for i, f in enumerate(fields) if f["ty"].startswith("[card::card::Card; 5]")]
    k_hand = [i for i, f in enumerate(fields) if f["ty"] == MADE_HAND]
    if len(k_pair) != 1 or len(k_board) != 1 or len(k_hand) != 1:
        raise U(rule, "ShowdownPlayer is not (pair, board, hand, flag)", fn)
    k_pair, k_board, k_hand = k_pair[0], k_board[0], k_hand[0]
    recs = [pr.rvalue(s_["rv"]) for bi in fn.cfg.reachable for s_ in fn.blocks[bi]["stmts"]
            if s_["k"] == "assign" and "agg" in s_["rv"] and isinstance(s_["rv"]["agg"], dict) and s_["rv"]["agg"].get("adt") == PLAYER]
    probs6 = []
    if len(recs) != 1:
        probs6.append(f"{len(recs)} ShowdownPlayer constructions in Showdown::new")
    else:
        a = recs[0]
        if P.strip(a[2][k_pair]) != P.strip(player):
            probs6.append("the record's hole cards are not the player's own pair")
        bt = P.strip(a[2][k_board])
        board_ok = bt == ("param", 2) or (bt[0] == "agg" and bt[1] == "array" and len(bt[2]) == 5 and
                                          [card_class(o) for o in bt[2]] == [("board", k_) for k_ in range(5)])
        if not board_ok:
            probs6.append("the record's board is not the given board in order")
        if P.strip(a[2][k_hand]) != P.strip(made):
            probs6.append("the record's hand is not the evaluation of this player's seven cards")
    cf = F.fns.get(PLAYER + "::cards")
    if cf is not None:
        ctx.analysed([cf])
        ct_ = P.strip(P.Prov(cf).local(0))
        got = []
        if ct_[0] == "agg" and ct_[1] == "array" and len(ct_[2]) == 7 and not cf.cfg.has_loops():
            for o in ct_[2]:
                o = P.strip(o)
                if o[0] in ("index", "cindex") and P.strip(o[1]) == ("field", ("deref", ("param", 1)), k_board):
                    got.append(("board", P.const_int(o[2]) if o[0] == "index" else o[2]))
                elif o[0] == "call" and o[1] == PAIR_INDEX and P.strip(o[2][0]) == ("field", ("deref", ("param", 1)), k_pair):
                    got.append(("hole", P.const_int(o[2][1])))
                elif o[0] == "field" and P.strip(o[1]) == ("field", ("deref", ("param", 1)), k_pair):
                    got.append(("hole", o[2]))
                else:
                    got.append(("other", P.show_key(o)))
        want7 = sorted([("hole", 0), ("hole", 1)] + [("board", k_) for k_ in range(5)])
        if sorted(got, key=str) != sorted(want7, key=str):
            probs6.append(f"cards() returns {got}: not the record's five board cards and two hole cards, each once")
    if probs6:
        ctx.violation(rule, f"{fn.path}|player-record|{probs6[0].split(':')[0].replace(' ', '-')[:50]}", "; ".join(probs6),
                      fn=fn.path, file=fn.file, line=fn.line, construct="ShowdownPlayer record / cards()")
    else:
        ctx.ok(rule, {"record": "(player pair, board, evaluated hand, false)", "cards()": "board[0..4] + hole[0..1]"}, sample=True)
    ctx.assume("MadeHand index order is hand strength (C01); players' hole cards distinct from each other (precondition)")
