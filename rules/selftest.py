"""Liveness of zero-count rules: the same detectors are run on /verif/fixtures (positive examples) and
must fire there.  A silent detector means the machinery is broken (exit 2), never a verdict on espada."""
from sa import callgraph, facts as FX, panics, prov as P, strguard


def run(ctx, which):
    F = ctx.facts("fixtures")
    res = {}
    if "norec" in which:
        cg = callgraph.build(F)
        sccs = cg.sccs(set(F.fns))
        hit = any(any("Walker::advance" in m for m in comp) and any("closure" in m for m in comp) for comp in sccs)
        if not hit:
            raise FX.Broken("selftest: the recursion detector does not find Walker::advance <-> its or_else closure in the fixtures")
        res["norec"] = [c for c in sccs]
    if "narrow" in which:
        from rules import c08
        fn = F.fn("last_index")
        pr = P.Prov(fn)
        found = False
        for bi in fn.cfg.reachable:
            for s in fn.blocks[bi]["stmts"]:
                if s["k"] == "assign" and "cast" in s["rv"] and s["rv"]["cast"] == "IntToInt" and s["rv"]["to"] == "u8":
                    if c08.has_len(pr.operand(s["rv"]["a"])):
                        found = True
        if not found:
            raise FX.Broken("selftest: the length-narrowing detector does not fire on fixtures::last_index")
        res["narrow"] = "len() as u8 found"
    if "shared-location" in which:
        from rules import c15
        need = {"touches_static": "static-access", "touches_static_mut": "static-access", "touches_thread_local": "thread-local"}
        for name, kind in need.items():
            fn = F.fn(name)
            kinds = {k for (k, *_r) in c15.shared_location_sites(F, fn)}
            if kind not in kinds:
                raise FX.Broken(f"selftest: shared-location detector silent on fixtures::{name} (expected {kind}, got {sorted(kinds)})")
        if not any(u["kind"] == "unsafe_block" and u.get("user") and u["fn"] == "touches_static_mut" for u in F.unsafe_sites):
            raise FX.Broken("selftest: the unsafe census misses the user unsafe block in fixtures::touches_static_mut")
        res["shared-location"] = sorted(need)
    if "hash-order" in which:
        from rules import c17
        for name in ("keys_in_hash_order", "first_in_hash_order"):
            loops_, chains_ = c17.hash_order_audit(F, F.fn(name))
            if not any(pb for (_l, _s, pb) in loops_):
                raise FX.Broken(f"selftest: hash-order detector silent on fixtures::{name}")
        loops_, chains_ = c17.hash_order_audit(F, F.fn("collected_in_hash_order"))
        # `m.keys().copied().collect()` is seen either as a chain ending in an order-sensitive consumer or, after the pipeline
        # desugaring, as a hash-ordered loop pushing into a Vec
        if not any(not okc for (*_x, okc) in chains_) and not any(pb for (_l, _s, pb) in loops_):
            raise FX.Broken("selftest: hash-order chain detector silent on fixtures::collected_in_hash_order")
        res["hash-order"] = "3 positive examples fire"
    if "str-guard" in which:
        cg = callgraph.build(F)
        for name, want in (("first_two", False), ("first_two_ascii", True)):
            fn = F.fn(name)
            sites, pr = panics.sites_of(F, fn)
            ss = [s for s in sites if s.kind == "index" and s.info.get("container", "").startswith("str")]
            if len(ss) != 1:
                raise FX.Broken(f"selftest: {len(ss)} str slicing sites in fixtures::{name}")
            got = strguard.discharge(F, cg, ss[0], pr) is not None
            if got != want:
                raise FX.Broken(f"selftest: R-str-guard {'discharges' if got else 'does not discharge'} fixtures::{name}")
        res["str-guard"] = "byte-length-only guard rejected, ASCII+length guard accepted"
    ctx.extra.setdefault("fixture_selftest", {}).update(res)
    ctx.notes.append(f"fixture self-test passed for {sorted(res)}")
    return res
