"""C15 — evaluator instances are independent under any interleaving or thread schedule.

Decided on every run: no shared mutable location is reachable from an evaluator (no static /
thread-local / unsafe in any body under the entry points; all state types free of interior
mutability, reference counting, raw pointers and borrowed lifetimes; inputs cloned at
construction; hash containers use a deterministic hasher) and the public types are Send + Sync
(driver trait selection; compile-time witness crate in the thorough tier)."""
import re

from sa import idioms as I, prov as P
from sa.report import Unrecognised
from rules import evalmodel

ROOTS = ["evaluator::flop_exhaustive::FlopExhaustiveEvaluator", "hand_range::hand_range::HandRange",
         "evaluator::showdown::Showdown", "evaluator::showdown::ShowdownPlayer", "evaluator::made_hand::MadeHand",
         "hand_range::card_pair::CardPair", "card::card::Card"]
SHARED_TY = re.compile(r"\b(Cell|RefCell|UnsafeCell|OnceCell|OnceLock|LazyLock|LazyCell|Mutex|RwLock|Condvar|Rc|Arc|Weak|"
                       r"Atomic[A-Za-z0-9]+|Sender|Receiver|SyncSender|ThreadLocal|LocalKey)\b|\*const |\*mut ")
ADT_REF = re.compile(r"[A-Za-z_][A-Za-z0-9_]*(?:::[A-Za-z_][A-Za-z0-9_]*)+")


def reachable_adts(F, roots):
    seen = []
    st = list(roots)
    while st:
        a = st.pop()
        if a in seen or a not in F.adts:
            continue
        seen.append(a)
        for v in F.adts[a]["variants"]:
            for f in v["fields"]:
                for m in ADT_REF.findall(f["ty"]):
                    if m in F.adts and m not in seen:
                        st.append(m)
    return seen


def _names_shared_static(F, node):
    """does this operand/rvalue tree name a static that is mutable, thread-local or has interior mutability?  (an immutable
    static of a Freeze type is a constant with an address: no location that two evaluators could both write)"""
    if isinstance(node, dict):
        if "static_ref" in node:
            return node["static_ref"] not in F.const_statics
        if "tls" in node:
            return True
        return any(_names_shared_static(F, v) for v in node.values())
    if isinstance(node, list):
        return any(_names_shared_static(F, v) for v in node)
    return False


def shared_location_sites(F, fn):
    """accesses of statics / thread-locals in one body: [(kind, line, description, construct)]"""
    out = []
    p = fn.path
    for bi in sorted(fn.cfg.reachable):
        blk = fn.blocks[bi]
        for s in blk["stmts"]:
            if s["k"] != "assign":
                continue
            if _names_shared_static(F, s["rv"]):
                out.append(("static-access", s["line"], f"{p} reads or writes a static / thread-local: state shared by all "
                            f"evaluators in the process", "static access"))
        t = blk["term"]
        if t["k"] == "call" and (I.callee_path(t).startswith("std::thread::LocalKey") or "LocalKey<" in str(t["args"])):
            out.append(("thread-local", blk["line"], f"{p} uses a thread_local! key: per-thread state outlives and is shared "
                        f"between evaluators on one thread", "LocalKey access"))
        if t["k"] == "call" and _names_shared_static(F, t["args"]):
            out.append(("static-access", blk["line"], f"{p} passes a static to a call", "static access"))
    return out


def _default_hasher(ty):
    """a std HashMap / HashSet type written without its hasher parameter (the type printer elides the default, RandomState)"""
    for head, n_with_default in (("std::collections::HashMap<", 2), ("std::collections::HashSet<", 1)):
        i = ty.find(head)
        while i >= 0:
            j = i + len(head)
            depth, commas = 1, 0
            while j < len(ty) and depth:
                c = ty[j]
                if c in "<([":
                    depth += 1
                elif c in ">)]":
                    depth -= 1
                elif c == "," and depth == 1:
                    commas += 1
                j += 1
            if depth == 0 and commas + 1 == n_with_default:
                return True
            i = ty.find(head, j)
    return False


def run(ctx):
    ctx.level = "proof"
    ctx.explanation = ("static, for every schedule: bodies reachable from FlopExhaustiveEvaluator::{new,scope,into_iter} and "
                       "Iterator::next (resolved call graph) contain no static/thread-local access and no user unsafe; every "
                       "type reachable through the fields of the evaluator, its iterator, ranges and showdowns is Freeze, "
                       "Send, Sync, lifetime-free, without reference / Rc / raw-pointer / lock / atomic fields; inputs are "
                       "cloned; hashers are deterministic. In safe Rust this leaves no location two live iterators could "
                       "share, so any interleaving or thread schedule gives each its solo sequence.")
    F = ctx.facts("lib")
    M = evalmodel.get(F)
    ctx.analysed(M.reach)
    ctx.floor("functions reachable from the evaluator entry points", len(M.reach), 20)

    # 1a. statics / thread locals / unsafe in reachable bodies
    rule = "C15.no-shared-location"
    ctx.rule(rule, "no static, thread-local or user-written unsafe in any body reachable from an evaluator")
    n_bad = 0
    for p in sorted(M.reach):
        fn = F.fns[p]
        for (kind, line, desc, construct) in shared_location_sites(F, fn):
            n_bad += 1
            ctx.violation(rule, f"{p}|{kind}", desc, fn=p, file=fn.file, line=line, construct=construct)
    for u in F.unsafe_sites:
        if u["kind"] == "unsafe_block" and u.get("user") and not u["span"].get("exp") and u["fn"] in M.reach:
            n_bad += 1
            ctx.violation(rule, f"{u['fn']}|unsafe-block", f"user-written unsafe block in {u['fn']} (reachable from an evaluator)",
                          fn=u["fn"], file=u["span"]["file"], line=u["span"]["line"])
        if u["kind"] == "unsafe_fn" and u["fn"] in M.reach:
            n_bad += 1
            ctx.violation(rule, f"{u['fn']}|unsafe-fn", f"unsafe fn {u['fn']} reachable from an evaluator", fn=u["fn"],
                          file=u["span"]["file"], line=u["span"]["line"])
    if not n_bad:
        ctx.ok(rule, {"reachable_bodies": len(M.reach), "static_accesses": 0, "user_unsafe": 0}, sample=True)
    census = {
        "statics_in_crate": [s["path"] for s in F.statics],
        "user_unsafe_blocks_in_crate": [u["fn"] for u in F.unsafe_sites if u["kind"] == "unsafe_block" and u.get("user") and not u["span"].get("exp")],
        "unsafe_impls_in_crate": [u.get("trait") for u in F.unsafe_sites if u["kind"] == "unsafe_impl" and not u.get("derived")],
        "non_freeze_types_in_crate": [a["path"] for a in F.adts.values() if not a["freeze"]],
    }
    ctx.extra["crate_census"] = census

    # 1b / 2. state types
    rule = "C15.state-types"
    ctx.rule(rule, "every type reachable through the evaluator's / range's / showdown's fields is Freeze, Send, Sync, lifetime-free, with no reference, raw-pointer, Rc/Arc, lock, cell or atomic field")
    roots = ROOTS + [M.iter_ty]
    adts = reachable_adts(F, roots)
    for r in roots:
        if r not in F.adts:
            raise Unrecognised(rule, f"public type {r} not found")
    for a in adts:
        d = F.adts[a]
        probs = []
        if not d["freeze"]:
            probs.append("has interior mutability (not Freeze)")
        if d.get("send") is False:
            probs.append("is not Send")
        if d.get("sync") is False:
            probs.append("is not Sync")
        if d["lifetimes"]:
            probs.append("has a lifetime parameter (borrows caller data)")
        for v in d["variants"]:
            for f in v["fields"]:
                if f["kind"] in ("ref", "rawptr", "fnptr", "dyn") or f["ty"].startswith("&"):
                    probs.append(f"field {f['name']}: {f['ty']} is a reference / pointer")
                m = SHARED_TY.search(f["ty"])
                if m:
                    probs.append(f"field {f['name']}: {f['ty']} can share mutable state ({m.group(0).strip()})")
                if "RandomState" in f["ty"] or re.search(r"Hash(Map|Set)<[^>]*>$", f["ty"]) and "BuildHasher" not in f["ty"] and "Hasher" not in f["ty"]:
                    probs.append(f"field {f['name']}: {f['ty']} hashes with per-process random keys: iteration order (and so "
                                 f"the showdown sequence) would depend on where the value was built")
        if probs:
            sp = d["span"]
            ctx.violation(rule, f"{a}|{probs[0].split(':')[0].replace(' ', '-')[:40]}", f"{a} {'; '.join(probs)}",
                          file=sp["file"], line=sp["line"], construct=f"type {a}")
        else:
            ctx.ok(rule, {"type": a, "freeze": True, "send": d.get("send"), "sync": d.get("sync"), "lifetimes": 0}, sample=(a in roots[:2]))

    # locals of reachable bodies must not use a randomly keyed hasher either
    rule = "C15.deterministic-hasher"
    ctx.rule(rule, "hash containers in evaluator bodies use a deterministic hasher (no RandomState)")
    bad = 0
    for p in sorted(M.reach):
        fn = F.fns[p]
        for l in fn.locals:
            if "RandomState" in l["ty"] or _default_hasher(l["ty"]):
                bad += 1
                ctx.violation(rule, f"{p}|random-state", f"{p} uses {l['ty']}: iteration order differs between instances",
                              fn=p, file=fn.file, line=fn.line)
                break
    if not bad:
        ctx.ok(rule, {"bodies": len(M.reach), "random_state_locals": 0}, sample=True)

    # 2b. inputs cloned at construction
    rule = "C15.inputs-owned"
    ctx.rule(rule, "the evaluator stores clones of its inputs (no aliasing of caller data)")
    pr = P.Prov(M.new)
    t = pr.local(0)
    if not (t[0] == "agg" and t[1].startswith("adt:" + evalmodel.EVAL)):
        raise Unrecognised(rule, "new() does not build the evaluator by a struct literal", M.new.path, M.new.line)
    okc = 0
    for k in (1, 2):
        found = False
        for o in t[2]:
            s = o
            if s[0] == "call" and s[1].rsplit("::", 1)[-1] in ("clone", "to_vec", "to_owned") and P.strip(s[2][0]) == ("param", k):
                found = True
            if s[0] == "deref" and P.strip(s) == ("param", k):
                # Copy type dereferenced by value
                found = True
        if found:
            okc += 1
            ctx.ok(rule, f"parameter {k} of new() is cloned into the evaluator", sample=True)
        else:
            ctx.violation(rule, f"{M.new.path}|param{k}-not-cloned", f"new() does not store an owned copy of its parameter {k}",
                          fn=M.new.path, file=M.new.file, line=M.new.line)

    # 4. regexes: informational only (a write-once cache in the parser would not touch what an evaluator computes;
    #    anything static that an evaluator can reach is already reported by C15.no-shared-location)
    ctx.extra["regex_census"] = {
        "regex_new_calls_inside_functions": sum(1 for fn in F.fns.values() for _, c in fn.calls() if I.callee_path(c) == "regex::Regex::new"),
        "stored_in_fields_or_statics": [a_["path"] for a_ in F.adts.values() for v in a_["variants"] for f in v["fields"] if "regex::" in f["ty"]]
        + [s_["path"] for s_ in F.statics if "Regex" in s_["ty"]],
    }

    if ctx.tier == "thorough":
        from rules import selftest
        selftest.run(ctx, ["shared-location"])
        Fa = ctx.facts("all")
        ctx.extra["all_targets_census"] = {
            "targets": sorted(Fa.by_target),
            "statics": [s["path"] for s in Fa.statics],
            "user_unsafe": [u["fn"] for u in Fa.unsafe_sites if u["kind"] == "unsafe_block" and u.get("user") and not u["span"].get("exp")],
        }
        from rules import witness
        witness.run_witness(ctx, "C15")
    ctx.assume("regex, fxhash and std are data-race-free behind their safe APIs and keep no state observable through them")
    ctx.assume("safe Rust: without unsafe, statics or interior mutability two values share no mutable location")
