"""C13 — card, rank and suit encodings are mutually inverse and order-consistent.

All tables are finite and are extracted completely (MIR decision trees, evaluated constants):
codes, next/prev, char tables (every `char` by interval partition), the 52 bit masks and the
if-cascade decoding them, RANKS/SUITS, range constructors and slicing, Display/FromStr of Card."""
from sa import dtree, fmt, idioms as I, loops as L, prov as P
from sa.report import Unrecognised

RANK = "card::rank::Rank"
SUIT = "card::suit::Suit"
CARD = "card::card::Card"
RANK_ORDER = ["Ace", "King", "Queen", "Jack", "Ten", "Nine", "Eight", "Seven", "Six", "Five", "Four", "Trey", "Deuce"]
SUIT_ORDER = ["Spade", "Heart", "Diamond", "Club"]
RANK_CHARS = dict(zip(RANK_ORDER, "AKQJT98765432"))
SUIT_CHARS = dict(zip(SUIT_ORDER, "shdc"))
CHAR_MAX = 0x10FFFF


def U(rule, msg, fn=None):
    return Unrecognised(rule, msg, fn.path if fn else None, fn.line if fn else None)


def derived(F, adt, traits, ctx, rule):
    impls = {i["trait"]: i["derived"] for i in F.adts[adt]["impls"]}
    for tr in traits:
        if tr not in impls:
            ctx.violation(rule, f"{adt}|missing-{tr}", f"{adt} does not implement {tr}")
        elif not impls[tr]:
            ctx.violation(rule, f"{adt}|handwritten-{tr}", f"{tr} for {adt} is hand-written: its consistency with the "
                          f"declaration order is not established by derivation")
        else:
            ctx.ok(rule, f"{adt}: {tr} derived", nontrivial=True)


def check_enum(ctx, F, adt, order, chars):
    short = adt.rsplit("::", 1)[-1]
    rule = f"C13.{short.lower()}-tables"
    ctx.rule(rule, f"{short}: code = declaration index = derived order; char tables mutually inverse, all other chars rejected; next/prev = code±1")
    names = I.adt_variants(F, adt)
    if names != order:
        ctx.violation(rule, f"{adt}|declaration-order", f"variants are declared as {names}; the property's order is {order}")
        return
    discr = {v["name"]: v["discr"] for v in F.adts[adt]["variants"]}
    if [discr[n] for n in order] != list(range(len(order))):
        ctx.violation(rule, f"{adt}|discriminants", f"explicit discriminants {discr} break the derived order")
    derived(F, adt, ["std::cmp::PartialEq", "std::cmp::Eq", "std::cmp::PartialOrd", "std::cmp::Ord", "std::hash::Hash"], ctx, rule)
    # code
    code_fn = F.impl_fn(f"std::convert::From<&{adt}>", "u8", "from")
    tab = I.enum_match_table(F, code_fn, adt)
    ctx.analysed([code_fn])
    for i, n in enumerate(order):
        v = I.int_leaf(tab.get(n)) if tab.get(n) else None
        if v == i:
            ctx.ok(rule, f"code({short}::{n}) = {i}", sample=(i == 0))
        else:
            ctx.violation(rule, f"{code_fn.path}|code-{n}", f"u8::from(&{short}::{n}) is {v}; ranks number 0.. in declaration order, expected {i}",
                          fn=code_fn.path, file=code_fn.file, line=code_fn.line)
    byval = F.impl_fn(f"std::convert::From<{adt}>", "u8", "from")
    if I.forwarding_target(F, byval) is not code_fn:
        ctx.violation(rule, f"{byval.path}|not-forwarding", "From<T> for u8 does not forward to From<&T>", fn=byval.path,
                      file=byval.file, line=byval.line)
    else:
        ctx.ok(rule, f"{byval.path} forwards to the by-reference table")
    # to char
    tc = F.impl_fn(f"std::convert::From<&{adt}>", "char", "from")
    t2 = I.enum_match_table(F, tc, adt)
    to_char = {}
    for n in order:
        v = I.int_leaf(t2.get(n)) if t2.get(n) else None
        to_char[n] = v
        if v == ord(chars[n]):
            ctx.ok(rule, f"char({short}::{n}) = {chars[n]!r}")
        else:
            ctx.violation(rule, f"{tc.path}|char-{n}", f"char::from(&{short}::{n}) is {chr(v) if v else v!r}; standard notation writes {chars[n]!r}",
                          fn=tc.path, file=tc.file, line=tc.line)
    bv = F.impl_fn(f"std::convert::From<{adt}>", "char", "from")
    if I.forwarding_target(F, bv) is not tc:
        ctx.violation(rule, f"{bv.path}|not-forwarding", "From<T> for char does not forward to From<&T>", fn=bv.path, file=bv.file, line=bv.line)
    # from char: interval partition of the char domain
    fc = F.impl_fn("std::convert::TryFrom<&char>", adt, "try_from")
    ctx.analysed([tc, fc])

    def is_scrut(t):
        return t == ("deref", ("param", 1)) or t == ("param", 1)
    try:
        parts, pr = dtree.int_partition(fc, is_scrut, 0, CHAR_MAX)
    except (dtree.Unanalysable, dtree.NotLoopFree) as e:
        raise U(rule, f"char -> {short} is not a decision tree over the char: {e}", fc)
    accepted = {}
    rejected = 0
    for ivs, path, _ in parts:
        leaf = dtree.last_assign(fc, path, 0, pr) if path.end == "return" else None
        if leaf and leaf[0] == "agg" and leaf[1].endswith("Result::Ok"):
            v = leaf[2][0]
            name = v[1].rsplit("::", 1)[-1] if v[0] == "agg" else (v[2] if v[0] == "enumc" else None)
            for a, b in ivs:
                for cp in range(a, b + 1):
                    if b - a > 64:
                        raise U(rule, "an Ok arm covers a large char interval", fc)
                    accepted[cp] = name
        elif leaf and leaf[0] == "agg" and leaf[1].endswith("Result::Err"):
            rejected += sum(b - a + 1 for a, b in ivs)
        else:
            raise U(rule, f"leaf is neither Ok(..) nor Err(..): {leaf}", fc)
    want = {ord(chars[n]): n for n in order}
    if accepted == want:
        ctx.ok(rule, {"accepted_chars": "".join(chr(c) for c in sorted(accepted)), "rejected_code_points": rejected}, sample=True)
        ctx.ok(rule, f"all {rejected} other code points -> Err", n=1)
    else:
        extra = {chr(c): n for c, n in accepted.items() if want.get(c) != n}
        missing = {chr(c): n for c, n in want.items() if accepted.get(c) != n}
        ctx.violation(rule, f"{fc.path}|char-table", f"char -> {short} differs from the inverse of {short} -> char: "
                      f"wrong/extra {extra}, missing {missing}", fn=fc.path, file=fc.file, line=fc.line)
    fcv = F.impl_fn("std::convert::TryFrom<char>", adt, "try_from")
    # by-value forwards through (&c).try_into() -> TryInto blanket -> TryFrom<&char>
    okf = False
    prv = P.Prov(fcv)
    r = prv.local(0)
    if r[0] == "call" and len(r[2]) == 1 and P.strip(r[2][0]) == ("param", 1):
        calls = [t for _, t in fcv.calls()]
        if len(calls) == 1:
            b = [x.get("method") for x in calls[0]["callee"].get("bound_impls", [])]
            okf = (calls[0]["callee"].get("resolved") == fc.path) or fc.path in b
    if okf:
        ctx.ok(rule, f"{fcv.path} forwards to the by-reference table")
    else:
        ctx.violation(rule, f"{fcv.path}|not-forwarding", "TryFrom<char> does not forward to TryFrom<&char>", fn=fcv.path, file=fcv.file, line=fcv.line)
    # FromStr: first char of the text through the same table
    fs = F.impl_fn("std::str::FromStr", adt, "from_str")
    prs = P.Prov(fs)
    ctx.analysed([fs, fcv])
    conv = [t for _, t in fs.calls() if (t["callee"].get("resolved") in (fcv.path, fc.path)) or
            any(x.get("method") in (fcv.path, fc.path) for x in t["callee"].get("bound_impls", []))]
    nth = [pr_ for _, pr_ in fs.calls() if pr_["callee"].get("name") in ("nth", "next")]
    ok_fs = len(conv) == 1 and len(nth) == 1
    if ok_fs:
        a = P.strip(prs.operand(conv[0]["args"][0]))
        if not (a[0] == "field" and a[1][0] == "variant" and a[1][2] == "Some"):
            a = P.strip(P.narrow_deep(a))       # `.ok_or(())?`: the same payload behind Ok / Continue wrappers
        # Some(c) of chars().nth(0)
        ok_fs = a[0] == "field" and a[1][0] == "variant" and a[1][2] == "Some"
        nt = nth[0]
        if nt["callee"].get("name") == "nth":
            ok_fs = ok_fs and P.const_int(prs.operand(nt["args"][1])) == 0
        src = P.strip(prs.operand(nt["args"][0]))
        ok_fs = ok_fs and src[0] == "call" and src[1].rsplit("::", 1)[-1] == "chars" and P.strip(src[2][0]) == ("param", 1)
    if not ok_fs:
        # value.chars().next().ok_or(()).and_then(T::try_from)
        r_ = P.strip(prs.local(0), calls=False)
        if r_[0] == "call" and r_[1] == "std::result::Result::<T, E>::and_then" and len(r_[2]) == 2:
            fi = P.strip(r_[2][1], calls=False)
            subj_ = I.ok_or_subject(r_[2][0])
            if subj_ is not None and fi[0] == "fn" and \
                    fi[2] in (f"<{adt} as std::convert::TryFrom<char>>::try_from", f"<{adt} as std::convert::TryFrom<&char>>::try_from"):
                nx = P.strip(subj_, calls=False)
                first = nx[0] == "call" and (nx[1].endswith("::next") or (nx[1].endswith("::nth") and P.const_int(nx[2][1]) == 0))
                if first:
                    src = P.strip(nx[2][0])
                    ok_fs = src[0] == "call" and src[1].rsplit("::", 1)[-1] == "chars" and P.strip(src[2][0]) == ("param", 1) and \
                        not fs.cfg.has_loops()
    if ok_fs:
        ctx.ok(rule, f"{fs.path}: first char of the text through the char table; empty text -> Err")
    else:
        ctx.violation(rule, f"{fs.path}|from-str-shape", "from_str does not convert the first character of the text through the char table",
                      fn=fs.path, file=fs.file, line=fs.line)
    return code_fn


def fold_rank_fn(F, fn, rule):
    """{rank: term} of a loop-free `fn(&Rank) -> Option<Rank>` written over the rank's u8 code, constant tables of ranks and
    checked arithmetic: every branch condition and the result are folded for the concrete code of each rank"""
    try:
        paths, pr = dtree.enumerate_paths(fn)
    except dtree.NotLoopFree:
        raise U(rule, f"{fn.path} contains a loop", fn)
    code_fn = F.impl_fn(f"std::convert::From<&{RANK}>", "u8", "from")
    codes = {k: I.int_leaf(v) for k, v in I.enum_match_table(F, code_fn, RANK).items()}

    class Bad(Exception):
        pass

    def table_of(t):
        t = P.strip(t)
        while t[0] == "cast" and t[1] == "PointerCoercion":
            t = P.strip(t[2])
        if t[0] == "named":
            v = F.const_value(t[1])
            if v and "array" in v and all(isinstance(e, str) for e in v["array"]):
                return v["array"]
        raise Bad(f"not a constant table of ranks: {P.show(t)[:60]}")

    def ev(t, r, depth=0):
        if depth > 40:
            raise Bad("term too deep")
        c = P.const_int(t)
        if c is not None:
            return c
        k = t[0]
        if k in ("ref", "deref"):
            return ev(t[1], r, depth + 1)
        if k == "cast" and t[1] == "IntToInt":
            return ev(t[2], r, depth + 1)
        if k == "param" and t[1] == 1:
            return ("rank", r)
        if k == "call":
            nm = t[1].rsplit("::", 1)[-1]
            g = F.fns.get(t[1])
            if g is not None and len(t[2]) == 1 and I.resolve_forwarding(F, g) is code_fn:
                a = ev(t[2][0], r, depth + 1)
                if isinstance(a, tuple) and a[0] == "rank":
                    return codes[a[1]]
                raise Bad("code of something that is not the rank")
            if P.is_widening_from(t[1]) and len(t[2]) == 1:
                return ev(t[2][0], r, depth + 1)
            if nm in ("checked_sub", "checked_add") and t[1].startswith("core::num::") and len(t[2]) == 2:
                a, b = ev(t[2][0], r, depth + 1), ev(t[2][1], r, depth + 1)
                if not (isinstance(a, int) and isinstance(b, int)):
                    raise Bad("checked arithmetic on non-integers")
                v = a - b if nm == "checked_sub" else a + b
                return ("some", v) if v >= 0 else ("none",)
            if t[1] == "core::slice::<impl [T]>::get" and len(t[2]) == 2:
                tab_, i = table_of(t[2][0]), ev(t[2][1], r, depth + 1)
                if not isinstance(i, int):
                    raise Bad("table index is not an integer")
                return ("some", ("rank", tab_[i])) if 0 <= i < len(tab_) else ("none",)
            if t[1] in ("std::option::Option::<&T>::copied", "std::option::Option::<&T>::cloned") and len(t[2]) == 1:
                return ev(t[2][0], r, depth + 1)
            if nm == "clone" and len(t[2]) == 1:
                return ev(t[2][0], r, depth + 1)
            raise Bad(f"call outside the folded subset: {t[1]}")
        if k == "bin" and t[1] in ("Add", "Sub"):
            a, b = ev(t[2], r, depth + 1), ev(t[3], r, depth + 1)
            if not (isinstance(a, int) and isinstance(b, int)):
                raise Bad("arithmetic on non-integers")
            v = a + b if t[1] == "Add" else a - b
            if v < 0:
                raise Bad("negative intermediate value")
            return v
        if k == "agg" and t[1] == "adt:std::option::Option::Some" and len(t[2]) == 1:
            return ("some", ev(t[2][0], r, depth + 1))
        if k == "agg" and t[1] == "adt:std::option::Option::None":
            return ("none",)
        if k == "agg" and t[1].startswith("adt:" + RANK + "::") and not t[2]:
            return ("rank", t[1].rsplit("::", 1)[-1])
        if k == "enumc" and t[1] == RANK:
            return ("rank", t[2])
        if k == "index":
            tab_, i = table_of(t[1]), ev(t[2], r, depth + 1)
            if not isinstance(i, int) or not (0 <= i < len(tab_)):
                raise Bad("table index out of range")
            return ("rank", tab_[i])
        if k == "field" and t[1][0] == "variant" and t[1][2] == "Some" and t[2] == 0:
            v = ev(t[1][1], r, depth + 1)
            if isinstance(v, tuple) and v[0] == "some":
                return v[1]
            raise Bad("payload of a None")
        if k == "discr":
            v = ev(t[1], r, depth + 1)
            if isinstance(v, tuple) and v[0] in ("some", "none"):
                return 1 if v[0] == "some" else 0
            if isinstance(v, tuple) and v[0] == "rank":
                # `*self as usize`: the declared discriminant of the variant
                for var in F.adts[RANK]["variants"]:
                    if var["name"] == v[1]:
                        return var["discr"]
            raise Bad("discriminant of something that is neither an Option nor the rank")
        if k == "phi":
            raise Bad("value depends on the path")
        raise Bad(f"term outside the folded subset: {k}")
    out = {}
    for r in RANK_ORDER:
        hits = []
        for p in paths:
            pp = dtree.PathProv(fn, p)
            feas = True
            try:
                for (b, t, lab, ty, others) in p.conds:
                    on = fn.blocks[b]["term"]["on"]
                    # (provenance of the path prefix that reaches this switch: later assignments must not be seen)
                    pre = dtree.Path(p.blocks[:p.blocks.index(b) + 1], [], "stop", b)
                    v = ev(dtree.PathProv(fn, pre).operand(on), r)
                    if not isinstance(v, int):
                        raise Bad("branch on a non-integer")
                    if lab == "otherwise":
                        if v in others:
                            feas = False
                    elif v != lab:
                        feas = False
                    if not feas:
                        break
            except Bad:
                # a condition that cannot be folded on this path prefix: the path is only excluded if an earlier condition failed
                raise U(rule, f"{fn.path}: a branch condition is outside the folded subset", fn)
            if feas:
                hits.append((p, pp))
        if len(hits) != 1:
            raise U(rule, f"{fn.path}: {len(hits)} feasible paths for {r}", fn)
        p, pp = hits[0]
        if p.end != "return":
            out[r] = None
            continue
        try:
            v = ev(pp.local(0), r)
        except Bad as e:
            raise U(rule, f"{fn.path}: result for {r} is outside the folded subset ({e})", fn)
        if v == ("none",):
            out[r] = ("agg", "adt:std::option::Option::None", ())
        elif isinstance(v, tuple) and v[0] == "some" and isinstance(v[1], tuple) and v[1][0] == "rank":
            out[r] = ("agg", "adt:std::option::Option::Some", (("agg", f"adt:{RANK}::{v[1][1]}", ()),))
        else:
            raise U(rule, f"{fn.path}: result for {r} is not an Option<Rank>: {v}", fn)
    return out


def check_next_prev(ctx, F):
    rule = "C13.rank-next-prev"
    ctx.rule(rule, "Rank::next/prev move one step in declaration order, None exactly at the ends, mutually inverse")
    for name, step in (("next", 1), ("prev", -1)):
        fn = F.fn(f"{RANK}::{name}")
        ctx.analysed([fn])
        try:
            tab = I.enum_match_table(F, fn, RANK)
        except Unrecognised:
            # table form: `TABLE.get(code(self) + 1).copied()` / `code(self).checked_sub(1).map(|i| TABLE[i])`: folded for each
            # of the 13 ranks with the rank's code (loop-free, so one feasible path per rank)
            tab = fold_rank_fn(F, fn, rule)
        for i, n in enumerate(RANK_ORDER):
            t = tab.get(n)
            j = i + step
            want = RANK_ORDER[j] if 0 <= j < 13 else None
            got = "?"
            if t and t[0] == "agg" and t[1].endswith("Option::None"):
                got = None
            elif t and t[0] == "agg" and t[1].endswith("Option::Some"):
                v = t[2][0]
                got = v[1].rsplit("::", 1)[-1] if v[0] == "agg" else (v[2] if v[0] == "enumc" else "?")
            if got == want:
                ctx.ok(rule, f"{name}({n}) = {want}", sample=(i == 0))
            else:
                ctx.violation(rule, f"{fn.path}|{n}", f"Rank::{name}(Rank::{n}) is {got}; one step in ace-to-deuce order is {want}",
                              fn=fn.path, file=fn.file, line=fn.line)


def check_masks(ctx, F):
    rule = "C13.card-bits"
    ctx.rule(rule, "u64::from(&Card) is a distinct single bit below 2^52 for each of the 52 cards and Card::from(&u64) maps it back")
    enc = F.impl_fn(f"std::convert::From<&{CARD}>", "u64", "from")
    dec = F.impl_fn("std::convert::From<&u64>", CARD, "from")
    ctx.analysed([enc, dec])
    paths, pr = dtree.enumerate_paths(enc)
    bits = {}
    for p in paths:
        if p.end != "return":
            continue
        rk = st = None
        for (b, t, lab, ty, others) in p.conds:
            if t[0] != "discr":
                raise U(rule, f"unexpected branch {P.show(t)}", enc)
            base = P.strip(t[1])
            if base[0] == "field" and P.strip(base[1]) == ("param", 1):
                adt = F.adts[CARD]["variants"][0]["fields"][base[2]]["ty"]
                if lab == "otherwise":
                    names = set(I.adt_variants(F, adt)) - {I.variant_by_discr(F, adt, v) for v in others}
                    nm = names.pop() if len(names) == 1 else None
                else:
                    nm = I.variant_by_discr(F, adt, lab)
                if adt == RANK:
                    rk = nm
                elif adt == SUIT:
                    st = nm
        if rk is None or st is None:
            # computed encoding (`1 << (4 * rank + suit)`, `ACE_MASK << 4 * rank & SPADE_MASK << suit`): fold the result
            # expression of this path for every (rank, suit) it leaves open, with the u8 codes of the two enums
            t0 = dtree.PathProv(enc, p).local(0)
            rcode = I.enum_match_table(F, F.impl_fn(f"std::convert::From<&{RANK}>", "u8", "from"), RANK)
            scode = I.enum_match_table(F, F.impl_fn(f"std::convert::From<&{SUIT}>", "u8", "from"), SUIT)

            def fold(t, r_, s_):
                t = P.strip(t)
                c = P.const_int(t)
                if c is not None:
                    return c
                if t[0] == "cast":
                    return fold(t[2], r_, s_)
                if t[0] == "bin":
                    a, b_ = fold(t[2], r_, s_), fold(t[3], r_, s_)
                    if a is None or b_ is None:
                        return None
                    op = t[1]
                    if op == "BitAnd":
                        return a & b_
                    if op == "BitOr":
                        return a | b_
                    if op == "Add":
                        return a + b_
                    if op == "Mul":
                        return a * b_
                    if op == "Sub" and a >= b_:
                        return a - b_
                    if op == "Shl" and 0 <= b_ < 64:
                        return (a << b_) & ((1 << 64) - 1)
                    return None
                if t[0] == "call" and len(t[2]) == 1:
                    g = F.fns.get(t[1])
                    if g is not None and g.impl and g.impl.get("self_ty") == "u8":
                        g = I.resolve_forwarding(F, g)
                        arg = P.strip(t[2][0])
                        if arg[0] == "field" and P.strip(arg[1]) == ("param", 1):
                            fty = F.adts[CARD]["variants"][0]["fields"][arg[2]]["ty"]
                            tab, v_ = (rcode, r_) if fty == RANK else (scode, s_) if fty == SUIT else (None, None)
                            if tab is not None:
                                return I.int_leaf(tab.get(v_))
                        return None
                    # u32::from(u8) / usize::from(..) / .into(): value-preserving widening of std
                    if g is None and t[1].rsplit("::", 1)[-1] in ("from", "into"):
                        return fold(t[2][0], r_, s_)
                return None
            for r_ in ([rk] if rk else list(RANK_ORDER)):
                for s_ in ([st] if st else list(SUIT_ORDER)):
                    v = fold(t0, r_, s_)
                    if v is None:
                        raise U(rule, f"bit of {r_}/{s_} is not a foldable expression of the rank and suit codes: {P.show(t0)[:120]}", enc)
                    if (r_, s_) in bits:
                        raise U(rule, f"two paths for ({r_}, {s_})", enc)
                    bits[(r_, s_)] = v
            continue
        # path-sensitive evaluation of the result expression
        env = {}
        for b in p.blocks:
            for s in enc.blocks[b]["stmts"]:
                if s["k"] == "assign" and not s["place"]["proj"]:
                    env[s["place"]["l"]] = s["rv"]

        def ev(op):
            if "const" in op:
                return P.const_int(P.const_term(op["const"]))
            pl = op.get("copy") or op.get("move")
            if pl["proj"]:
                return None
            rv = env.get(pl["l"])
            if rv is None:
                return None
            if "use" in rv:
                return ev(rv["use"])
            if "bin" in rv:
                a, b_ = ev(rv["a"]), ev(rv["b"])
                if a is None or b_ is None:
                    return None
                op = rv["bin"]
                if op == "BitAnd":
                    return a & b_
                if op == "BitOr":
                    return a | b_
                if op == "Shl" and 0 <= b_ < 64:
                    return (a << b_) & ((1 << 64) - 1)
                if op == "Add":
                    return a + b_
                if op == "Mul":
                    return a * b_
                return None
            return None
        v = ev({"copy": {"l": 0, "proj": []}})
        if v is None:
            raise U(rule, f"bit of {rk}/{st} is not a constant expression", enc)
        bits[(rk, st)] = v
    if len(bits) != 52:
        raise U(rule, f"{len(bits)} (rank, suit) paths", enc)
    seen = {}
    for (rk, st), v in sorted(bits.items()):
        good = v > 0 and (v & (v - 1)) == 0 and v < (1 << 52) and v not in seen
        if good:
            ctx.ok(rule, f"{rk}/{st} -> bit {v.bit_length() - 1}", sample=(len(seen) == 0))
        else:
            ctx.violation(rule, f"{enc.path}|{rk}-{st}", f"u64::from(Card({rk},{st})) = {v:#x}: not a distinct single bit among the low 52"
                          + (f" (same as {seen[v]})" if v in seen else ""), fn=enc.path, file=enc.file, line=enc.line)
        seen.setdefault(v, (rk, st))
    # decoder, table-scan form: `TABLE.iter().find(|(mask, _)| value & mask != 0).map(|&(_, v)| v)` for the suit and for the rank
    # (constant tables of (mask, variant) pairs, first overlapping entry wins -- the same decision list as the if/else cascade)
    if dec.cfg.has_loops():
        return check_decoder_tables(ctx, F, rule, dec, bits)
    # decoder: evaluate the cascade's path conditions on each of the 52 bits
    dpaths, dpr = dtree.enumerate_paths(dec)
    ctor = None
    for (rk, st), v in sorted(bits.items()):
        hits = []
        for p in dpaths:
            feas = True
            for (b, t, lab, ty, others) in p.conds:
                truth = I.edge_truth(t, lab, others if lab == "otherwise" else None) if ty == "bool" else None
                if ty != "bool":
                    raise U(rule, "non-bool switch in Card::from(&u64)", dec)
                if lab == "otherwise":
                    truth = True if others == [0] else False
                else:
                    truth = bool(lab)
                rel = I.norm_rel(t, truth)
                if rel is None:
                    raise U(rule, f"unexpected condition {P.show(t)}", dec)
                op, x, y = rel

                def val(z):
                    if z[0] == "bin" and z[1] == "BitAnd":
                        a, b_ = val(z[2]), val(z[3])
                        return None if a is None or b_ is None else a & b_
                    if z[0] == "call" and z[1].rsplit("::", 1)[-1] == "bitand" and "std::ops::BitAnd" in z[1] and len(z[2]) == 2:
                        a, b_ = val(z[2][0]), val(z[2][1])
                        return None if a is None or b_ is None else a & b_
                    if P.strip(z) == ("param", 1):
                        return v
                    return P.const_int(z)
                a, b_ = val(x), val(y)
                if a is None or b_ is None:
                    raise U(rule, f"condition not evaluable: {P.show(t)}", dec)
                holds = {"Lt": a < b_, "Le": a <= b_, "Gt": a > b_, "Ge": a >= b_, "Eq": a == b_, "Ne": a != b_}[op]
                if not holds:
                    feas = False
                    break
            if feas:
                hits.append(p)
        if len(hits) != 1:
            raise U(rule, f"{len(hits)} feasible decoder paths for bit of {rk}/{st}", dec)
        p = hits[0]
        got = None
        if p.end == "return":
            # Card::new(rank, suit) or Card(rank, suit) with path-sensitive rank / suit
            env = {}
            for b in p.blocks:
                for s in dec.blocks[b]["stmts"]:
                    if s["k"] == "assign" and not s["place"]["proj"]:
                        env[s["place"]["l"]] = ("rv", s["rv"])
                tt = dec.blocks[b]["term"]
                if tt["k"] == "call" and not tt["dest"]["proj"]:
                    env[tt["dest"]["l"]] = ("call", tt)

            def variant_of(op, depth=0):
                if depth > 10:
                    return None
                if "const" in op:
                    c = op["const"]
                    return c.get("variant")
                pl = op.get("copy") or op.get("move")
                e = env.get(pl["l"])
                if e is None or pl["proj"]:
                    return None
                if e[0] == "rv":
                    rv = e[1]
                    if "use" in rv:
                        return variant_of(rv["use"], depth + 1)
                    if "agg" in rv and isinstance(rv["agg"], dict) and "variant" in rv["agg"] and not rv["ops"]:
                        return rv["agg"]["variant"]
                return None
            e0 = env.get(0)
            ops = None
            if e0 and e0[0] == "call":
                callee = F.fns.get(I.callee_path(e0[1]))
                if callee is not None:
                    cpr = P.Prov(callee)
                    r = cpr.local(0)
                    if r[0] == "agg" and r[1] == f"adt:{CARD}::Card" and [P.strip(x) for x in r[2]] == [("param", 1), ("param", 2)]:
                        ops = e0[1]["args"]
            elif e0 and e0[0] == "rv" and "agg" in e0[1]:
                ops = e0[1]["ops"]
            if ops:
                got = (variant_of(ops[0]), variant_of(ops[1]))
        if got == (rk, st):
            ctx.ok(rule, f"bit {v.bit_length() - 1} -> {rk}/{st}", sample=(rk == "Ace" and st == "Spade"))
        elif got is None or None in got:
            ctx.violation(rule, f"{dec.path}|{rk}-{st}", f"fail closed: the decoder's result for the bit of ({rk}, {st}) ({v:#x}) could not be folded from "
                          f"its mask tests (a decoder of another shape — arithmetic on the bit position, a search — is not read by this rule)",
                          fn=dec.path, file=dec.file, line=dec.line, construct="unrecognised decoder shape")
        else:
            ctx.violation(rule, f"{dec.path}|{rk}-{st}", f"Card::from(&{v:#x}) gives {got}; that bit encodes ({rk}, {st})",
                          fn=dec.path, file=dec.file, line=dec.line)
    for nm, a, b in ((f"std::convert::From<{CARD}>", "u64", enc), ("std::convert::From<u64>", CARD, dec)):
        f2 = F.impl_fn(nm, a, "from")
        if I.forwarding_target(F, f2) is b:
            ctx.ok(rule, f"{f2.path} forwards to the by-reference conversion")
        else:
            ctx.violation(rule, f"{f2.path}|not-forwarding", "by-value conversion does not forward to the by-reference one",
                          fn=f2.path, file=f2.file, line=f2.line)


def _variant_prov(F, fn, pr, lp, item, adt, variant):
    """provenance inside one iteration of the loop under the assumption that the loop's item is `variant`: switches on the
    item's discriminant keep that variant's edge only; a local then denotes its definition on the remaining blocks"""
    want = next((v["discr"] for v in F.adts[adt]["variants"] if v["name"] == variant), None)
    if want is None:
        return None
    removed = []
    for b2 in lp.body:
        t2 = fn.blocks[b2]["term"]
        if t2["k"] != "switch":
            continue
        on = P.strip(pr.operand(t2["on"]))
        if on[0] == "discr" and P.strip(on[1]) == item:
            labs = [l for l, _ in fn.cfg.succ_edges[b2]]
            keep = want if want in labs else "otherwise"
            removed += [(b2, l) for l in labs if l != keep]
    if not removed:
        return None
    reach = I.reachable_avoiding(fn, removed)

    class _Pth:
        blocks = [b2 for b2 in fn.cfg.rpo() if b2 in reach] if hasattr(fn.cfg, "rpo") else sorted(reach)
    return dtree.PathProv(fn, _Pth)


def check_decoder_tables(ctx, F, rule, dec, bits):
    pr = P.Prov(dec)
    fl = L.for_loops(dec, pr)
    if len(fl) != 2 or len(dec.cfg.loops()) != 2:
        raise U(rule, f"Card::from(&u64) has {len(dec.cfg.loops())} loops; expected one table scan for the suit and one for the rank", dec)
    value = ("deref", ("param", 1))
    scans = {}
    loop_sw = {dec.blocks[lp.next_block]["term"]["to"] for lp in fl}
    for lp in fl:
        src, chain = lp.chain()
        s_ = P.strip(src)
        sc_ = P.strip(src, calls=False)
        if sc_[0] == "call" and not sc_[2] and sc_[1].rsplit("::", 1)[-1] == "all" and sc_[1].rsplit("::", 1)[0] in F.adts and \
                all(c.rsplit("::", 1)[-1] == "into_iter" for c in chain):
            # `SuitRange::all()` / `RankRange::all()`: the whole table that the range type's into_iter slices, in table order —
            # which is what C13.suitrange / C13.rankrange establish; the decoder rule is made to depend on them (run())
            rty_ = sc_[1].rsplit("::", 1)[0]
            it0_ = F.impl_fn("std::iter::IntoIterator", rty_, "into_iter")
            pi0_ = P.Prov(it0_)
            bases_ = {P.strip(pi0_.operand(t0["args"][0]))[1] for bi0, t0 in it0_.calls() if t0["callee"].get("name") == "index"
                      and bi0 in it0_.cfg.reachable and P.strip(pi0_.operand(t0["args"][0]))[0] == "named"}
            if len(bases_) != 1:
                raise U(rule, f"{rty_}::into_iter does not slice one constant table", dec)
            s_ = ("named", bases_.pop(), None)
            ctx.c13_all_deps = getattr(ctx, "c13_all_deps", []) + [(rty_, rule, dec)]
        elif s_[0] != "named" or any(c.rsplit("::", 1)[-1] not in ("iter", "into_iter", "copied") for c in chain):
            raise U(rule, f"decoder loop does not walk a constant table directly: {P.show(src)[:60]} via {chain}", dec)
        tv = F.const_value(s_[1])
        plain = bool(tv) and "array" in tv and all(isinstance(e, str) for e in tv["array"])
        mi_, vi_ = 0, 1        # which component of an entry is the mask / the variant
        if not plain and tv and "array" in tv and tv["array"] and all(isinstance(e, (list, tuple)) and len(e) == 2 and isinstance(e[0], str) and isinstance(e[1], int) and not isinstance(e[1], bool) for e in tv["array"]):
            mi_, vi_ = 1, 0    # (variant, mask) pairs
            tv = dict(tv, array=[[e[1], e[0]] for e in tv["array"]])
        if not plain and (not tv or "array" not in tv or not all(isinstance(e, (list, tuple)) and len(e) == 2 and isinstance(e[0], int) and isinstance(e[1], str) for e in tv["array"])):
            raise U(rule, f"{s_[1]} is not a constant table of (mask, variant) pairs or of variants", dec)
        item = P.strip(lp.item_term)
        folded = {}
        hits = []
        for b, lab, op, x, y in I.rel_edges(dec, pr, F):
            if b not in lp.body or b in loop_sw:
                continue
            if any(b in l2.body for l2 in fl if l2 is not lp and len(l2.body) < len(lp.body)):
                continue
            hits.append((b, lab, op, x, y))
        blocks_ = {h[0] for h in hits}
        if len(blocks_) != 1:
            raise U(rule, f"the scan of {s_[1]} tests {len(blocks_)} conditions per entry; expected one (mask & value != 0)", dec)
        hit_edge = None
        for (b, lab, op, x, y) in hits:
            xs, ys = P.strip(x), P.strip(y)
            if P.const_int(xs) is not None:
                xs, ys, op = ys, xs, I.FLIP[op]
            c = P.const_int(ys)
            a_, b_ = None, None
            if xs[0] == "bin" and xs[1] == "BitAnd":
                a_, b_ = P.strip(xs[2]), P.strip(xs[3])
            elif xs[0] == "call" and xs[1].rsplit("::", 1)[-1] == "bitand" and "std::ops::BitAnd" in xs[1] and len(xs[2]) == 2:
                a_, b_ = P.strip(xs[2][0]), P.strip(xs[2][1])
            def unref(u):
                u = P.strip(u)
                return ("field", unref(u[1]), u[2]) if u[0] == "field" else u
            mask_t = ("field", item, mi_)
            is_val = [P.strip(u) == ("param", 1) for u in (a_, b_)] if a_ is not None else []
            if plain and a_ is not None and sorted(is_val) == [False, True]:
                # a table of variants, the mask computed from the entry (`SPADE_MASK << code(suit)`): folded per entry with the
                # enum's code table
                mterm = b_ if is_val[0] else a_
                adt_ = tv.get("elem")
                code_fn_ = F.impl_fn(f"std::convert::From<&{adt_}>", "u8", "from")
                codes_ = {k_: I.int_leaf(v_) for k_, v_ in I.enum_match_table(F, code_fn_, adt_).items()}

                def foldm(t_, var_, depth=0):
                    t_ = P.strip(t_)
                    c_ = P.const_int(t_)
                    if c_ is not None:
                        return c_
                    if depth > 12:
                        return None
                    if t_[0] == "cast":
                        return foldm(t_[2], var_, depth + 1)
                    if t_[0] == "named" and t_[2] is not None:
                        return P.const_int(t_[2])
                    if t_[0] == "bin":
                        x_, y_ = foldm(t_[2], var_, depth + 1), foldm(t_[3], var_, depth + 1)
                        if x_ is None or y_ is None:
                            return None
                        return {"Shl": lambda: (x_ << y_) & ((1 << 64) - 1) if 0 <= y_ < 64 else None, "Mul": lambda: x_ * y_, "Add": lambda: x_ + y_,
                                "BitOr": lambda: x_ | y_, "BitAnd": lambda: x_ & y_}.get(t_[1], lambda: None)()
                    if t_[0] == "call" and len(t_[2]) == 1:
                        g_ = F.fns.get(t_[1])
                        if g_ is not None and I.resolve_forwarding(F, g_) is code_fn_ and P.strip(t_[2][0]) == item:
                            return codes_[var_]
                        if P.is_widening_from(t_[1]):
                            return foldm(t_[2][0], var_, depth + 1)
                    return None
                fm = {v_: foldm(mterm, v_) for v_ in tv["array"]}
                if any(x_ is None for x_ in fm.values()):
                    # the mask is chosen by a `match` on the entry inside the loop (`value & suit_mask(suit)` with the helper
                    # spliced in): per variant, follow that variant's arm and fold the operand the test then reads
                    for v_ in tv["array"]:
                        rp_ = _variant_prov(F, dec, pr, lp, item, adt_, v_)
                        if rp_ is None:
                            continue
                        tt_ = P.strip(rp_.operand(dec.blocks[b]["term"]["on"]))
                        cands_ = []
                        for sub_ in P.walk(tt_):
                            sub_ = P.strip(sub_)
                            pair_ = None
                            if sub_[0] == "bin" and sub_[1] == "BitAnd":
                                pair_ = (P.strip(sub_[2]), P.strip(sub_[3]))
                            elif sub_[0] == "call" and sub_[1].rsplit("::", 1)[-1] == "bitand" and len(sub_[2]) == 2:
                                pair_ = (P.strip(sub_[2][0]), P.strip(sub_[2][1]))
                            if pair_ and sorted(u == ("param", 1) for u in pair_) == [False, True]:
                                cands_.append(pair_[1] if pair_[0] == ("param", 1) else pair_[0])
                        if len(cands_) == 1:
                            fm[v_] = foldm(cands_[0], v_)
                if any(x_ is None for x_ in fm.values()):
                    raise U(rule, f"the mask tested for an entry of {s_[1]} is not a foldable expression of the entry's code: {P.show(mterm)[:80]}", dec)
                folded = fm
                is_mask = [not v_ for v_ in is_val]
            else:
                is_mask = [unref(u) == mask_t for u in (a_, b_)] if a_ is not None else []
            ok_operands = a_ is not None and sorted(is_mask) == [False, True] and sorted(is_val) == [False, True]
            nonzero = (op, c) in (("Ne", 0), ("Gt", 0), ("Ge", 1))
            zero = (op, c) in (("Eq", 0), ("Lt", 1), ("Le", 0))
            if not ok_operands or not (nonzero or zero):
                raise U(rule, f"the scan of {s_[1]} does not test `mask & value != 0`: {P.show(x)[:60]} {op} {P.show(y)[:20]}", dec)
            tgt = [t_ for l2, t_ in dec.cfg.succ_edges[b] if l2 == lab][0]
            back = I.reachable_avoiding(dec, [], start=tgt, removed_blocks=[lp.exit_block] + [x_ for x_ in dec.cfg.reachable if x_ not in lp.body])
            if nonzero:
                hit_edge = (b, lab)
                if lp.header in back or tgt == lp.header:
                    raise U(rule, f"the scan of {s_[1]} goes on after an entry matched (the first match must win)", dec)
            else:
                if lp.header not in back and tgt != lp.header:
                    raise U(rule, f"the scan of {s_[1]} stops at an entry that does not match", dec)
        if hit_edge is None:
            raise U(rule, f"no match test in the scan of {s_[1]}", dec)
        scans[lp.header] = (lp, s_[1], [[folded[v_], v_] for v_ in tv["array"]] if plain else tv["array"], item)
        scans[lp.header] += (plain, vi_)
    # the card is built from the matched entries' variants
    ret = P.strip(pr.local(0), calls=False)
    ops = None
    if ret[0] == "call" and ret[1] in F.fns and len(ret[2]) == 2:
        r2 = P.Prov(F.fns[ret[1]]).local(0)
        if r2[0] == "agg" and r2[1] == f"adt:{CARD}::Card" and [P.strip(x) for x in r2[2]] == [("param", 1), ("param", 2)]:
            ops = list(ret[2])
    elif ret[0] == "agg" and ret[1] == f"adt:{CARD}::Card":
        ops = list(ret[2])
    if ops is None:
        raise U(rule, f"decoder result is not Card::new(rank, suit): {P.show(ret)[:80]}", dec)
    fields = F.adts[CARD]["variants"][0]["fields"]
    which = {}
    for k, o in enumerate(ops):
        o = P.strip(P.narrow_deep(P.strip(o)))

        def unref2(u):
            u = P.strip(u)
            return ("field", unref2(u[1]), u[2]) if u[0] == "field" else u
        srcs = [h for h, (lp, nm, arr, item, plain_, vi2_) in scans.items() if unref2(o) == (item if plain_ else ("field", item, vi2_))]
        if len(srcs) != 1:
            raise U(rule, f"card field {k} is not the variant of the entry matched by one of the scans: {P.show(o)[:80]}", dec)
        which[fields[k]["ty"]] = scans[srcs[0]]
    if set(which) != {RANK, SUIT}:
        raise U(rule, "decoder does not fill rank and suit from the two scans", dec)

    def first(arr, v):
        for mask, var in arr:
            if mask & v:
                return var
        return None
    for (rk, st), v in sorted(bits.items()):
        got = (first(which[RANK][2], v), first(which[SUIT][2], v))
        if got == (rk, st):
            ctx.ok(rule, f"bit {v.bit_length() - 1} -> {rk}/{st}", sample=(rk == "Ace" and st == "Spade"))
        else:
            ctx.violation(rule, f"{dec.path}|{rk}-{st}", f"Card::from(&{v:#x}) gives {got} (first overlapping entries of {which[RANK][1]} / {which[SUIT][1]}); "
                          f"that bit encodes ({rk}, {st})", fn=dec.path, file=dec.file, line=dec.line)
    for nm, a, b in ((f"std::convert::From<{CARD}>", "u64", F.impl_fn(f"std::convert::From<&{CARD}>", "u64", "from")), ("std::convert::From<u64>", CARD, dec)):
        f2 = F.impl_fn(nm, a, "from")
        if I.forwarding_target(F, f2) is b:
            ctx.ok(rule, f"{f2.path} forwards to the by-reference conversion")
        else:
            ctx.violation(rule, f"{f2.path}|not-forwarding", "by-value conversion does not forward to the by-reference one",
                          fn=f2.path, file=f2.file, line=f2.line)


def check_ranges(ctx, F, adt, order, range_ty, table_const, code_fn):
    short = range_ty.rsplit("::", 1)[-1]
    rule = f"C13.{short.lower()}"
    ctx.rule(rule, f"{short}: table[i] has code i; new -> [start..end), inclusive -> [start..=end], all -> [0..len); bounds are the codes of the arguments")
    # the table is the named constant that the range's into_iter slices (found from the code, not by its name)
    it0 = F.impl_fn("std::iter::IntoIterator", range_ty, "into_iter")
    pi0 = P.Prov(it0)
    bases = set()
    for bi0, t0 in it0.calls():
        if t0["callee"].get("name") == "index" and bi0 in it0.cfg.reachable:
            b0 = P.strip(pi0.operand(t0["args"][0]))
            if b0[0] == "named":
                bases.add(b0[1])
    if len(bases) != 1:
        raise U(rule, f"{short}::into_iter does not slice one constant table (found {sorted(bases)})", it0)
    table_const = bases.pop()
    tv = (F.consts.get(table_const) or F.const_statics.get(table_const) or {}).get("value")
    if not tv or tv.get("array") != order:
        ctx.violation(rule, f"{table_const}|table-order", f"{table_const} is {tv.get('array') if tv else None}; expected {order}")
    else:
        ctx.ok(rule, f"{table_const}[i] has code i for all {len(order)} entries", sample=True)
    adt_r = F.adts[range_ty]
    fields = [f["name"] for f in adt_r["variants"][0]["fields"]]
    tys = [f["ty"] for f in adt_r["variants"][0]["fields"]]
    if tys == ["usize", "usize"] or tys == ["std::ops::Range<usize>"]:
        return check_ranges_half_open(ctx, F, rule, short, range_ty, table_const, code_fn, order, it0, pi0,
                                      nested=(tys == ["std::ops::Range<usize>"]))
    if tys.count("usize") != 2 or tys.count("bool") != 1:
        raise U(rule, f"{range_ty} is not (usize, usize, bool), (usize, usize) or (Range<usize>)")
    f_bool = tys.index("bool")
    shapes = {}
    for ctor, incl in (("new", False), ("inclusive", True)):
        fn = F.fn(f"{range_ty}::{ctor}")
        ctx.analysed([fn])
        pr = P.Prov(fn)
        r = pr.local(0)
        if not (r[0] == "agg" and r[1].startswith("adt:" + range_ty)):
            raise U(rule, f"{ctor} does not build the range by a struct literal", fn)

        def code_of_param(t, k):
            s = t
            while s[0] == "cast" or (s[0] == "call" and s[1].rsplit("::", 1)[-1] in ("into", "from") and "u8" not in (F.fns.get(s[1]).impl or {}).get("self_ty", "") if s[0] == "call" and s[1] in F.fns else False):
                s = s[2] if s[0] == "cast" else s[2][0]
            # usize::from(u8) / .into()
            while s[0] == "call" and s[1] not in F.fns and s[1].rsplit("::", 1)[-1] in ("into", "from") and len(s[2]) == 1:
                s = s[2][0]
            if s[0] == "cast":
                s = s[2]
            if s[0] == "call" and s[1] in F.fns and len(s[2]) == 1 and P.strip(s[2][0]) == ("param", k):
                g = I.resolve_forwarding(F, F.fns[s[1]])
                return g is code_fn
            return False
        us = [i for i, t in enumerate(tys) if t == "usize"]
        a_ok = code_of_param(r[2][us[0]], 1) and code_of_param(r[2][us[1]], 2)
        b_ok = r[2][f_bool] == ("bool", incl)
        if a_ok and b_ok:
            ctx.ok(rule, f"{short}::{ctor}(a, b) = (code(a), code(b), inclusive={incl})", sample=True)
        else:
            ctx.violation(rule, f"{fn.path}|fields", f"{short}::{ctor} stores {P.show(r)[:160]}; expected (code(start), code(end), {incl})",
                          fn=fn.path, file=fn.file, line=fn.line)
        shapes[ctor] = us
    fn = F.fn(f"{range_ty}::all")
    pr = P.Prov(fn)
    r = pr.local(0)
    us = shapes["new"]
    end = P.strip(r[2][us[1]]) if r[0] == "agg" else None
    end_ok = end is not None and (P.const_int(end) == len(order) or (end[0] in ("call", "un", "len")))
    if r[0] == "agg" and P.const_int(r[2][us[0]]) == 0 and end_ok and r[2][f_bool] == ("bool", False):
        ctx.ok(rule, f"{short}::all() = (0, len, exclusive)")
    else:
        ctx.violation(rule, f"{fn.path}|fields", f"{short}::all stores {P.show(r)[:120]}", fn=fn.path, file=fn.file, line=fn.line)
    # into_iter: inclusive -> table[start..=end], else table[start..end]
    it = F.impl_fn("std::iter::IntoIterator", range_ty, "into_iter")
    ctx.analysed([it, fn])
    pi = P.Prov(it)
    found = {}
    for bi, t in it.calls():
        c = t["callee"]
        if c.get("name") != "index" or bi not in it.cfg.reachable:
            continue
        base = P.strip(pi.operand(t["args"][0]))
        rng = P.strip(pi.operand(t["args"][1]))
        if not (base[0] == "named" and base[1] == table_const):
            ctx.violation(rule, f"{it.path}|table", f"slices {P.show(base)[:60]} instead of {table_const}", fn=it.path, file=it.file, line=it.blocks[bi]["line"])
            continue
        kind = None
        s_, e_ = None, None
        if rng[0] == "agg" and rng[1].endswith("Range::Range"):
            kind, (s_, e_) = False, rng[2][:2]
        elif rng[0] == "call" and rng[1].startswith("std::ops::RangeInclusive") and rng[1].endswith("::new"):
            kind, (s_, e_) = True, rng[2][:2]
        elif rng[0] == "agg" and "RangeInclusive" in rng[1]:
            kind, (s_, e_) = True, rng[2][:2]
        if kind is None:
            raise U(rule, f"unrecognised slice bounds {P.show(rng)[:80]}", it)
        want_s = ("field", ("param", 1), shapes["new"][0])
        want_e = ("field", ("param", 1), shapes["new"][1])
        ok_b = P.strip(s_) == want_s and P.strip(e_) == want_e
        # guard: this arm is taken under self.inclusive == kind
        edges = []
        for (src, lab, dst) in it.cfg.dominating_edges(bi):
            tt = it.blocks[src]["term"]
            if tt["k"] == "switch":
                on = P.strip(pi.operand(tt["on"]))
                if on == ("field", ("param", 1), f_bool):
                    vals = [v for v, _ in tt["arms"]]
                    truth = I.edge_truth(on, lab, vals)
                    edges.append(truth)
        if ok_b and edges == [kind]:
            found[kind] = True
            ctx.ok(rule, f"into_iter: inclusive={kind} -> {table_const}[start{'..=' if kind else '..'}end]", sample=True)
        else:
            ctx.violation(rule, f"{it.path}|slice-{'inclusive' if kind else 'exclusive'}",
                          f"the {'..=' if kind else '..'} slice is taken with bounds ({P.show(s_)[:40]}, {P.show(e_)[:40]}) under inclusive flag {edges}",
                          fn=it.path, file=it.file, line=it.blocks[bi]["line"])
    if set(found) != {True, False}:
        ctx.violation(rule, f"{it.path}|arms", "into_iter does not have one inclusive and one exclusive slicing arm", fn=it.path, file=it.file, line=it.line)


def check_ranges_half_open(ctx, F, rule, short, range_ty, table_const, code_fn, order, it, pi, nested=False):
    """second representation: (start, end) with `end` always exclusive -- new -> (code(a), code(b)), inclusive ->
    (code(a), code(b) + 1), all -> (0, len), into_iter -> table[start..end]; with nested=True the two bounds live in one
    `std::ops::Range<usize>` field and into_iter slices the table by that field"""
    def parts_of(r):
        if r[0] != "agg" or not r[1].startswith("adt:" + range_ty):
            return None
        if not nested:
            return list(r[2]) if len(r[2]) == 2 else None
        if len(r[2]) != 1:
            return None
        inner = P.strip(r[2][0])
        if inner[0] == "agg" and inner[1].endswith("Range::Range") and len(inner[2]) == 2:
            return list(inner[2])
        return None

    def code_of_param(t, k):
        s_ = P.strip(t)
        for _ in range(4):
            if s_[0] == "cast":
                s_ = P.strip(s_[2])
            elif s_[0] == "call" and s_[1] not in F.fns and s_[1].rsplit("::", 1)[-1] in ("into", "from") and len(s_[2]) == 1:
                s_ = P.strip(s_[2][0])
            else:
                break
        if s_[0] == "call" and s_[1] in F.fns and len(s_[2]) == 1 and P.strip(s_[2][0]) == ("param", k):
            return I.resolve_forwarding(F, F.fns[s_[1]]) is code_fn
        return False
    for ctor, plus in (("new", 0), ("inclusive", 1)):
        fn = F.fn(f"{range_ty}::{ctor}")
        ctx.analysed([fn])
        r = P.Prov(fn).local(0)
        parts = parts_of(r)
        if parts is None:
            raise U(rule, f"{ctor} does not build the range by a struct literal", fn)
        e = P.strip(parts[1])
        if plus:
            e_ok = e[0] == "bin" and e[1] == "Add" and P.const_int(e[3]) == 1 and code_of_param(e[2], 2)
        else:
            e_ok = code_of_param(e, 2)
        if code_of_param(parts[0], 1) and e_ok:
            ctx.ok(rule, f"{short}::{ctor}(a, b) = (code(a), code(b){' + 1' if plus else ''}) half-open", sample=True)
        else:
            ctx.violation(rule, f"{fn.path}|fields", f"{short}::{ctor} stores {P.show(r)[:160]}; expected (code(start), code(end){' + 1' if plus else ''})",
                          fn=fn.path, file=fn.file, line=fn.line)
    fn = F.fn(f"{range_ty}::all")
    r = P.Prov(fn).local(0)
    parts = parts_of(r)
    end = P.strip(parts[1]) if parts else None
    end_ok = end is not None and (P.const_int(end) == len(order) or (end[0] in ("call", "un", "len")))
    if parts and P.const_int(parts[0]) == 0 and end_ok:
        ctx.ok(rule, f"{short}::all() = (0, len) half-open")
    else:
        ctx.violation(rule, f"{fn.path}|fields", f"{short}::all stores {P.show(r)[:120]}", fn=fn.path, file=fn.file, line=fn.line)
    ctx.analysed([it, fn])
    slices = [(bi, t) for bi, t in it.calls() if t["callee"].get("name") == "index" and bi in it.cfg.reachable]
    good = False
    if len(slices) == 1 and not any(b_["term"]["k"] == "switch" for i_, b_ in enumerate(it.blocks) if i_ in it.cfg.reachable):
        bi, t = slices[0]
        base = P.strip(pi.operand(t["args"][0]))
        rng = P.strip(pi.operand(t["args"][1]))
        if nested:
            good = base[0] == "named" and base[1] == table_const and rng == ("field", ("param", 1), 0)
        else:
            good = base[0] == "named" and base[1] == table_const and rng[0] == "agg" and rng[1].endswith("Range::Range") and \
                P.strip(rng[2][0]) == ("field", ("param", 1), 0) and P.strip(rng[2][1]) == ("field", ("param", 1), 1)
    if good:
        ctx.ok(rule, f"into_iter: {table_const}[start..end]", sample=True)
    else:
        ctx.violation(rule, f"{it.path}|slice-half-open", "into_iter is not the single slice table[start..end] of the half-open representation",
                      fn=it.path, file=it.file, line=it.line)


def check_card_text(ctx, F):
    rule = "C13.card-text"
    ctx.rule(rule, "Display for Card = rank char then suit char; FromStr accepts exactly len 2 with rank from byte 0 and suit from byte 1")
    d = F.impl_fn("std::fmt::Display", CARD, "fmt")
    ctx.analysed([d])
    try:
        fcs = fmt.format_calls(d)
    except fmt.BadTemplate as e:
        raise U(rule, str(e), d)
    okd = False
    if len(fcs) == 1:
        bi, pieces, vals = fcs[0]

        def which(t):
            s = P.strip(t)
            if s[0] == "call" and s[1] in F.fns:
                g = I.getter_field(F.fns[s[1]])
                return g[0] if g and P.strip(s[2][0]) == ("param", 1) else None
            if s[0] == "field" and P.strip(s[1]) == ("param", 1):
                return s[2]
            return None
        okd = pieces == [("arg", 0, None, None, None), ("arg", 1, None, None, None)] and \
            [v[0] for v in vals] == ["new_display", "new_display"] and [which(v[1]) for v in vals] == [0, 1]
    if not okd:
        # any other way of writing the same two characters (two `write_str(char::from(x).encode_utf8(..))?`, nested Display
        # calls, ..): the text model C06 uses, which must yield exactly [rank of field 0, suit of field 1]
        try:
            from rules import c06
            alts_ = c06.Model(F).expand(CARD, ("deref", ("param", 1)))
            if len(alts_) == 1 and not alts_[0][0] and not alts_[0][2]:
                atoms = alts_[0][1]
                okd = [a[0] for a in atoms] == ["rank", "suit"] and [c06.path_of(a[1]) for a in atoms] == [".0", ".1"]
        except Unrecognised:
            okd = False
    if okd:
        ctx.ok(rule, "Display: \"{}{}\" with (rank, suit), no literal text", sample=True)
    else:
        ctx.violation(rule, f"{d.path}|template", f"Display for Card is not \"{{rank}}{{suit}}\": {fcs}", fn=d.path, file=d.file, line=d.line)
    fs = F.impl_fn("std::str::FromStr", CARD, "from_str")
    ctx.analysed([fs])
    pr = P.Prov(fs)
    oks = []
    for b in sorted(fs.cfg.reachable):
        for s in fs.blocks[b]["stmts"]:
            if s["k"] == "assign" and s["place"]["l"] == 0 and not s["place"]["proj"]:
                t = pr.rvalue(s["rv"])
                if t[0] == "agg" and t[1].endswith("Result::Ok"):
                    oks.append((b, t))
    if len(oks) != 1:
        raise U(rule, f"{len(oks)} Ok returns in Card::from_str", fs)
    ob, ot = oks[0]
    card = P.strip(ot[2][0])
    if card[0] != "agg":
        card = P.strip(P.narrow_deep(card))     # the payload of a freshly built `Some(Card(..))` handed to `ok_or_else`
    good = card[0] == "agg" and card[1] == f"adt:{CARD}::Card"
    if not good and card[0] == "call" and card[1] in F.fns:
        cpr = P.Prov(F.fns[card[1]])
        rr = cpr.local(0)
        if rr[0] == "agg" and rr[1] == f"adt:{CARD}::Card" and [P.strip(x) for x in rr[2]] == [("param", 1), ("param", 2)]:
            card = ("agg", rr[1], card[2])
            good = True
    if good:
        def parsed_from(t, parser_adt, lo, hi):
            s = P.strip(P.narrow_deep(P.strip(t)))      # looks through `.map_err(..)?` on the parser's result
            # (tuple.k as Ok).0 of X::from_str(&v[lo..hi])
            if not (s[0] == "field" and s[1][0] == "variant" and s[1][2] == "Ok"):
                return False
            c = P.strip(s[1][1])
            if not (c[0] == "call" and c[1] == f"<{parser_adt} as std::str::FromStr>::from_str"):
                return False
            sl = P.strip(c[2][0])
            if not (sl[0] == "call" and sl[1].endswith("::index") and P.strip(sl[2][0]) == ("param", 1)):
                return False
            r = P.strip(sl[2][1])
            return r[0] == "agg" and r[1].endswith("Range::Range") and P.const_int(r[2][0]) == lo and P.const_int(r[2][1]) == hi
        def parsed_from_byte(t, parser_adt, k):
            """(X::try_from(char::from(v.as_bytes()[k])) as Ok).0: the same character for an ASCII byte, and a non-ASCII byte
            becomes a Latin-1 char that X's char table (C13.<x>-tables: every other char rejected) refuses"""
            s = P.strip(P.narrow_deep(P.strip(t)))
            if not (s[0] == "field" and s[1][0] == "variant" and s[1][2] == "Ok"):
                return False
            c = P.strip(s[1][1])
            if not (c[0] == "call" and c[1] == f"<{parser_adt} as std::convert::TryFrom<char>>::try_from" and len(c[2]) == 1):
                return False
            ch = P.strip(c[2][0], calls=False)
            if not (ch[0] == "call" and ch[1].endswith("From<u8> for char>::from") and len(ch[2]) == 1):
                return False
            by = P.strip(ch[2][0], calls=False)
            if not (by[0] == "cindex" and by[2] == k):
                return False
            src = P.strip(by[1], calls=False)
            return src[0] == "call" and src[1] == "core::str::<impl str>::as_bytes" and P.strip(src[2][0]) == ("param", 1)
        good = (parsed_from(card[2][0], RANK, 0, 1) and parsed_from(card[2][1], SUIT, 1, 2)) or \
            (parsed_from_byte(card[2][0], RANK, 0) and parsed_from_byte(card[2][1], SUIT, 1))
    # guarded by len == 2
    len_edges = []
    for b, lab, truth, term in I.bool_edges(fs, pr):
        n = I.norm_rel(term, truth)
        if n and n[0] == "Eq":
            x, y = P.strip(n[1]), P.strip(n[2])
            if P.const_int(x) is not None:
                x, y = y, x
            if x[0] == "call" and x[1].rsplit("::", 1)[-1] == "len" and P.strip(x[2][0]) == ("param", 1) and P.const_int(y) == 2:
                len_edges.append((b, lab))
            # `match *v.as_bytes() { [a, b] => .. }`: the length of the byte slice is the length of the text
            if x[0] == "un" and x[1] == "PtrMetadata" and P.const_int(y) == 2:
                x2 = P.strip(x[2], calls=False)
                if x2[0] == "call" and x2[1] == "core::str::<impl str>::as_bytes" and P.strip(x2[2][0]) == ("param", 1):
                    len_edges.append((b, lab))
    good = good and bool(len_edges) and I.guarded_by(fs, ob, len_edges)
    if good:
        ctx.ok(rule, "FromStr: Ok(Card(rank(v[0..1]), suit(v[1..2]))) only under len == 2", sample=True)
    else:
        ctx.violation(rule, f"{fs.path}|shape", "Card::from_str does not return Ok(Card(rank of byte 0, suit of byte 1)) exactly under len == 2",
                      fn=fs.path, file=fs.file, line=fs.line)


def run(ctx):
    ctx.level = "proof"
    ctx.exhaustive = True
    ctx.explanation = ("all encoding tables are finite and fully extracted from the type-checked program: 13+4 codes, next/prev, "
                       "char tables in both directions with an interval partition of the whole char domain, the 52 bit "
                       "encodings and the if-cascade decoder evaluated on each of them, RANKS/SUITS, range constructors and "
                       "slicing arms, the Display template and FromStr shape of Card; each entry is one obligation")
    F = ctx.facts("lib")
    codes = {}
    for adt, order, chars in ((RANK, RANK_ORDER, RANK_CHARS), (SUIT, SUIT_ORDER, SUIT_CHARS)):
        try:
            codes[adt] = check_enum(ctx, F, adt, order, chars)
        except Unrecognised as e:
            ctx.unrecognised(e.rule, e.msg, e.fn, e.line)
    for f in (check_next_prev, check_masks, check_card_text):
        try:
            f(ctx, F)
        except Unrecognised as e:
            ctx.unrecognised(e.rule, e.msg, e.fn, e.line)
    for adt, order, rty, tc in ((RANK, RANK_ORDER, "card::rank_range::RankRange", "card::rank_range::RANKS"),
                                (SUIT, SUIT_ORDER, "card::suit_range::SuitRange", "card::suit_range::SUITS")):
        if adt in codes and codes[adt] is not None:
            try:
                check_ranges(ctx, F, adt, order, rty, tc, codes[adt])
            except Unrecognised as e:
                ctx.unrecognised(e.rule, e.msg, e.fn, e.line)
    for (rty_, rule_, dec_) in getattr(ctx, "c13_all_deps", []):
        dep = f"C13.{rty_.rsplit('::', 1)[-1].lower()}"
        if any(v["rule"] == dep for v in ctx.violations):
            ctx.violation(rule_, f"{dec_.path}|relies-on|{dep}", f"the decoder scans {rty_}::all(), and {dep} (that this is the whole table in code order) does not hold",
                          fn=dec_.path, file=dec_.file, line=dec_.line)
    ctx.derived_card = derived(F, CARD, ["std::cmp::PartialEq", "std::cmp::Eq", "std::cmp::PartialOrd", "std::cmp::Ord", "std::hash::Hash"], ctx, "C13.card-derives")
    ctx.assume("range endpoints with start after end are outside the property's domain ('the contiguous run between its endpoints')")
    ctx.assume("std's slicing, char iteration and formatting behave as documented")
