"""C09 — parsers are total (panic-site discharge).

 1. every `str` slicing site reachable from the parsers is discharged by R-str-guard
 2. R-span-guard: span-shaped tokens are only constructed under the order comparison that makes their
    expansion (`RANKS[start..=end]`, `high.next().unwrap()`) safe
 3. Regex::new(literal).unwrap(): literals inside the analysed regex subset
 4. every remaining potential panic site reachable from parsing, expansion, formatting and decomposition
    is audited (rules/allow_panics.json)"""
from sa import callgraph, idioms as I, panics, prov as P, strguard
from sa.report import Unrecognised
from rules import tokmodel

HR = "hand_range::hand_range::HandRange"
TOKEN = "hand_range::hand_range_token::HandRangeToken"


def entries(F):
    es = []
    for ty in ("card::rank::Rank", "card::suit::Suit", "card::card::Card", "hand_range::card_pair::CardPair", TOKEN, HR):
        es.append(F.impl_fn("std::str::FromStr", ty, "from_str").path)
    es.append(F.impl_fn("std::iter::IntoIterator", TOKEN, "into_iter").path)
    es.append(F.impl_fn("std::fmt::Display", HR, "fmt").path)
    es.append(F.impl_fn("std::fmt::Display", TOKEN, "fmt").path)
    es.append(F.fn(HR + "::rank_pairs").path)
    es.append(F.fn(HR + "::orphan_card_pairs").path)
    return es


RANGE_TYS = {"card::rank_range::RankRange": ("card::rank::Rank", "Ace", "Deuce"),
             "card::suit_range::SuitRange": ("card::suit::Suit", "Spade", "Club")}


def const_variant(t):
    s = P.strip(t)
    if s[0] == "enumc":
        return s[2]
    if s[0] == "agg" and not s[2] and s[1].startswith("adt:"):
        return s[1].rsplit("::", 1)[-1]
    return None


def range_ctor_audit(ctx, F, cg, reach, span_ok):
    """every RankRange/SuitRange built under the parser entry points has start <= end by construction:
    `all()`, a constant lowest start, a constant highest end, or token expansion under R-span-guard."""
    rule = "C09.R-range-ctor"
    ctx.rule(rule, "rank/suit ranges are built with ordered bounds (constant lowest start, constant highest end, all(), or span-guarded expansion)")
    token_iter = f"<{TOKEN} as std::iter::IntoIterator>::into_iter"
    ok_all = True
    n = 0
    for p in sorted(reach):
        fn = F.fns[p]
        pr = None
        for bi, t in fn.calls():
            if bi not in fn.cfg.reachable:
                continue
            cp = I.callee_path(t)
            callee = F.fns.get(cp)
            if callee is None or callee.local_ty(0) not in RANGE_TYS or callee.impl is None or callee.impl.get("trait"):
                continue
            n += 1
            lo, hi = RANGE_TYS[callee.local_ty(0)][1:]
            if callee.arg_count == 0:
                ctx.ok(rule, f"{p}: {cp}()")
                continue
            pr = pr or P.Prov(fn)
            a, b = [pr.operand(x) for x in t["args"][:2]]
            if const_variant(a) == lo or const_variant(b) == hi:
                ctx.ok(rule, f"{p}: {cp.rsplit('::', 1)[-1]}({const_variant(a) or '..'}, {const_variant(b) or '..'})", sample=(n < 4))
            elif p == token_iter or fn.parent == token_iter:
                if span_ok:
                    ctx.ok(rule, f"{p}: span-guarded expansion at line {fn.blocks[bi]['line']}")
                else:
                    ok_all = False
            else:
                ok_all = False
                ctx.violation(rule, f"{p}|{cp.rsplit('::', 1)[-1]}|unordered-bounds",
                              f"{p} builds {cp}({P.show(a)[:50]}, {P.show(b)[:50]}): nothing orders the bounds, the slicing in into_iter "
                              f"can panic", fn=p, file=fn.file, line=fn.blocks[bi]["line"])
    ctx.floor("range constructions under the parser entry points", n, 8)
    return ok_all


def next_in_range(F, cg, site, pr):
    """unwrap(Rank::next(x)) where x iterates RankRange::inclusive(_, END) with END a constant other than the last rank"""
    if site.kind != "unwrap" or site.detail != "call:card::rank::Rank::next":
        return None
    from sa import loops as L
    arg = site.info.get("arg")
    s = P.strip(arg, calls=False)
    if s[0] != "call" or not s[2]:
        return None
    x = P.strip(s[2][0])
    for lp in L.for_loops(site.fn, pr):
        if P.strip(lp.item_term) == x or lp.item_term == x:
            src, chain = lp.chain()
            # source: RankRange::inclusive(a, b) consumed directly
            base = P.strip(src, calls=False)
            cur = lp.iter_term
            t = P.strip(cur, calls=False)
            # walk to the constructor call
            for _ in range(6):
                if t[0] == "call" and t[1].startswith("card::rank_range::RankRange::"):
                    break
                if t[0] == "call" and t[2]:
                    t = P.strip(t[2][0], calls=False)
                elif t[0] == "phi":
                    alts = [a for a in P.alts(t) if a[0] != "self"]
                    t = P.strip(alts[0], calls=False) if len(alts) == 1 else t
                else:
                    break
            if t[0] == "call" and t[1] in ("card::rank_range::RankRange::inclusive", "card::rank_range::RankRange::new") and len(t[2]) == 2:
                end = const_variant(t[2][1])
                names = I.adt_variants(F, "card::rank::Rank")
                if end in names and (names.index(end) < len(names) - 1 or t[1].endswith("::new")):
                    return "R-next-in-range"
    return None


def run(ctx):
    ctx.explanation = ("static panic-freedom argument for the parsers and for everything a parsed value is then handed to: every "
                       "potential panic site (str slicing, asserts, unwraps, indexing, panicking std calls) in the bodies "
                       "reachable from the six FromStr impls, token expansion, range formatting/decomposition is discharged by "
                       "a sound rule evaluated on the current source (ASCII+length guards on the same string by dominance; "
                       "order guards on span tokens; analysable regex literals; contains_key-guarded gets) or matches an "
                       "audited allowance with a stated invariant. Panics inside regex/std (other than documented ones) "
                       "and allocation failure are not decided.")
    F = ctx.facts("lib")
    cg = callgraph.build(F)
    es = entries(F)
    reach = cg.reach(es)
    ctx.analysed(reach)
    ctx.floor("functions reachable from the parser entry points", len(reach), 40)
    span_ok = {"ok": False}
    try:
        TM = tokmodel.get(F)
        span_ok["ok"] = tokmodel.rule_span_guard(ctx, TM, "C09")
    except Unrecognised as e:
        ctx.unrecognised(e.rule, e.msg, e.fn, e.line)

    n_str = {"n": 0, "ok": 0}

    def str_rule(F_, cg_, site, pr):
        if site.kind == "index" and site.info.get("container", "").startswith("str"):
            n_str["n"] += 1
            r = strguard.discharge(F_, cg_, site, pr)
            if r:
                n_str["ok"] += 1
            return r
        if site.kind == "assert-bounds":
            return strguard.discharge_bytes(F_, cg_, site, pr)
        if site.kind == "std-panicking" and site.detail.endswith("<impl str>::split_at"):
            return strguard.discharge(F_, cg_, site, pr)
        return None

    def span_rule(F_, cg_, site, pr):
        if not span_ok["ok"]:
            return None
        return tokmodel.span_discharge(F_, cg_, site, pr)

    ranges_ok = range_ctor_audit(ctx, F, cg, reach, span_ok["ok"])

    def range_rule(F_, cg_, site, pr):
        if ranges_ok and site.kind == "index" and site.fn.impl and site.fn.impl.get("self_ty") in RANGE_TYS \
                and site.fn.path.endswith("::into_iter"):
            return "R-range-ctor"
        return None

    panics.audit(ctx, F, cg, es, "C09", extra_discharge=(str_rule, span_rule, range_rule, next_in_range), reach=reach,
                 configs=("lib", "lib-nooverflow") if ctx.tier == "thorough" else ("lib",))
    ctx.rule("C09.R-str-guard", "str slicing sites discharged by ASCII + length guards on the same string")
    if n_str["ok"]:
        ctx.ok("C09.R-str-guard", {"str_slicing_sites": n_str["n"], "discharged": n_str["ok"]}, n=n_str["ok"], sample=True)
    ctx.extra["str_slicing_sites"] = dict(n_str)
    ctx.floor("str slicing sites under the parser entry points", n_str["n"], 10)   # 50 counted; the floor only guards against vacuity
    # (a parser that reads single bytes through `as_bytes()[i]` keeps about 15 `str` slices: the weight tails and the card pair)
    if ctx.tier == "thorough":
        from sa import xref
        xref.cross_check(ctx, F, ["string_slice", "unwrap_used", "expect_used", "indexing_slicing", "panic"])
        from rules import selftest
        selftest.run(ctx, ["str-guard"])
    # "every value obtained this way can be handed to the evaluator without panicking": a parsed combo of one card twice makes
    # the evaluator's table lookups go out of bounds, so the distinct-cards guards (C10's rule) are part of this property
    try:
        from rules import c10
        from sa.report import PrefixCtx
        c10.rule_distinct(PrefixCtx(ctx, "C10", "C09"), TM)
    except (Unrecognised, NameError) as e:
        if isinstance(e, Unrecognised):
            ctx.unrecognised("C09.distinct-cards", e.msg, e.fn, e.line)
    # .. and a text whose tokens are all rejected parses to an EMPTY range: the evaluator must end the enumeration instead of
    # indexing an empty entry list (C08's emptiness rule, evaluated here as well)
    try:
        from rules import c08, evalmodel
        from sa.report import PrefixCtx
        c08.rule_nonempty(PrefixCtx(ctx, "C08", "C09", allowed=["R-nonempty"]), evalmodel.get(F))
    except Unrecognised as e:
        ctx.unrecognised("C09.R-nonempty", e.msg, e.fn, e.line)
    ctx.assume("regex and std functions outside the panicking-callee table are total; allocation does not fail")
    ctx.assume("tokens handed to expansion were obtained by parsing (HandRangeToken::new with arbitrary fields is outside the property)")
