"""Run-length passes of `<HandRange as Display>::fmt` matched against the run-merging template.

A *row pass* is a `for x in <rank range>` loop with a state variable S: Option<Rank> (the start of the open run),
a lookup cur = rank_pairs.get(&RP(x)) and the start's weight w = rank_pairs.get(&RP(start)).unwrap().  Template:

  T1  with a run open, an absent pair (cur is None) or a different weight (cur's weight != w) closes the run on every
      path: exactly one token is pushed and S is reset to None; nothing else pushes or resets
  T2  with a run open, a present pair of the same weight neither pushes nor resets (runs are maximal)
  T3  afterwards (same iteration) a run is opened, S = Some(x), exactly when no run is open and cur is Some
  T4  after the loop an open run is closed by exactly one token
  T5  the token closing a run [start .. prev] (prev = x.prev() in the loop, the row's last rank after it) is
      Single(RP(prev)) if start == prev, else BottomClosed(RP(prev)) if start is the row's first rank, else
      DoubleClosed(RP(start), prev), always with the start's weight
  T6  pass order: pockets, then per high card suited before offsuit, then leftovers; row domains are the full rows

Each item is a necessary condition of 'every maximal run is written as one token' (C17) and of the range-level
round trip (C06); together with the token semantics (C05) they characterise the passes.  The matcher is a
loop-summary template (like C01's): it accounts for every push and every write of S in the pass."""
from sa import dtree, idioms as I, loops as L, prov as P
from sa.report import Unrecognised

HR = "hand_range::hand_range::HandRange"
RANK = "card::rank::Rank"
RANK_PAIR = "hand_range::rank_pair::RankPair"
KIND = "hand_range::hand_range_token::HandRangeTokenKind"
TOKEN = "hand_range::hand_range_token::HandRangeToken"
OPT_RANK = f"std::option::Option<{RANK}>"
OPT_RANK_W = (f"std::option::Option<({RANK}, &f32)>", f"std::option::Option<({RANK}, f32)>")   # run start + the weight it was opened with


def U(rule, msg, fn=None, line=None):
    return Unrecognised(rule, msg, fn.path if fn else None, line or (fn.line if fn else None))


def const_rank(t):
    s = P.strip(t)
    if s[0] == "enumc" and s[1] == RANK:
        return s[2]
    if s[0] == "agg" and not s[2] and s[1].startswith("adt:" + RANK + "::"):
        return s[1].rsplit("::", 1)[-1]
    return None


opt_edges = I.option_edges


def edge_target(fn, b, lab):
    return [t for l_, t in fn.cfg.succ_edges[b] if l_ == lab][0]


class Pass:
    pass


def find_passes(F, fn, pr):
    """row passes of the Display impl: loops whose body looks a rank pair up by the loop item and that own an
    Option<Rank> state variable"""
    fl = L.for_loops(fn, pr)
    passes = []
    rp_t = None
    for bi, t in fn.calls():
        if I.callee_path(t) == HR + "::rank_pairs":
            rp_t = pr.call_term(t, bi)
    if rp_t is None:
        raise U("runpass", "Display does not consult rank_pairs()", fn)
    gets = []
    for bi, t in fn.calls():
        if bi in fn.cfg.reachable and t["callee"].get("name") == "get" and I.callee_path(t).startswith("std::collections::HashMap") \
                and P.strip(pr.operand(t["args"][0])) == rp_t:
            key = P.strip(pr.operand(t["args"][1]))
            gets.append((bi, key, pr.call_term(t, bi)))
    for lp in fl:
        inner = [l2 for l2 in fl if l2 is not lp and l2.header in lp.body]
        if inner:
            continue      # row passes are innermost loops
        x = P.strip(lp.item_term)
        cur = [(bi, key, ct) for (bi, key, ct) in gets if bi in lp.body and not any(bi in l2.body for l2 in inner)
               and key[0] == "agg" and key[1].startswith("adt:" + RANK_PAIR + "::") and any(P.strip(o) == x for o in key[2])]
        if not cur:
            continue
        if len(cur) != 1:
            raise U("runpass", f"{len(cur)} lookups by the loop item in the pass at line {lp.line}", fn, lp.line)
        ps = Pass()
        ps.loop = lp
        ps.x = x
        ps.cur_block, ps.cur_key, ps.cur_term = cur[0]
        ps.variant = ps.cur_key[1].rsplit("::", 1)[-1]
        ps.x_pos = [i for i, o in enumerate(ps.cur_key[2]) if P.strip(o) == x][0]
        ps.fixed_ops = [P.strip(o) for i, o in enumerate(ps.cur_key[2]) if i != ps.x_pos]
        # state variable: Option<Rank> local with a def Some(x) in the loop
        S = None
        carried = False

        def opens_with(tt, x=x, ps=ps):
            """Some(x), or Some((x, w)) with w the weight just looked up for the current item's rank pair"""
            if not (tt[0] == "agg" and tt[1].endswith("Option::Some") and len(tt[2]) == 1):
                return None
            pl_ = P.strip(tt[2][0])
            if pl_ == x:
                return "rank"
            if pl_[0] == "agg" and pl_[1] == "tuple" and len(pl_[2]) == 2 and P.strip(pl_[2][0]) == x and is_weight_of_cur(ps, pl_[2][1]):
                return "rank+weight"
            return None
        ps.opens_with = opens_with
        for l, ds in pr.defs.items():
            if fn.local_ty(l) not in (OPT_RANK,) + OPT_RANK_W or len(ds) < 2 or fn.local_name(l) is None:
                continue
            for (db, si, k, payload) in ds:
                if k == "rv" and db in lp.body:
                    tt = pr.rvalue(payload)
                    ow = opens_with(tt)
                    if ow and (ow == "rank+weight") == (fn.local_ty(l) in OPT_RANK_W):
                        S = l
                        carried = ow == "rank+weight"
                    if tt[0] == "call" and tt[1] == "std::option::Option::<T>::map" and len(tt[2]) == 2 and \
                            P.strip(tt[2][0], calls=False) == ps.cur_term and _closure_returns_capture(F, tt[2][1]) == x:
                        S = l
            # `S = move tmp` where tmp = Some(x)
        if S is None:
            for l, ds in pr.defs.items():
                if fn.local_ty(l) in (OPT_RANK,) + OPT_RANK_W and len(ds) >= 2 and fn.local_name(l) is not None:
                    for a in P.alts(pr.local(l)):
                        ow = opens_with(a)
                        if ow and (ow == "rank+weight") == (fn.local_ty(l) in OPT_RANK_W):
                            S = l
                            carried = ow == "rank+weight"
        if S is None:
            raise U("runpass", f"no run-start state variable (Option<Rank> set to Some(item)) in the pass at line {lp.line}", fn, lp.line)
        ps.S = S
        ps.S_term = pr.local(S)
        ps.start = ("field", ("variant", ps.S_term, "Some"), 0)
        ps.carried = carried
        ps.wstart_carried = None
        if carried:
            # the state is Some((start rank, weight of the start's rank pair as looked up when the run was opened)); the map
            # is not written during the pass, so the carried weight IS rank_pairs[RP(start)]
            ps.wstart_carried = ("field", ps.start, 1)
            ps.start = ("field", ps.start, 0)
        # the start's weight: unwrap(get(rank_pairs, RP(start)))
        ps.wstart_gets = []
        for (bi, key, ct) in gets:
            if key[0] == "agg" and key[1] == ps.cur_key[1] and len(key[2]) == len(ps.cur_key[2]):
                ops = [P.strip(o) for o in key[2]]
                if ops[ps.x_pos] == ps.start and [o for i, o in enumerate(ops) if i != ps.x_pos] == ps.fixed_ops:
                    ps.wstart_gets.append((bi, ct))
        passes.append(ps)
    return passes, rp_t


def is_weight_of_start(ps, t):
    s = P.strip(t, calls=False)
    if getattr(ps, "wstart_carried", None) is not None and (s == ps.wstart_carried or P.strip(t) == ps.wstart_carried):
        return True
    if s[0] == "call" and s[1].rsplit("::", 1)[-1] in ("unwrap", "expect") and s[2]:
        g = P.strip(s[2][0], calls=False)
        return any(g == ct for (_b, ct) in ps.wstart_gets)
    return False


unopt = I.unopt


def is_weight_of_cur(ps, t):
    s = P.strip(t, calls=False)
    if s[0] == "call" and s[1].rsplit("::", 1)[-1] in ("unwrap_or", "unwrap", "unwrap_or_default", "expect") and s[2]:
        return unopt(s[2][0]) == ps.cur_term
    if s[0] == "field" and s[1][0] == "variant" and s[1][2] == "Some":
        return unopt(s[1][1]) == ps.cur_term
    return False


def _closure_returns_capture(F, clo):
    """the captured term a closure returns whatever its argument is (`|_| x`), else None"""
    c = P.strip(clo, calls=False)
    if not (c[0] == "agg" and c[1].startswith("closure:")):
        return None
    cf = F.fns.get(c[1][len("closure:"):])
    if cf is None or cf.cfg.has_loops() or any(b["term"]["k"] in ("call", "switch") for i, b in enumerate(cf.blocks) if i in cf.cfg.reachable):
        return None
    r = P.strip(P.Prov(cf).local(0))
    if r[0] == "field" and P.strip(r[1]) == ("param", 1) and r[2] < len(c[2]):
        return P.strip(c[2][r[2]])
    return None


def token_of_push(F, fn, pr, bi):
    """(kind, pair variant, pair ops, extra rank, weight term) of a tokens.push(HandRangeToken::new(..)) call"""
    t = fn.blocks[bi]["term"]
    v = P.strip(pr.operand(t["args"][1]), calls=False)
    if v[0] == "call" and v[1] == TOKEN + "::new":
        kind_t, w = v[2]
    elif v[0] == "agg" and v[1].startswith("adt:" + TOKEN):
        kind_t, w = v[2]
    else:
        return None
    if not (kind_t[0] == "agg" and kind_t[1].startswith("adt:" + KIND + "::")):
        return None
    kind = kind_t[1].rsplit("::", 1)[-1]
    ops = list(kind_t[2])
    if not ops or not (ops[0][0] == "agg" and ops[0][1].startswith("adt:" + RANK_PAIR + "::")):
        return (kind, None, [], None, w)
    pv = ops[0][1].rsplit("::", 1)[-1]
    return (kind, pv, [P.strip(o) for o in ops[0][2]], P.strip(ops[1]) if len(ops) > 1 else None, w)


def check_pass(ctx, F, fn, pr, ps, rule, tokens_local_pred):
    lp = ps.loop
    cfg = fn.cfg
    tag = f"{ps.variant} pass (line {lp.line})"
    problems = []
    header = lp.header
    tails = [t for (t, h) in cfg.back_edges() if h == header]
    inner_blocks = lp.body

    def is_S(t):
        return P.strip(t) == ps.S_term or t == ps.S_term

    def is_cur(t):
        return unopt(t) == ps.cur_term

    s_edges = [(b, l, st) for (b, l, st) in opt_edges(fn, pr, is_S)]
    c_edges = [(b, l, st) for (b, l, st) in opt_edges(fn, pr, is_cur)]
    S_some = [(b, l) for (b, l, st) in s_edges if st == "some" and b in inner_blocks]
    S_none = [(b, l) for (b, l, st) in s_edges if st == "none" and b in inner_blocks]
    C_none = [(b, l) for (b, l, st) in c_edges if st == "none" and b in inner_blocks]
    C_some = [(b, l) for (b, l, st) in c_edges if st == "some" and b in inner_blocks]
    # weight comparison edges
    W_ne, W_eq = [], []
    for (b, lab, op, x, y) in I.rel_edges(fn, pr, F):
        if b not in inner_blocks:
            continue
        a_cur, a_start = is_weight_of_cur(ps, x), is_weight_of_start(ps, x)
        b_cur, b_start = is_weight_of_cur(ps, y), is_weight_of_start(ps, y)
        if (a_cur and b_start) or (a_start and b_cur):
            if op == "Ne":
                W_ne.append((b, lab))
            elif op == "Eq":
                W_eq.append((b, lab))
            else:
                problems.append(f"weights of neighbouring rank pairs are compared with {op}, not with == / !=")
            continue
        # `cur != Some(weight of start)` on the Options themselves: absent OR different weight in one test
        for (u, v) in ((x, y), (y, x)):
            vs = P.strip(v, calls=False)
            if is_cur(u) and vs[0] == "agg" and vs[1] == "adt:std::option::Option::Some" and len(vs[2]) == 1 and \
                    (is_weight_of_start(ps, vs[2][0]) or is_weight_of_start(ps, P.strip(vs[2][0], calls=False))):
                if op == "Ne":
                    W_ne.append((b, lab))
                    C_none.append((b, lab))
                elif op == "Eq":
                    W_eq.append((b, lab))
                    C_some.append((b, lab))
                else:
                    problems.append(f"weights of neighbouring rank pairs are compared with {op}, not with == / !=")
    if not ps.wstart_gets and not ps.carried:
        problems.append("the open run's weight is not looked up from the run's start rank pair")
    # pushes / resets / opens inside the loop (not in nested loops)
    pushes, resets, opens, other_S, opens_map = [], [], [], [], []
    for bi, t in fn.calls():
        if bi in inner_blocks and bi in cfg.reachable and t["callee"].get("name") == "push" and tokens_local_pred(fn, t):
            pushes.append(bi)
    def leaf_defs(l, depth=0):
        """definitions of local l inside the loop, looking through temporaries that are only moved into it"""
        out = []
        for (db, si, k, payload) in pr.defs.get(l, []):
            if db not in inner_blocks:
                continue
            if k == "rv" and "use" in payload and depth < 3:
                p2 = payload["use"].get("move") or payload["use"].get("copy")
                if p2 is not None and not p2["proj"] and fn.local_name(p2["l"]) is None and \
                        all(d_[0] in inner_blocks for d_ in pr.defs.get(p2["l"], [])) and len(pr.defs.get(p2["l"], [])) >= 2:
                    out.extend(leaf_defs(p2["l"], depth + 1))
                    continue
            out.append((db, k, payload))
        return out
    for (db, k, payload) in leaf_defs(ps.S):
        tt = pr.rvalue(payload) if k == "rv" else None
        alts = P.alts(tt) if tt else []
        if tt and tt[0] == "agg" and tt[1].endswith("Option::None"):
            if S_none and I.guarded_by(fn, db, S_none, start=header):
                continue        # `start = None` while no run is open: a no-op (the None arm of `cur.map(..)`)
            resets.append(db)
        elif tt and ps.opens_with(tt) == ("rank+weight" if ps.carried else "rank"):
            opens.append(db)
        elif tt and tt[0] == "call" and tt[1] == "std::option::Option::<T>::map" and len(tt[2]) == 2 and is_cur(tt[2][0]) and \
                _closure_returns_capture(F, tt[2][1]) == ps.x:
            # start = cur.map(|_| x): Some(x) exactly when the pair is present, None otherwise
            opens_map.append(db)
        else:
            other_S.append(db)
    if other_S:
        problems.append("the run-start variable receives something other than None / Some(current rank)")
    for l_any in [lp] + [l2 for l2 in L.for_loops(fn, pr) if lp.header in l2.body and l2 is not lp]:
        ee = early_exits(fn, l_any)
        if ee:
            problems.append(f"the pass can leave its loop early (line {fn.blocks[ee[0][0]]['line']}): later rank pairs of the row are never written")
    # ---- T1: closing ------------------------------------------------------------------------------
    close_edges = [e for e in C_none if I.guarded_by(fn, e[0], S_some, start=header)] + \
                  [e for e in W_ne if I.guarded_by(fn, e[0], S_some, start=header)]
    abs_edges = [e for e in C_none if I.guarded_by(fn, e[0], S_some, start=header)]
    wne_edges = [e for e in W_ne if I.guarded_by(fn, e[0], S_some, start=header)]
    if not abs_edges:
        problems.append("with a run open, an ABSENT next rank pair is not tested (is_none): the run would swallow absent pairs "
                        "(the token covers combos that are not in the range)")
    if not wne_edges:
        problems.append("with a run open, a next rank pair of a DIFFERENT weight is not tested (!=): runs of different weights would merge")
    for bi in pushes:
        if not I.guarded_by(fn, bi, S_some, start=header):
            problems.append(f"a token is pushed (line {fn.blocks[bi]['line']}) although no run is open")
        if close_edges and not I.guarded_by(fn, bi, close_edges, start=header):
            problems.append(f"a token is pushed (line {fn.blocks[bi]['line']}) without the run being closed by an absent pair or a weight change")
    for bi in resets:
        if close_edges and not I.guarded_by(fn, bi, close_edges, start=header):
            problems.append("the open run is dropped (start = None) without an absent pair or a weight change")
    for (b, l) in close_edges:
        tgt = edge_target(fn, b, l)
        r1 = I.reachable_avoiding(fn, [], start=tgt, removed_blocks=pushes)
        if any(t in r1 for t in tails):
            problems.append("a closing condition (absent pair / weight change) can reach the next iteration without a token being pushed")
        r2 = I.reachable_avoiding(fn, [], start=tgt, removed_blocks=resets)
        if any(t in r2 for t in tails):
            problems.append("a closing condition can reach the next iteration without the run being reset (start = None)")
    # at most one push per iteration: no push reaches another push without passing the header
    for bi in pushes:
        nxt = fn.blocks[bi]["term"].get("to")
        if nxt is not None:
            r3 = I.reachable_avoiding(fn, [], start=nxt, removed_blocks=[header])
            if any(p2 in r3 for p2 in pushes):
                problems.append("two tokens can be pushed in one iteration of the pass")
    # ---- T2: continuing ---------------------------------------------------------------------------
    cont_edges = []
    for (b, l) in wne_edges:
        # the opposite edge of the != test
        for lab2, tgt2 in cfg.succ_edges[b]:
            if lab2 != l:
                cont_edges.append((b, lab2, tgt2))
    for (b, l2, tgt2) in cont_edges:
        r = I.reachable_avoiding(fn, [], start=tgt2, removed_blocks=[header])
        if any(pb in r for pb in pushes) or any(rb in r for rb in resets):
            problems.append("a present pair of the same weight can still close the run: runs are not maximal")
    # ---- T3: opening ------------------------------------------------------------------------------
    if len(opens) + len(opens_map) < 1:
        problems.append("no run is ever opened (start = Some(current rank))")
    for ob in opens_map:
        if not I.guarded_by(fn, ob, S_none, start=header):
            problems.append("a run is opened although one is already open (its start is overwritten)")
    for ob in opens:
        if not I.guarded_by(fn, ob, S_none, start=header):
            problems.append("a run is opened although one is already open (its start is overwritten)")
        if not I.guarded_by(fn, ob, C_some, start=header):
            problems.append("a run is opened at an ABSENT rank pair")
    # completeness: from (S none ∧ cur some) the latch is reached only through an open
    open_tests = [(b, l) for (b, l) in C_some if I.guarded_by(fn, b, S_none, start=header)]
    if opens_map and not opens:
        # every `no run open` outcome leads to the presence-conditional open
        open_tests = []
        s_tests = {b for (b, l, st) in s_edges if b in inner_blocks}
        for (b, l) in S_none:
            tgt = edge_target(fn, b, l)
            if I.reachable_avoiding(fn, [], start=tgt, removed_blocks=[header]) & (s_tests - {b}):
                continue    # another test of the state follows: that one decides
            r = I.reachable_avoiding(fn, [], start=tgt, removed_blocks=opens_map)
            if any(t in r for t in tails):
                problems.append("a present pair with no run open does not always open a run")
    elif not open_tests:
        problems.append("`no run open and the pair is present` is never tested: runs would not start")
    for (b, l) in open_tests:
        tgt = edge_target(fn, b, l)
        r = I.reachable_avoiding(fn, [], start=tgt, removed_blocks=opens)
        if any(t in r for t in tails):
            problems.append("a present pair with no run open does not always open a run")
    # the open test runs in every iteration (also right after a close)
    ot_blocks = {b for (b, l) in S_none}
    if ot_blocks and not any(L.in_every_iteration(fn, lp, b) for b in ot_blocks):
        problems.append("the `open a run` test is skipped on some paths (e.g. right after closing a run the breaking pair is lost)")
    # ---- T4: after the loop -----------------------------------------------------------------------
    after = [b for b in cfg.reach_from(lp.exit_block) if b not in lp.body]
    a_edges = [(b, l, st) for (b, l, st) in opt_edges(fn, pr, is_S) if b in after]
    # the first test of S after the loop
    a_some = [(b, l) for (b, l, st) in a_edges if st == "some"]
    first_tests = [(b, l) for (b, l) in a_some if not any(b != b2 and cfg.dominates(b2, b) and b2 not in lp.body for (b2, _l2) in a_some)]
    after_pushes = []
    if not first_tests:
        problems.append("after the pass an open run is never closed (its last token is missing)")
    else:
        b0, l0 = first_tests[0]
        tgt = edge_target(fn, b0, l0)
        others = [t for l_, t in cfg.succ_edges[b0] if l_ != l0]
        join = None
        if others:
            back = set(cfg.back_edges())

            def fwd(start_b):
                seen_f, st_f = {start_b}, [start_b]
                while st_f:
                    z = st_f.pop()
                    for nx in cfg.succs[z]:
                        if (z, nx) in back or nx in seen_f:
                            continue
                        seen_f.add(nx)
                        st_f.append(nx)
                return seen_f
            other_reach = fwd(others[0])
            # the merge block of the `if let Some(start) = S {..}`: first block on the Some arm (breadth first) that the
            # other arm reaches too
            q, seen_q = [tgt], {tgt}
            while q and join is None:
                cur_b = q.pop(0)
                if cur_b in other_reach and fn.blocks[cur_b]["term"]["k"] != "unreachable":
                    join = cur_b
                    break
                for nx in cfg.succs[cur_b]:
                    if nx not in seen_q:
                        seen_q.add(nx)
                        q.append(nx)
            if join is None:
                join = others[0]
        region = I.reachable_avoiding(fn, [], start=tgt, removed_blocks=[join] if join is not None else [])
        for bi, t in fn.calls():
            if bi in region and t["callee"].get("name") == "push" and tokens_local_pred(fn, t):
                after_pushes.append(bi)
        if join is not None:
            r = I.reachable_avoiding(fn, [], start=tgt, removed_blocks=after_pushes)
            if join in r:
                problems.append("after the pass an open run can be left without its closing token")
        for bi in after_pushes:
            nxt = fn.blocks[bi]["term"].get("to")
            r3 = I.reachable_avoiding(fn, [], start=nxt, removed_blocks=[join] if join is not None else [])
            if any(p2 in r3 for p2 in after_pushes):
                problems.append("two tokens can close the last run")
    # ---- T5: token shapes -------------------------------------------------------------------------
    first = ps.first_term
    for region_name, region_pushes, prev_pred in (("in-loop", pushes, "prev"), ("after-loop", after_pushes, "last")):
        for bi in region_pushes:
            def is_prev(t):
                s = P.strip(t, calls=False)
                if prev_pred == "prev":
                    return s[0] == "call" and s[1].rsplit("::", 1)[-1] in ("unwrap", "expect") and s[2] and \
                        P.strip(s[2][0], calls=False)[0] == "call" and P.strip(s[2][0], calls=False)[1] == RANK + "::prev" and \
                        P.strip(P.strip(s[2][0], calls=False)[2][0]) == ps.x
                return const_rank(s) == ps.last_rank

            def is_start(t):
                return P.strip(t) == ps.start

            # decision table: booleans a = (start == first), b = (start == end), c = (end == first); checked per path
            def cls(t, raw):
                if is_start(t):
                    return "start"
                if is_prev(raw) or is_prev(t):
                    return "prev"
                if first is not None and (t == first or (const_rank(t) is not None and const_rank(t) == const_rank(first))):
                    return "first"
                return None
            edge_fact = {}
            for (b_, lab_, op_, x_, y_) in I.rel_edges(fn, pr, F):
                if op_ not in ("Eq", "Ne"):
                    continue
                cx, cy = cls(P.strip(x_), x_), cls(P.strip(y_), y_)
                name = {frozenset(["start", "first"]): "a", frozenset(["start", "prev"]): "b",
                        frozenset(["prev", "first"]): "c"}.get(frozenset([cx, cy]))
                if name:
                    edge_fact.setdefault((b_, lab_), []).append((name, op_ == "Eq"))
            base_facts = {}
            if prev_pred == "last" and first is not None and const_rank(first) is not None:
                base_facts["c"] = (const_rank(first) == ps.last_rank)
            # enumerate acyclic paths from the region entry to the push
            entry = header if prev_pred == "prev" else first_tests[0][0]
            allowed = inner_blocks if prev_pred == "prev" else set(cfg.reach_from(entry))
            target_reach = cfg.reaches(bi)
            path_sets = []
            stack = [(entry, dict(base_facts), (entry,))]
            while stack and len(path_sets) < 4000:
                blk, fc, seq = stack.pop()
                if blk == bi:
                    path_sets.append((fc, seq))
                    continue
                for lab_, tgt_ in cfg.succ_edges[blk]:
                    if tgt_ in seq or tgt_ not in allowed or tgt_ not in target_reach:
                        continue
                    if prev_pred == "prev" and tgt_ == header:
                        continue
                    fc2 = dict(fc)
                    contradiction = False
                    for (nm_, val_) in edge_fact.get((blk, lab_), []):
                        if nm_ in fc2 and fc2[nm_] != val_:
                            contradiction = True
                        fc2[nm_] = val_
                    if not contradiction:
                        stack.append((tgt_, fc2, seq + (tgt_,)))
            # the token pushed on each path: the flow-insensitive view when it is a single constructor call, else (one
            # push fed by a kind chosen earlier, e.g. through a helper) the path-sensitive view
            tk_all = token_of_push(F, fn, pr, bi)
            groups = {}
            undecoded = False
            for (fc, seq) in path_sets:
                tk = tk_all
                if tk is None:
                    class _Pth:
                        blocks = list(seq)
                    tk = token_of_push(F, fn, dtree.PathProv(fn, _Pth), bi)
                if tk is None:
                    undecoded = True
                    continue
                key = repr(tk)
                groups.setdefault(key, (tk, []))[1].append(fc)
            if undecoded or not groups:
                problems.append(f"{region_name}: a pushed value is not HandRangeToken::new(kind, weight)")
                continue
            for tk, facts_list in groups.values():
                kind, pv, ops, extra, w = tk
                if pv != ps.variant:
                    problems.append(f"{region_name}: a {pv} token is pushed by the {ps.variant} pass")
                    continue
                if not is_weight_of_start(ps, P.strip(w, calls=False)) and not is_weight_of_start(ps, w):
                    problems.append(f"{region_name}: the token's weight is not the weight of the run's start")
                # payload
                rank_op = ops[ps.x_pos] if ps.x_pos < len(ops) else None
                fixed = [o for i, o in enumerate(ops) if i != ps.x_pos]
                if fixed != ps.fixed_ops:
                    problems.append(f"{region_name}: the {kind} token is built for another high card than the pass's")
                if kind == "SingleRankPair":
                    if not (is_prev(rank_op) or is_start(rank_op)):
                        problems.append(f"{region_name}: the single token does not name the run's only rank pair")
                elif kind == "BottomClosedRankPairRange":
                    if not is_prev(rank_op):
                        problems.append(f"{region_name}: the `+` token does not end at the run's last rank pair")
                elif kind == "DoubleClosedRankPairRange":
                    if not (is_start(rank_op) and extra is not None and is_prev(extra)):
                        problems.append(f"{region_name}: the span token is not (run start .. run end)")
                else:
                    problems.append(f"{region_name}: unexpected token kind {kind}")
                    continue
                ok_all = True
                for facts in facts_list:
                    for a in (False, True):
                        for b2 in (False, True):
                            for c in (False, True):
                                if (a and b2 and not c) or (a and c and not b2) or (b2 and c and not a):
                                    continue
                                if any(facts.get(n) is not None and facts[n] != v for n, v in (("a", a), ("b", b2), ("c", c))):
                                    continue
                                want = "SingleRankPair" if b2 else ("BottomClosedRankPairRange" if a else "DoubleClosedRankPairRange")
                                if want != kind:
                                    ok_all = False
                if not ok_all:
                    problems.append(f"{region_name}: a {kind} token is pushed under conditions where the run "
                                    f"[start..{'prev' if prev_pred == 'prev' else ps.last_rank}] needs another shape "
                                    f"(single if start == end, `+` if the run starts at the row's first rank, span otherwise)")
    if problems:
        uniq = []
        for p_ in problems:
            if p_ not in uniq:
                uniq.append(p_)
        ctx.violation(rule, f"{fn.path}|{ps.variant}-pass|{uniq[0].split(':')[0].split('(')[0].strip().replace(' ', '-')[:60]}",
                      f"{tag}: " + "; ".join(uniq[:4]), fn=fn.path, file=fn.file, line=lp.line, construct=f"run-length pass over {ps.variant} rank pairs")
        return False
    ctx.ok(rule, {"pass": ps.variant, "line": lp.line, "row_first": P.show(first)[:40] if first else None, "row_last": ps.last_rank,
                  "pushes_in_loop": len(pushes), "pushes_after": len(after_pushes)}, sample=True)
    return True


def run_rules(ctx, F, prefix):
    rule = prefix + ".run-merging"
    ctx.rule(rule, "each run-length pass closes a run exactly on an absent pair or a weight change, continues otherwise, opens runs at present pairs, closes the last run, and picks single / `+` / span by the run's ends")
    fn = F.impl_fn("std::fmt::Display", HR, "fmt")
    pr = P.Prov(fn)
    passes, rp_t = find_passes(F, fn, pr)
    if len(passes) != 3 or sorted(p.variant for p in passes) != ["Ofsuit", "Pocket", "Suited"]:
        raise U(rule, f"expected a pocket, a suited and an offsuit pass, found {[p.variant for p in passes]}", fn)
    # the tokens vector: the Vec<HandRangeToken> local
    def tokens_local(fn_, t):
        a0 = t["args"][0]
        pl = a0.get("move") or a0.get("copy")
        return pl is not None and f"std::vec::Vec<{TOKEN}>" in fn_.local_ty(pl["l"])
    rule_d = prefix + ".row-domains"
    ctx.rule(rule_d, "pockets walk all ranks; suited/offsuit rows walk high in Ace..=Trey and kickers next(high)..=Deuce; pass order pockets, suited, offsuit, leftovers")
    ok_dom = True
    for ps in passes:
        lp = ps.loop
        src, chain = lp.chain()
        base = P.strip(lp.iter_term, calls=False)
        for _ in range(6):
            if base[0] == "call" and base[1].startswith("card::rank_range::RankRange::"):
                break
            if base[0] == "call" and base[2]:
                base = P.strip(base[2][0], calls=False)
            elif base[0] == "phi":
                alts = [a for a in P.alts(base) if a[0] != "self"]
                base = P.strip(alts[0], calls=False) if len(alts) == 1 else base
            else:
                break
        ps.first_term, ps.last_rank = None, None
        if base[0] == "call" and base[1].endswith("RankRange::all"):
            ps.first_term, ps.last_rank = ("enumc", RANK, "Ace"), "Deuce"
        elif base[0] == "call" and base[1].endswith("RankRange::inclusive"):
            ps.first_term = P.strip(base[2][0])
            ps.last_rank = const_rank(base[2][1])
        if ps.first_term is None or ps.last_rank != "Deuce":
            ok_dom = False
            ctx.violation(rule_d, f"{fn.path}|{ps.variant}-row-domain", f"the {ps.variant} pass does not walk its row down to the deuce: {P.show(base)[:80]}",
                          fn=fn.path, file=fn.file, line=lp.line)
            continue
        if ps.variant == "Pocket":
            if const_rank(ps.first_term) != "Ace" or ps.fixed_ops:
                ok_dom = False
                ctx.violation(rule_d, f"{fn.path}|Pocket-row-domain", "the pocket pass does not start at the ace", fn=fn.path, file=fn.file, line=lp.line)
        else:
            # first = unwrap(next(high)), high = item of the enclosing loop over inclusive(Ace, Trey)
            f = P.strip(ps.first_term, calls=False)
            high = ps.fixed_ops[0] if len(ps.fixed_ops) == 1 else None
            okf = f[0] == "call" and f[1].rsplit("::", 1)[-1] in ("unwrap", "expect") and P.strip(f[2][0], calls=False)[0] == "call" and \
                P.strip(f[2][0], calls=False)[1] == RANK + "::next" and P.strip(P.strip(f[2][0], calls=False)[2][0]) == high
            outer = [l2 for l2 in L.for_loops(fn, pr) if lp.header in l2.body and l2 is not lp]
            oko = False
            for o in outer:
                if P.strip(o.item_term) == high:
                    ob = P.strip(o.iter_term, calls=False)
                    for _ in range(6):
                        if ob[0] == "call" and ob[1].startswith("card::rank_range::RankRange::"):
                            break
                        if ob[0] == "call" and ob[2]:
                            ob = P.strip(ob[2][0], calls=False)
                        elif ob[0] == "phi":
                            alts = [a for a in P.alts(ob) if a[0] != "self"]
                            ob = P.strip(alts[0], calls=False) if len(alts) == 1 else ob
                        else:
                            break
                    oko = ob[0] == "call" and ob[1].endswith("RankRange::inclusive") and const_rank(ob[2][0]) == "Ace" and const_rank(ob[2][1]) == "Trey"
            if not (okf and oko and ps.x_pos == 1):
                ok_dom = False
                ctx.violation(rule_d, f"{fn.path}|{ps.variant}-row-domain",
                              f"the {ps.variant} pass is not `for high in Ace..=Trey {{ for kicker in next(high)..=Deuce }}` keyed by {ps.variant}(high, kicker)",
                              fn=fn.path, file=fn.file, line=lp.line)
    # order of passes
    byv = {p.variant: p for p in passes}
    cfgx = fn.cfg
    if set(byv) == {"Pocket", "Suited", "Ofsuit"}:
        po, su, of = byv["Pocket"].loop, byv["Suited"].loop, byv["Ofsuit"].loop
        order_ok = su.header in cfgx.reach_from(po.exit_block) and su.header not in po.body and \
            of.header in cfgx.reach_from(su.exit_block) and of.header not in su.body and su.header not in cfgx.reach_from(of.exit_block) - \
            set().union(*[l2.body for l2 in L.for_loops(fn, pr) if su.header in l2.body and l2 is not su]) if True else False
        # simple dominance formulation
        order_ok = cfgx.dominates(po.exit_block, su.header) and cfgx.dominates(su.exit_block, of.header)
        if not order_ok:
            ok_dom = False
            ctx.violation(rule_d, f"{fn.path}|pass-order", "the passes do not run in the order pockets, suited row, offsuit row", fn=fn.path, file=fn.file, line=fn.line)
    if ok_dom:
        ctx.ok(rule_d, {"pocket": "all()", "suited/offsuit": "high in Ace..=Trey, kicker in next(high)..=Deuce", "order": "pockets, suited, offsuit"}, sample=True)
    for ps in passes:
        if ps.first_term is None:
            continue
        try:
            check_pass(ctx, F, fn, pr, ps, rule, tokens_local)
        except Unrecognised as e:
            ctx.unrecognised(rule, e.msg, e.fn, e.line)
    try:
        check_leftovers(ctx, F, fn, pr, prefix, passes)
    except Unrecognised as e:
        ctx.unrecognised(prefix + ".leftovers-pass", e.msg, e.fn, e.line)
    return passes


def early_exits(fn, lp):
    """edges leaving the loop other than the exhaustion edge of its own `next()` test (and diverging blocks)"""
    out = []
    sw = fn.blocks[lp.next_block]["term"]["to"]
    for b in sorted(lp.body):
        for lab, tgt in fn.cfg.succ_edges[b]:
            if tgt in lp.body:
                continue
            if b == sw and tgt == lp.exit_block:
                continue
            if fn.blocks[tgt]["term"]["k"] == "unreachable":
                continue
            out.append((b, tgt))
    return out


def range_ctor_of(lp):
    base = P.strip(lp.iter_term, calls=False)
    for _ in range(6):
        if base[0] == "call" and (base[1].startswith("card::rank_range::RankRange::") or base[1].startswith("card::suit_range::SuitRange::")):
            return base
        if base[0] == "call" and base[2]:
            base = P.strip(base[2][0], calls=False)
        elif base[0] == "phi":
            alts = [a for a in P.alts(base) if a[0] != "self"]
            if len(alts) != 1:
                return None
            base = P.strip(alts[0], calls=False)
        else:
            return None
    return None


def orphan_shape(F, fn, pr, ret, map_term):
    """problems with `ret` (a term of `fn`) as the leftover map: it must be a clone of the range's map from which exactly the
    combos of every reported rank pair are removed: `for pair in rank_pairs(self) { for cp in pair { ret.remove(&cp) } }` (the
    outer loop may iterate the map itself, its keys() or into_keys()); the removal loops run on every path to a return."""
    RANK_PAIR_ = "hand_range::rank_pair::RankPair"
    problems = []
    if not (ret[0] == "call" and ret[1].rsplit("::", 1)[-1] == "clone" and P.strip(ret[2][0]) == map_term):
        problems.append(f"the result is not a clone of the range's map: {P.show(ret)[:60]}")
        return problems

    def is_ret(t):
        return P.strip(t) == ret or P.strip(t, calls=False) == ret
    rem = [(bi, t) for bi, t in fn.calls() if t["callee"].get("name") == "remove" and bi in fn.cfg.reachable
           and is_ret(pr.operand(t["args"][0]))]
    # anything else that takes the clone mutably would change it behind the rule's back
    fl = L.for_loops(fn, pr)
    if len(rem) != 1:
        problems.append(f"{len(rem)} remove calls on the clone (expected 1)")
        return problems
    bi, t = rem[0]
    inner = [lp for lp in fl if bi in lp.body]
    inner.sort(key=lambda lp: len(lp.body))
    if len(inner) == 1:
        # `for cp in self.rank_pairs().into_keys().flatten()`: the nested loops written as one flattened iterator
        il = ol = inner[0]
        osrc, och = ol.chain()
        so = P.strip(osrc, calls=False)
        if not (so[0] == "call" and so[1] == HR + "::rank_pairs" and P.strip(so[2][0]) == ("param", 1)):
            problems.append("the outer loop does not iterate self.rank_pairs()")
        onames = [c.rsplit("::", 1)[-1] for c in och]
        if any(n not in ("into_iter", "iter", "keys", "into_keys", "flatten", "copied", "cloned") for n in onames):
            problems.append("an adaptor filters the loops")
        if "flatten" not in onames or not ("keys" in onames or "into_keys" in onames):
            problems.append("the inner loop does not iterate the combos of the reported rank pair")
    elif len(inner) != 2:
        problems.append("remove is not inside two nested loops")
        return problems
    else:
        il, ol = inner[0], inner[-1]
        osrc, och = ol.chain()
        so = P.strip(osrc, calls=False)
        if not (so[0] == "call" and so[1] == HR + "::rank_pairs" and P.strip(so[2][0]) == ("param", 1)):
            problems.append("the outer loop does not iterate self.rank_pairs()")
        onames = [c.rsplit("::", 1)[-1] for c in och]
        if any(n not in ("into_iter", "iter", "keys", "into_keys") for n in onames):
            problems.append("an adaptor filters the loops")
        key = P.strip(ol.item_term) if ("keys" in onames or "into_keys" in onames) else ("field", P.strip(ol.item_term), 0)
        isrc, ich = il.chain()
        isrc_s = P.strip(isrc)
        if not (isrc_s == key or isrc_s == ("field", ol.item_term, 0)) or ich != [f"<{RANK_PAIR_} as std::iter::IntoIterator>::into_iter"]:
            problems.append("the inner loop does not iterate the combos of the reported rank pair")
    if P.strip(pr.operand(t["args"][1])) != P.strip(il.item_term):
        problems.append("the removed key is not the current combo")
    if not L.in_every_iteration(fn, il, bi) or not L.in_every_iteration(fn, ol, il.header):
        problems.append("the removal is conditional")
    if early_exits(fn, il) or early_exits(fn, ol):
        problems.append("the removal loops can stop early")
    rets = fn.cfg.return_blocks()
    if not rets or not all(fn.cfg.dominates(ol.header, r) for r in rets):
        problems.append("the removal loops are skipped on some path")
    return problems


def check_leftovers(ctx, F, fn, pr, prefix, passes):
    """the last pass: every combo (unordered pair of cards) is looked up in orphan_card_pairs() and, when present, emitted as a
    card-pair token with its own weight, in fixed table order, after the rank-pair passes."""
    rule = prefix + ".leftovers-pass"
    ctx.rule(rule, "leftover combos: for high in all ranks, kicker in high..=Deuce, both suits in all suits: if orphans.get(&pair) is Some(w) push SingleCardPair(pair) with w")
    CARD = "card::card::Card"
    CARD_PAIR = "hand_range::card_pair::CardPair"
    orph = None
    for bi, t in fn.calls():
        if I.callee_path(t) == HR + "::orphan_card_pairs":
            orph = pr.call_term(t, bi)
    if orph is None:
        # the same computation written out in place (e.g. through a private helper taking the already computed rank pairs)
        map_term = ("field", ("deref", ("param", 1)), 0)
        cands = []
        for bi, t in fn.calls():
            if bi in fn.cfg.reachable and t["callee"].get("name") == "clone":
                ct = pr.call_term(t, bi)
                if P.strip(ct[2][0]) == map_term:
                    cands.append(ct)
        if len(cands) != 1:
            raise U(rule, "Display does not consult orphan_card_pairs()", fn)
        orph = cands[0]
        probs = orphan_shape(F, fn, pr, orph, map_term)
        if probs:
            ctx.violation(rule, f"{fn.path}|leftovers|inline-orphans", "leftover map computed in place: " + "; ".join(probs[:3]),
                          fn=fn.path, file=fn.file, line=fn.line, construct="leftover map of Display for HandRange")
    pushes = []
    for bi, t in fn.calls():
        if bi in fn.cfg.reachable and t["callee"].get("name") == "push":
            tk = token_of_push(F, fn, pr, bi)
            if tk and tk[0] == "SingleCardPair":
                pushes.append(bi)
    if len(pushes) != 1:
        raise U(rule, f"{len(pushes)} pushes of card-pair tokens", fn)
    bi = pushes[0]
    v = P.strip(pr.operand(fn.blocks[bi]["term"]["args"][1]), calls=False)
    kind_t, w = v[2]
    pair = P.strip(kind_t[2][0])
    problems = []
    fl = L.for_loops(fn, pr)
    encl = sorted([lp for lp in fl if bi in lp.body], key=lambda lp: -len(lp.body))
    if not (pair[0] == "call" and pair[1] == CARD_PAIR + "::new" and len(pair[2]) == 2):
        problems.append("the emitted pair is not CardPair::new(card, card)")
    else:
        cards = []
        for c in pair[2]:
            c = P.strip(c)
            if c[0] == "call" and c[1] == CARD + "::new":
                cards.append((P.strip(c[2][0]), P.strip(c[2][1])))
        if len(cards) != 2 or len(encl) != 4:
            problems.append(f"the leftover pass is not four nested loops building two cards ({len(encl)} loops)")
        else:
            items = [P.strip(lp.item_term) for lp in encl]
            ctors = [range_ctor_of(lp) for lp in encl]
            (r1, s1), (r2, s2) = cards
            role = {}
            for nm, tt in (("r1", r1), ("r2", r2), ("s1", s1), ("s2", s2)):
                idx = [i for i, it in enumerate(items) if it == tt]
                if len(idx) != 1:
                    problems.append(f"card component {nm} is not the item of one enclosing loop")
                else:
                    role[nm] = idx[0]
            if len(role) == 4 and len(set(role.values())) == 4:
                def is_all(c):
                    return c is not None and c[1].endswith("::all")
                c_r1, c_r2, c_s1, c_s2 = (ctors[role[k]] for k in ("r1", "r2", "s1", "s2"))
                if not is_all(c_r1):
                    problems.append("the high rank does not range over all ranks")
                ok_r2 = is_all(c_r2) or (c_r2 is not None and c_r2[1].endswith("::inclusive") and P.strip(c_r2[2][0]) == r1 and const_rank(c_r2[2][1]) == "Deuce")
                if not ok_r2:
                    problems.append("the kicker rank does not range over high..=Deuce (some combos are never looked up)")
                if not (is_all(c_s1) and is_all(c_s2)):
                    problems.append("the suits do not range over all four suits")
            elif len(role) == 4:
                problems.append("two card components come from the same loop")
    # guard: discr(get(orphans, &pair)) == Some ; weight = its payload
    def is_lookup(t):
        s_ = P.strip(t, calls=False)
        return s_[0] == "call" and s_[1].rsplit("::", 1)[-1] == "get" and P.strip(s_[2][1]) == pair and \
            (P.strip(s_[2][0]) == orph or P.strip(s_[2][0], calls=False) == orph)
    some_edges = [(b, l) for (b, l, st) in opt_edges(fn, pr, is_lookup) if st == "some"]
    if not some_edges or not I.guarded_by(fn, bi, some_edges):
        problems.append("the card-pair token is pushed without the combo being found among the leftovers")
    ws = P.strip(w, calls=False)
    if not (ws[0] == "field" and ws[1][0] == "variant" and ws[1][2] == "Some" and is_lookup(ws[1][1])):
        problems.append("the token's weight is not the leftover combo's own weight")
    if encl and some_edges:
        inner = encl[-1]
        for (b, l) in some_edges:
            tgt = edge_target(fn, b, l)
            tails = [t for (t, h) in fn.cfg.back_edges() if h == inner.header]
            r = I.reachable_avoiding(fn, [], start=tgt, removed_blocks=[bi])
            if any(t in r for t in tails):
                problems.append("a leftover combo that is present is not always emitted")
    # completeness of the walk: every iteration of a loop runs the next inner loop, every innermost iteration performs the lookup
    # (a `continue` in front of them skips cells of the grid: their leftover combos are never written)
    for outer_, inner_ in zip(encl, encl[1:]):
        if not L.in_every_iteration(fn, outer_, inner_.header):
            problems.append(f"an iteration of the leftover loops can skip the loops inside it (line {fn.blocks[outer_.header]['line']}): the combos of that cell are never looked up")
            break
    if encl:
        lookups_ = [b_ for b_, t_ in fn.calls() if b_ in encl[-1].body and t_["callee"].get("name") == "get" and is_lookup(pr.call_term(t_, b_))]
        if lookups_ and not any(L.in_every_iteration(fn, encl[-1], b_) for b_ in lookups_):
            problems.append("a combo of the innermost leftover loop can be skipped without being looked up")
    for lp in encl:
        if early_exits(fn, lp):
            problems.append(f"the leftover loops can stop early (line {fn.blocks[early_exits(fn, lp)[0][0]]['line']}): later leftover combos are dropped")
            break
    # after the rank-pair passes
    for ps in passes:
        if encl and not (encl[0].header in fn.cfg.reach_from(ps.loop.exit_block) and ps.loop.header not in fn.cfg.reach_from(encl[0].exit_block)):
            problems.append("the leftover pass does not come after the rank-pair passes")
            break
    if problems:
        ctx.violation(rule, f"{fn.path}|leftovers|{problems[0].split('(')[0].strip().replace(' ', '-')[:50]}", "; ".join(problems[:4]),
                      fn=fn.path, file=fn.file, line=fn.blocks[bi]["line"], construct="leftover pass of Display for HandRange")
    else:
        ctx.ok(rule, {"loops": "high: all, kicker: high..=Deuce, suits: all x all", "emit": "SingleCardPair(pair) with orphans[pair]"}, sample=True)
