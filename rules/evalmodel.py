"""Shared discovery of the flop evaluator's parts from its public API (no private names)."""
from sa import callgraph, idioms as I, loops as L, prov as P
from sa.report import Unrecognised

EVAL = "evaluator::flop_exhaustive::FlopExhaustiveEvaluator"
SHOWDOWN = "evaluator::showdown::Showdown"
CARD = "card::card::Card"
CARD_PAIR = "hand_range::card_pair::CardPair"
HAND_RANGE = "hand_range::hand_range::HandRange"
ENTRY_VEC = f"std::vec::Vec<({CARD_PAIR}, f32)>"


def U(rule, msg, fn=None):
    return Unrecognised(rule, msg, fn.path if fn else None, fn.line if fn else None)


class EvalModel:
    def __init__(self, F):
        self.F = F
        self.cg = callgraph.build(F)
        self.new = F.fn(EVAL + "::new")
        self.scope = F.fn(EVAL + "::scope")
        self.into_iter = F.impl_fn("std::iter::IntoIterator", EVAL, "into_iter")
        self.iter_ty = self.into_iter.local_ty(0)
        self.next = F.impl_fn("std::iter::Iterator", self.iter_ty, "next")
        self.entries = [self.new.path, self.scope.path, self.into_iter.path, self.next.path]
        self.reach = self.cg.reach(self.entries)
        self.iter_adt = F.adts.get(self.iter_ty)
        self.eval_adt = F.adts.get(EVAL)
        if self.iter_adt is None or self.eval_adt is None:
            raise U("evalmodel", "evaluator / iterator ADT not found")
        # the deal function: reachable from next, calls Showdown::new
        deal = []
        for p in sorted(self.cg.reach([self.next.path])):
            fn = F.fns[p]
            if any(I.callee_path(t) == SHOWDOWN + "::new" for _, t in fn.calls()):
                deal.append(fn)
        if len(deal) != 1:
            raise U("evalmodel", f"expected one function calling Showdown::new under next(), found {[d.path for d in deal]}")
        self.deal = deal[0]
        # the iterator constructor: called by into_iter, returns the iterator type
        ctor = [F.fns[p] for p in self.cg.edges[self.into_iter.path]
                if F.fns[p].local_ty(0) == self.iter_ty]
        self.ctor = ctor[0] if len(ctor) == 1 else self.into_iter
        # .. looking through forwarders (`into_iter(self)` -> `(&self).into_iter()` -> `self.iter()` -> `Iterator::new(self)`):
        # the constructor is the body that builds the struct literal
        for _ in range(4):
            nxt = I.forwarding_target(F, self.ctor)
            if nxt is None or nxt.local_ty(0) != self.iter_ty:
                break
            self.ctor = nxt
        self._fields()

    # ------------------------------------------------------------------------------
    def iter_field_names(self):
        return [f["name"] for f in self.iter_adt["variants"][0]["fields"]]

    def iter_field_tys(self):
        return [f["ty"] for f in self.iter_adt["variants"][0]["fields"]]

    def _fields(self):
        tys = self.iter_field_tys()

        def one(pred, what):
            c = [i for i, t in enumerate(tys) if pred(t)]
            if len(c) != 1:
                raise U("evalmodel", f"iterator field for {what} not unique: {c}")
            return c[0]
        self.f_deck = one(lambda t: t.startswith(f"[{CARD}; "), "deck")
        self.deck_len = int(tys[self.f_deck].split(";")[1].strip(" ]"))
        self.f_board = one(lambda t: t.startswith(f"[std::option::Option<{CARD}>; "), "board")
        self._used_pred = lambda t: t.startswith(f"std::collections::HashSet<{CARD}")
        self.f_entries = one(lambda t: t.startswith(f"std::vec::Vec<std::vec::Vec<({CARD_PAIR}, f32"), "entry lists")
        self.entry_vec_ty = self.iter_field_tys()[self.f_entries][len("std::vec::Vec<"):-1]
        self.f_counters = one(lambda t: t.startswith("std::vec::Vec<u") or t.startswith("std::vec::Vec<i"), "odometer counters")
        self.counter_ty = tys[self.f_counters][len("std::vec::Vec<"):-1]

    @property
    def f_used(self):
        c = [i for i, t in enumerate(self.iter_field_tys()) if self._used_pred(t)]
        if len(c) != 1:
            raise U("evalmodel", f"the iterator has no single HashSet<Card> of used cards ({len(c)} candidates): blocking is done some other way")
        return c[0]

    def self_field(self, i):
        return ("field", ("deref", ("param", 1)), i)

    def is_self_field(self, t, i):
        s = P.strip(t)
        return s == self.self_field(i)

    # turn/river plumbing (scope param k -> evaluator field -> iterator field) --------------
    def plumbing(self):
        """returns dict role -> (evaluator field index, iterator field index) for roles
        turn_from, river_from, turn_to, river_to, derived from scope()'s parameter order."""
        roles = ["turn_from", "river_from", "turn_to", "river_to"]
        pr = P.Prov(self.scope)
        ev = {}
        for l, sts in pr.stores.items():
            for (bi, si, pl, rv) in sts:
                if pl["l"] == 1 and pl["proj"] and pl["proj"][0] == "deref" and len(pl["proj"]) == 2 \
                        and "f" in pl["proj"][1]:
                    if "callterm" in rv:
                        continue
                    t = pr.rvalue(rv)
                    ev.setdefault(pl["proj"][1]["f"], []).append((t, bi))
        param_to_field = {}
        for f, lst in ev.items():
            for (t, bi) in lst:
                s = P.strip(t)
                if s[0] == "param" and 2 <= s[1] <= 5:
                    param_to_field.setdefault(s[1], []).append((f, bi))
        res = {}
        for k, role in enumerate(roles):
            c = param_to_field.get(k + 2, [])
            if len(c) != 1:
                raise U("C04.plumbing", f"scope() parameter {k + 1} ({role}) is stored into {len(c)} fields", self.scope)
            res[role] = [c[0][0], None, c[0][1]]
        # iterator constructor: iterator field j initialised from evaluator field i
        cp = P.Prov(self.ctor)
        t = cp.local(0)
        if not (t[0] == "agg" and t[1].startswith("adt:" + self.iter_ty)):
            raise U("C04.plumbing", f"iterator constructor does not build the iterator by a struct literal: {P.show(t)[:80]}", self.ctor)
        ops = t[2]
        for role in roles:
            evf = res[role][0]
            js = []
            for j, o in enumerate(ops):
                s = P.strip(o)
                if s[0] == "field" and s[2] == evf and P.strip(s[1])[0] == "param":
                    js.append(j)
            if len(js) != 1:
                raise U("C04.plumbing", f"evaluator field {evf} ({role}) initialises {len(js)} iterator fields", self.ctor)
            res[role][1] = js[0]
        return res


_cache = {}


def get(F):
    if id(F) not in _cache:
        _cache[id(F)] = EvalModel(F)
    return _cache[id(F)]
