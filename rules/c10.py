"""C10 — every parsed range holds only real combos with weights in [0,1].

 1. weight language bound: the `:weight` tail of every token regex is a decimal-numeral language whose
    every word denotes a value in [0,1]; the default of parse_probability is in [0,1]; the text handed to
    parse_probability is exactly that tail
 2. distinct cards: SingleCardPair is only built under an inequality test of its two cards; Suited(a,b) only
    under a test implying a != b; Pocket/Ofsuit combos differ in suit by the combo tables (C05/C12)"""
import struct

from sa import idioms as I, prov as P, regexlang
from sa.report import Unrecognised
from rules import tokmodel

CARD_PAIR = tokmodel.CARD_PAIR
PAIR_INDEX = f"<{CARD_PAIR} as std::ops::Index<usize>>::index"


def f32_of_bits(b):
    return struct.unpack("<f", struct.pack("<I", b))[0]


def tail_of(lit):
    r = regexlang.parse(lit)
    pre, rest = r.prefix_classes()
    tail = r.optional_tail()
    return r, pre, tail


def rule_weight(ctx, TM):
    rule = "C10.weight-language"
    ctx.rule(rule, "the weight tail of every token shape only admits decimal numerals denoting values in [0,1]")
    fn = TM.fn
    seen = set()
    for st in TM.sites:
        if not st.regexes:
            ctx.violation(rule, f"{fn.path}|no-regex|{st.kind}-{st.pair_variant}", f"{st.kind}({st.pair_variant}) is returned without a regex match "
                          f"constraining the text (its weight tail is unconstrained)", fn=fn.path, file=fn.file, line=st.line)
        for lit in st.regexes:
            key = lit
            if lit is None:
                ctx.violation(rule, f"{fn.path}|unanalysable-regex|{st.kind}-{st.pair_variant}",
                              f"{st.kind}({st.pair_variant}) is guarded by a regex outside the analysed subset (flags, wildcards, look-around…): its "
                              f"weight language cannot be bounded", fn=fn.path, file=fn.file, line=st.line)
                continue
            try:
                r, pre, tail = tail_of(lit)
            except regexlang.Unsupported as e:
                ctx.violation(rule, f"{fn.path}|unanalysable-regex|{len(seen)}", f"regex {lit!r} is outside the analysed subset: {e}",
                              fn=fn.path, file=fn.file, line=st.line)
                continue
            if not r.anchored:
                ctx.violation(rule, f"{fn.path}|unanchored|{st.kind}-{st.pair_variant}",
                              f"regex {lit!r} is not anchored at both ends: the text after the token shape (the weight) is not constrained",
                              fn=fn.path, file=fn.file, line=st.line, construct="regex literal")
                continue
            # the probability text must start exactly where the fixed prefix ends
            if st.prob_from != len(pre):
                ctx.violation(rule, f"{fn.path}|weight-offset|{st.kind}-{st.pair_variant}",
                              f"{st.kind}({st.pair_variant}): the weight is parsed from s[{st.prob_from}..] but the shape's fixed part "
                              f"has {len(pre)} bytes", fn=fn.path, file=fn.file, line=st.line)
                continue
            if tail is None:
                ctx.ok(rule, {"regex": lit, "tail": None, "weight": "default"})
                continue
            items = tail[1] if tail[0] == "seq" else [tail]
            if not items or items[0] != ("class", frozenset([":"])):
                ctx.violation(rule, f"{fn.path}|tail-shape|{st.kind}-{st.pair_variant}", f"the optional tail of {lit!r} does not start with ':'",
                              fn=fn.path, file=fn.file, line=st.line)
                continue
            num = ("seq", items[1:]) if len(items) != 2 else items[1]
            okk, why, le1 = regexlang.decimal_bound(num)
            if not okk:
                ctx.violation(rule, f"{fn.path}|weight-not-numeral|{st.kind}-{st.pair_variant}",
                              f"weight grammar of {lit!r} is not a plain decimal numeral language: {why}", fn=fn.path, file=fn.file, line=st.line)
            elif not le1:
                ctx.violation(rule, f"{fn.path}|weight-above-1|{st.kind}-{st.pair_variant}",
                              f"weight grammar of {lit!r} admits values above 1 ({why}): e.g. ':1.5' is accepted and stored as the combo's weight",
                              fn=fn.path, file=fn.file, line=st.line, construct="weight tail of the regex literal")
            else:
                ctx.ok(rule, {"token": f"{st.kind}({st.pair_variant})", "regex": lit, "bound": "every word in [0,1]"}, sample=(lit not in seen))
            seen.add(lit)
    ctx.floor("token shapes with a weight tail", len(seen), 7)
    # parse_probability: strips one leading ':', parses f32, default constant in [0,1]
    if TM.prob_fn is None:
        raise Unrecognised(rule, "no weight parser found", fn.path, fn.line)
    pf = TM.F.fns[TM.prob_fn]
    ctx.analysed([pf])
    pr = P.Prov(pf)
    ret = pr.local(0)
    okd = False
    if ret[0] == "call" and ret[1].rsplit("::", 1)[-1] in ("unwrap_or",) and len(ret[2]) == 2:
        d = ret[2][1]
        src = P.strip(ret[2][0], calls=False)
        is_parse = src[0] == "call" and ("float_parse" in src[1] or src[1].endswith("for f32>::from_str") or
                                         (src[1] == "core::str::<impl str>::parse" and pf.local_ty(0) == "f32"))
        if d[0] == "float" and 0.0 <= f32_of_bits(d[1]) <= 1.0 and is_parse:
            okd = True
            # the parsed text is the parameter or the parameter minus one leading byte (guarded by starts_with ':')
            txt = P.alts(P.strip(src[2][0]))
            for a in txt:
                a = P.strip(a)
                sl = tokmodel.slice_of(a)
                if a == ("param", 1) or a[0] == "self":
                    continue
                if sl and sl[1] == 1 and sl[2] is None:
                    continue
                # value.strip_prefix(':').unwrap_or(value)
                if a[0] == "call" and a[1].rsplit("::", 1)[-1] == "unwrap_or" and len(a[2]) == 2 and P.strip(a[2][1]) == ("param", 1):
                    sp = P.strip(a[2][0], calls=False)
                    if sp[0] == "call" and sp[1].rsplit("::", 1)[-1] == "strip_prefix" and P.strip(sp[2][0]) == ("param", 1) and \
                            (P.strip(sp[2][1]) in (("char", ord(":")), ("str", ":")) or P.strip(sp[2][1])[:2] == ("char", ord(":"))):
                        continue
                okd = False
    if okd:
        ctx.ok(rule, {"weight_parser": pf.path, "default": f32_of_bits(ret[2][1][1]), "parse": "f32::from_str of the tail without its ':'"}, sample=True)
    else:
        ctx.violation(rule, f"{pf.path}|shape", f"{pf.path} is not `f32::from_str(tail without ':').unwrap_or(c)` with c in [0,1]: {P.show(ret)[:120]}",
                      fn=pf.path, file=pf.file, line=pf.line)


def char_to_rank(F):
    """accepted char -> Rank variant, from the interval partition of TryFrom<&char> for Rank"""
    from sa import dtree
    fc = F.impl_fn("std::convert::TryFrom<&char>", "card::rank::Rank", "try_from")
    parts, pr = dtree.int_partition(fc, lambda t: t == ("deref", ("param", 1)) or t == ("param", 1), 0, 0x10FFFF)
    out = {}
    for ivs, path, _ in parts:
        leaf = dtree.last_assign(fc, path, 0, pr) if path.end == "return" else None
        if leaf and leaf[0] == "agg" and leaf[1].endswith("Result::Ok"):
            v = leaf[2][0]
            name = v[1].rsplit("::", 1)[-1] if v[0] == "agg" else (v[2] if v[0] == "enumc" else None)
            for a, b in ivs:
                if b - a > 64:
                    raise Unrecognised("C10.distinct-cards", "an Ok arm of char -> Rank covers a large interval", fc.path, fc.line)
                for cp in range(a, b + 1):
                    out[chr(cp)] = name
    return out


def rule_distinct(ctx, TM):
    rule = "C10.distinct-cards"
    ctx.rule(rule, "SingleCardPair is built only under pair[0] != pair[1]; Suited(a,b) only under a test implying a != b")
    fn, pr = TM.fn, TM.pr
    n = 0
    for st in TM.sites:
        if st.kind == "SingleCardPair":
            n += 1
            cp = P.strip(P.narrow_deep(P.strip(st.card_pair_term)))

            def is_card(k):
                def f(t):
                    s = P.strip(t)
                    return s[0] == "call" and s[1] == PAIR_INDEX and P.strip(P.narrow_deep(P.strip(s[2][0]))) == cp and P.const_int(s[2][1]) == k
                return f
            edges = I.edges_implying(fn, pr, "Ne", is_card(0), is_card(1))
            # the two 2-byte halves of the text differing is equivalent (card text is a bijection)
            for b, lab, truth, term in I.bool_edges(fn, pr):
                rel = I.norm_rel(term, truth)
                if rel and rel[0] == "Ne":
                    sx, sy = tokmodel.slice_of(rel[1]), tokmodel.slice_of(rel[2])
                    if sx and sy and sx[0] == sy[0] == ("param", 1) and {(sx[1], sx[2]), (sy[1], sy[2])} == {(0, 2), (2, 4)}:
                        edges.append((b, lab))
            if edges and I.guarded_by(fn, st.block, edges):
                ctx.ok(rule, {"token": "SingleCardPair", "guard": "pair[0] != pair[1]", "line": st.line}, sample=True)
            else:
                ctx.violation(rule, f"{fn.path}|SingleCardPair|no-distinctness-test",
                              "a card-pair token is accepted without testing that its two cards differ: 'AsAs' yields the combo (As, As)",
                              fn=fn.path, file=fn.file, line=st.line, construct="construction of SingleCardPair")
        if st.pair_variant == "Suited":
            n += 1
            pa, pb = st.ranks[0], st.ranks[1]
            text_edges = TM.slice_ne_edges(pa, pb)
            if text_edges and st.regexes and st.regexes[0]:
                # `s[a..a+1] != s[b..b+1]` implies different ranks only if the letters admitted there name ranks injectively
                try:
                    r_ = regexlang.parse(st.regexes[0])
                    pre_, _rest = r_.prefix_classes()
                    c2r = char_to_rank(TM.F)
                    for pos_ in (pa, pb):
                        cls_ = pre_[pos_] if pos_ < len(pre_) else frozenset()
                        names_ = [c2r.get(ch) for ch in cls_ if ch in c2r]
                        if len(set(names_)) != len(names_):
                            text_edges = []
                except (regexlang.Unsupported, Exception):
                    text_edges = []
            edges = TM.rank_rel_edges(pa, pb, "Ne") + text_edges
            if edges and I.guarded_by(fn, st.block, edges):
                ctx.ok(rule, {"token": f"{st.kind}(Suited)", "guard": f"rank@{pa} != rank@{pb}", "line": st.line}, sample=True)
            else:
                ctx.violation(rule, f"{fn.path}|{st.kind}-Suited|same-rank",
                              f"{st.kind}(Suited(a, b)) is built without a test implying a != b: 'AAs' would expand to combos of one card twice",
                              fn=fn.path, file=fn.file, line=st.line)
            if st.kind == "DoubleClosedRankPairRange":
                # the high card must stay outside the kicker span: high < top kicker (and top <= bottom by R-span-guard)
                e2 = TM.rank_rel_edges(st.ranks[0], st.ranks[1], "Lt")
                if e2 and I.guarded_by(fn, st.block, e2):
                    ctx.ok(rule, {"token": "DoubleClosed(Suited)", "guard": "high < top kicker"})
                else:
                    ctx.violation(rule, f"{fn.path}|DoubleClosed-Suited|high-in-span", "the high card may lie inside the kicker span",
                                  fn=fn.path, file=fn.file, line=st.line)
    ctx.floor("SingleCardPair / Suited constructions in the parser", n, 4)


def run(ctx):
    ctx.explanation = ("static: (1) the regular language of the ':weight' tail of each of the seven token regexes is analysed "
                       "(decimal numerals only; integer part 0, or 1 with an absent/all-zero fraction), f32 parsing is correctly "
                       "rounded and monotone so the stored weight is in [0,1]; offsets tie the text handed to the weight parser "
                       "to that tail; (2) dominance of inequality tests over the constructions that could otherwise yield a "
                       "combo of one card twice. Showdown probabilities in [0,1] and no repeated card in a showdown then follow "
                       "from C02 (product of weights, used-card set) and C03 (board test).")
    F = ctx.facts("lib")
    TM = tokmodel.get(F)
    ctx.analysed([TM.fn])
    for f in (rule_weight, rule_distinct):
        try:
            f(ctx, TM)
        except Unrecognised as e:
            ctx.unrecognised(e.rule, e.msg, e.fn, e.line)
    # "parsed ranges hold only ..." also needs every map entry of a parsed range to come out of a token expansion: the range
    # parser's pipeline (C05's rule, re-evaluated here because this property's statement depends on it)
    try:
        from rules import c05
        from sa.report import PrefixCtx
        c05.rule_range_parser(PrefixCtx(ctx, "C05", "C10", allowed=["range-parser"]), F)
    except Unrecognised as e:
        ctx.unrecognised("C10.range-parser", e.msg, e.fn, e.line)
    ctx.assume("f32::from_str is correctly rounded and monotone; 0 and 1 are representable")
    ctx.assume("Pocket and Ofsuit combos always differ in suit, Suited combos differ in rank when a != b (combo tables: C05/C12)")
