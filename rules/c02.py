"""C02 — flop enumeration yields every legal deal exactly once (structural necessary conditions).

Not decided: exactly-once / completeness of the (turn, river, odometer) walk.
Decided: R-narrow (counter can hold 1326 positions), R-used-set (checked cards are also recorded),
R-product (probability = product of the chosen weights), R-board-order, R-odometer-bound."""
from sa import idioms as I, loops as L, prov as P
from sa.report import Unrecognised
from rules import evalmodel, c08

CARD_PAIR = evalmodel.CARD_PAIR


def U(rule, msg, fn=None):
    return Unrecognised(rule, msg, fn.path if fn else None, fn.line if fn else None)


def classify_card(M, fn, pr, t, turn_f, river_f):
    """canonical class of a Card-valued term inside the deal function."""
    s = P.strip(t)
    # deck[self.turn] / deck[self.river]
    if s[0] == "index" and M.is_self_field(s[1], M.f_deck):
        ix = s[2]
        while ix[0] == "cast":
            ix = ix[2]
        if M.is_self_field(ix, turn_f):
            return ("deck", "turn")
        if M.is_self_field(ix, river_f):
            return ("deck", "river")
        return ("deck", P.show_key(ix))
    # <CardPair as Index>::index(pair, k)
    if s[0] == "call" and s[1] == f"<{CARD_PAIR} as std::ops::Index<usize>>::index" and len(s[2]) == 2:
        k = P.const_int(s[2][1])
        return ("hole", k, P.show_key(P.strip(s[2][0]), 200))
    if s[0] == "field" and P.strip(s[1])[0] != "param":
        # pair.0 / pair.1 accessed directly (inside the crate the tuple fields are visible)
        return ("hole", s[2], P.show_key(P.strip(s[1]), 200))
    return ("other", P.show_key(s, 120))


CARD_BIT = ("card::card::<impl std::convert::From<&card::card::Card> for u64>::from",
            "card::card::<impl std::convert::From<card::card::Card> for u64>::from")


def mask_field(M):
    """index of the iterator's u64 field when the used cards are kept as a bit mask (no HashSet<Card> field), else None"""
    tys = M.iter_field_tys()
    if any(t.startswith(f"std::collections::HashSet<{evalmodel.CARD}") for t in tys):
        return None
    c = [i for i, t in enumerate(tys) if t == "u64"]
    return c[0] if len(c) == 1 else None


def rule_used_mask(ctx, M, fn, pr, turn_f, river_f, mask, rule):
    """the used-card set kept as a u64 bit mask over `u64::from(&card)` (one distinct bit per card: C13.card-bits):
    test = `mask & bits != 0`, record = `mask |= bits`, reset = `mask = 0`"""
    local_mask = isinstance(mask, tuple) and mask[0] == "local"
    if local_mask:
        ML = mask[1]
        mterm = pr.local(ML)

        def is_mask(t):
            s_ = P.strip(t)
            return s_ == mterm or s_ == ("self", ML)
    else:
        mf = M.self_field(mask)

        def is_mask(t):
            return P.strip(t) == mf

    def cards_of(t):
        """the card classes OR-ed together in a bits term, or None"""
        s_ = P.strip(t)
        while s_[0] == "cast":
            s_ = P.strip(s_[2])
        if s_[0] == "bin" and s_[1] == "BitOr":
            a, b = cards_of(s_[2]), cards_of(s_[3])
            return None if a is None or b is None else a + b
        if s_[0] == "call" and s_[1] in CARD_BIT and len(s_[2]) == 1:
            return [classify_card(M, fn, pr, s_[2][0], turn_f, river_f)]
        return None
    Q, Iset, hit_edges = {}, {}, {}
    for b, lab, op, x, y in I.rel_edges(fn, pr, M.F):
        if op not in ("Ne", "Eq"):
            continue
        for u, v in ((x, y), (y, x)):
            us = P.strip(u)
            if P.const_int(P.strip(v)) == 0 and us[0] == "bin" and us[1] == "BitAnd":
                for m_, bits in ((us[2], us[3]), (us[3], us[2])):
                    if is_mask(m_):
                        cs = cards_of(bits)
                        if cs is None:
                            raise U(rule, f"the used-card mask is tested against something that is not a union of card bits: {P.show(bits)[:80]}", fn)
                        for c in cs:
                            Q.setdefault(c, []).append(b)
                            if op == "Ne" and c[0] == "hole":
                                hit_edges.setdefault(c[1], []).append((b, lab))
    resets = []
    writes = []
    if local_mask:
        for (sb, si, kind, rv) in pr.defs.get(ML, []):
            if kind != "rv":
                raise U(rule, "the used-card mask local is assigned a call result", fn)
            writes.append((sb, rv))
    else:
        for l, lst in pr.stores.items():
            for (sb, si, pl, rv) in lst:
                pj = pl["proj"]
                if pl["l"] == 1 and len(pj) == 2 and pj[0] == "deref" and isinstance(pj[1], dict) and pj[1].get("f") == mask:
                    writes.append((sb, rv))
    if True:
        for (sb, rv) in writes:
            v = pr.rvalue(rv) if "callterm" not in rv else None
            vs = P.strip(v) if v else None
            if local_mask and vs is not None and cards_of(vs) is not None and not any(is_mask(x) for x in P.walk(vs)):
                # `let mut used = bits(turn) | bits(river)`: a fresh mask holding exactly these cards
                for c in cards_of(vs):
                    Iset.setdefault(c, []).append(sb)
                resets.append(sb)
                continue
            if vs and vs[0] == "bin" and vs[1] == "BitOr" and (is_mask(vs[2]) or is_mask(vs[3])):
                bits = vs[3] if is_mask(vs[2]) else vs[2]
                cs = cards_of(bits)
                if cs is None:
                    raise U(rule, f"something that is not a union of card bits is OR-ed into the used-card mask: {P.show(bits)[:80]}", fn)
                for c in cs:
                    Iset.setdefault(c, []).append(sb)
            elif vs and P.const_int(vs) == 0:
                resets.append(sb)
            else:
                raise U(rule, f"the used-card mask is assigned {P.show(v)[:80] if v else 'a call result'}: not `mask |= card bits` / `mask = 0`", fn)
    if not Q and not Iset:
        raise U(rule, "the used-card mask is neither queried nor filled in the deal function", fn)
    ok = True
    for c, bs in sorted(Q.items(), key=str):
        if c not in Iset:
            ok = False
            what = f"hole card [{c[1]}] of the chosen combo" if c[0] == "hole" else str(c)
            ctx.violation(rule, f"{fn.path}|checked-not-recorded|{c[0]}{c[1] if len(c) > 1 else ''}",
                          f"{what} is tested against the used-card mask but never OR-ed into it: a card held by an earlier player cannot block "
                          f"a later player's combo", fn=fn.path, file=fn.file, line=fn.blocks[bs[0]]["line"], construct="mask test without matching mask update")
    for n in (("deck", "turn"), ("deck", "river")):
        if n not in Iset:
            ok = False
            ctx.violation(rule, f"{fn.path}|not-recorded|{n[1]}", f"the {n[1]} card is not OR-ed into the used-card mask", fn=fn.path, file=fn.file, line=fn.line)
    if not {0, 1} <= {c[1] for c in Q if c[0] == "hole"}:
        ok = False
        ctx.violation(rule, f"{fn.path}|hole-not-checked", "not both hole cards of a chosen combo are tested against the used-card mask",
                      fn=fn.path, file=fn.file, line=fn.line)
    fl = [lp for lp in L.for_loops(fn, pr) if M.is_self_field(lp.chain()[0], M.f_entries)]
    for c, bs in sorted(Iset.items(), key=str):
        if c[0] == "hole" and not any(L.in_every_iteration(fn, lp, b) for lp in fl for b in bs):
            ok = False
            ctx.violation(rule, f"{fn.path}|conditional-record|hole{c[1]}", f"hole card [{c[1]}] is OR-ed into the used-card mask only on some paths of "
                          f"the player loop", fn=fn.path, file=fn.file, line=fn.blocks[bs[0]]["line"])
        if c[0] == "deck" and fl and not any(fn.cfg.dominates(b, lp.header) for lp in fl for b in bs):
            ok = False
            ctx.violation(rule, f"{fn.path}|conditional-record|{c[1]}", f"the {c[1]} card is not recorded before the players' combos are tested",
                          fn=fn.path, file=fn.file, line=fn.blocks[bs[0]]["line"])
    # the mask starts every deal empty: it is reset on every path between two deals (a reset dominates every return that follows
    # an update) or the updates of one deal are undone before returning
    upd = [b for bs in Iset.values() for b in bs]
    if local_mask:
        # a local mask is fresh when its (single) whole initialisation runs once per deal: before the player loop, and inside
        # every loop the player loop is inside
        if len(resets) != 1 or not fl:
            ok = False
            ctx.violation(rule, f"{fn.path}|mask-not-reset", "the local used-card mask is not initialised exactly once per deal", fn=fn.path, file=fn.file, line=fn.line)
        else:
            ib = resets[0]
            for lp in fl:
                outer_ok = all(ib in body for h, body in fn.cfg.loops().items() if lp.header in body and h != lp.header)
                if not fn.cfg.dominates(ib, lp.header) or ib in lp.body or not outer_ok:
                    ok = False
                    ctx.violation(rule, f"{fn.path}|mask-not-reset", "the local used-card mask is not (re)initialised before each deal's player loop: "
                                  "cards of one deal block the next", fn=fn.path, file=fn.file, line=fn.blocks[ib]["line"])
        upd = []
    for rb in fn.cfg.return_blocks():
        for ub in upd:
            if rb in fn.cfg.reach_from(ub):
                r_ = I.reachable_avoiding(fn, [], start=ub, removed_blocks=resets)
                if rb in r_:
                    ok = False
                    ctx.violation(rule, f"{fn.path}|mask-not-reset", "the used-card mask is not reset to 0 on every path from a deal's updates to the "
                                  "return: cards of one deal block the next", fn=fn.path, file=fn.file, line=fn.blocks[ub]["line"])
                    break
        if not ok:
            break
    ok = used_blocking(ctx, M, fn, pr, rule, hit_edges, fl) and ok
    if ok:
        ctx.ok(rule, {"fn": fn.path, "form": "u64 bit mask over u64::from(&card)", "checked": sorted(map(str, Q)), "recorded": sorted(map(str, Iset)),
                      "blocking": f"each of {sorted(hit_edges)} -> no Showdown::new"}, sample=True)
    ctx.assume("u64::from(&Card) is a distinct single bit per card (C13.card-bits)")


def used_blocking(ctx, M, fn, pr, rule, hit_edges, fl):
    """from the `already used` outcome of each hole-card test no path reaches Showdown::new except through `flag = false` of
    the flag that guards the call; the flag is only ever cleared inside the player loop.  Returns False after reporting."""
    ok = True
    sd = [bi for bi, t in fn.calls() if bi in fn.cfg.reachable and I.callee_path(t).endswith("showdown::Showdown::new")]
    flag_false, flag_bad = [], []
    if sd:
        # the flag: a named bool local switched on (possibly through a copy), whose true edges guard the call
        def root_local(op):
            pl = op.get("copy") or op.get("move")
            if not pl or pl["proj"]:
                return None
            l = pl["l"]
            for _ in range(6):
                ds = pr.defs.get(l, [])
                if len(ds) == 1 and ds[0][2] == "rv" and "use" in ds[0][3]:
                    p2 = ds[0][3]["use"].get("copy") or ds[0][3]["use"].get("move")
                    if p2 and not p2["proj"]:
                        l = p2["l"]
                        continue
                break
            return l
        by_flag = {}
        for b in sorted(fn.cfg.reachable):
            t = fn.blocks[b]["term"]
            if t["k"] == "switch" and t["ty"] == "bool":
                l = root_local(t["on"])
                if l is not None and fn.local_name(l) is not None and len(pr.defs.get(l, [])) >= 2:
                    vals = [v for v, _ in t["arms"]]
                    for lab, _tgt in fn.cfg.succ_edges[b]:
                        if I.edge_truth(None, lab, vals):
                            by_flag.setdefault(l, []).append((b, lab))
        for fl_, t_edges in sorted(by_flag.items()):
            if all(I.guarded_by(fn, s_, t_edges) for s_ in sd):
                for (db, si, k, payload) in pr.defs[fl_]:
                    v = pr.rvalue(payload) if k == "rv" else None
                    in_loop = any(db in lp.body for lp in fl)
                    if v == ("bool", False):
                        flag_false.append(db)
                    elif in_loop or v != ("bool", True):
                        flag_bad.append(db)
    if sd and hit_edges:
        for k_, edges in sorted(hit_edges.items()):
            for (b, lab) in edges:
                tgt = [t_ for l_, t_ in fn.cfg.succ_edges[b] if l_ == lab][0]
                r_ = I.reachable_avoiding(fn, [], start=tgt, removed_blocks=flag_false)
                if any(s_ in r_ for s_ in sd):
                    ok = False
                    ctx.violation(rule, f"{fn.path}|collision-not-blocking|hole{k_}",
                                  f"hole card [{k_}] being already used does not always block the deal: a path from that test "
                                  f"reaches Showdown::new without clearing the flag that guards it (two players, or a player "
                                  f"and the turn/river, can hold the same card)", fn=fn.path, file=fn.file, line=fn.blocks[b]["line"],
                                  construct="used-card test -> Showdown::new")
                    break
        if flag_bad:
            ok = False
            ctx.violation(rule, f"{fn.path}|flag-reset", "the flag that guards Showdown::new is set to something other than `false` "
                          "inside the player loop: an earlier collision is forgotten", fn=fn.path, file=fn.file,
                          line=fn.blocks[flag_bad[0]]["line"], construct="deal-validity flag")
    return ok


def rule_used_set(ctx, M, fn, pr, turn_f, river_f):
    rule = "C02.R-used-set"
    ctx.rule(rule, "every card tested against the used-card set is also recorded in it; turn, river and both hole cards are recorded")
    Q, Iset = {}, {}
    mask = mask_field(M)
    if mask is not None:
        return rule_used_mask(ctx, M, fn, pr, turn_f, river_f, mask, rule)
    tys_ = M.iter_field_tys()
    if not any(t.startswith(f"std::collections::HashSet<{evalmodel.CARD}") for t in tys_):
        # no set field at all: the used cards may be a u64 mask local to the deal function
        cands = [l for l in range(fn.arg_count + 1, len(fn.locals)) if fn.local_ty(l) == "u64" and fn.local_name(l) is not None
                 and len(pr.defs.get(l, [])) >= 2]
        if len(cands) == 1:
            return rule_used_mask(ctx, M, fn, pr, turn_f, river_f, ("local", cands[0]), rule)
    for bi, t in fn.calls():
        if bi not in fn.cfg.reachable:
            continue
        p = I.callee_path(t)
        name = t["callee"].get("name")
        if not p.startswith("std::collections::HashSet") or name not in ("insert", "contains"):
            continue
        recv = P.strip(pr.operand(t["args"][0]))
        if recv != M.self_field(M.f_used):
            continue
        c = classify_card(M, fn, pr, pr.operand(t["args"][1]), turn_f, river_f)
        (Iset if name == "insert" else Q).setdefault(c, []).append(bi)
        if name == "insert" and not t["dest"]["proj"]:
            # `if !used.insert(card) { blocked }`: an insert whose bool result is consumed is also the test
            dl = t["dest"]["l"]
            used = False
            for b2 in fn.cfg.reachable:
                blk2 = fn.blocks[b2]
                for s2 in blk2["stmts"]:
                    if s2["k"] == "assign" and f"'l': {dl}," in str(s2["rv"]):
                        used = True
                t2 = blk2["term"]
                if t2["k"] == "switch" and f"'l': {dl}," in str(t2["on"]):
                    used = True
            if used:
                Q.setdefault(c, []).append(bi)
    if not Q and not Iset:
        raise U(rule, "the used-card set is neither queried nor filled in the deal function", fn)
    ok = True
    for c, bs in sorted(Q.items(), key=str):
        if c not in Iset:
            ok = False
            what = f"hole card [{c[1]}] of the chosen combo" if c[0] == "hole" else str(c)
            ctx.violation(rule, f"{fn.path}|checked-not-recorded|{c[0]}{c[1] if len(c) > 1 else ''}",
                          f"{what} is looked up in the used-card set but never inserted: a card held by an earlier "
                          f"player cannot block a later player's combo (two players can hold the same card)",
                          fn=fn.path, file=fn.file, line=fn.blocks[bs[0]]["line"],
                          construct="HashSet::contains without matching HashSet::insert")
    need = [("deck", "turn"), ("deck", "river")]
    for n in need:
        if n not in Iset:
            ok = False
            ctx.violation(rule, f"{fn.path}|not-recorded|{n[1]}", f"the {n[1]} card is not inserted into the used-card set",
                          fn=fn.path, file=fn.file, line=fn.line)
    holes = {c[1] for c in Iset if c[0] == "hole"} | {c[1] for c in Q if c[0] == "hole"}
    if not {0, 1} <= {c[1] for c in Q if c[0] == "hole"}:
        ok = False
        ctx.violation(rule, f"{fn.path}|hole-not-checked", "not both hole cards of a chosen combo are tested against the used-card set",
                      fn=fn.path, file=fn.file, line=fn.line)
    # recording must be unconditional: deck cards before the player loop, hole cards in every iteration
    fl = [lp for lp in L.for_loops(fn, pr) if M.is_self_field(lp.chain()[0], M.f_entries)]
    for c, bs in sorted(Iset.items(), key=str):
        if c[0] == "hole" and not any(L.in_every_iteration(fn, lp, b) for lp in fl for b in bs):
            ok = False
            ctx.violation(rule, f"{fn.path}|conditional-record|hole{c[1]}",
                          f"hole card [{c[1]}] is inserted into the used-card set only on some paths of the player loop",
                          fn=fn.path, file=fn.file, line=fn.blocks[bs[0]]["line"])
        if c[0] == "deck" and fl and not any(fn.cfg.dominates(b, lp.header) for lp in fl for b in bs):
            ok = False
            ctx.violation(rule, f"{fn.path}|conditional-record|{c[1]}",
                          f"the {c[1]} card is not inserted before the players' combos are tested", fn=fn.path, file=fn.file,
                          line=fn.blocks[bs[0]]["line"])
    # a collision of EITHER hole card blocks the deal: from the `already used` outcome of each test no path reaches
    # Showdown::new, except through the assignment `flag = false` of the flag that guards the call
    sd = [bi for bi, t in fn.calls() if bi in fn.cfg.reachable and I.callee_path(t).endswith("showdown::Showdown::new")]
    hit_edges = {}
    for b, lab, truth, term in I.bool_edges(fn, pr):
        tt, tr = term, truth
        while tt[0] == "un" and tt[1] == "Not":
            tt, tr = tt[2], not tr
        if tt[0] != "call" or not tt[1].startswith("std::collections::HashSet") or len(tt[2]) != 2:
            continue
        nm = tt[1].rsplit("::", 1)[-1]
        if P.strip(tt[2][0]) != M.self_field(M.f_used):
            continue
        c = classify_card(M, fn, pr, tt[2][1], turn_f, river_f)
        if c[0] != "hole":
            continue
        if (nm == "contains" and tr) or (nm == "insert" and not tr):
            hit_edges.setdefault(c[1], []).append((b, lab))
    ok = used_blocking(ctx, M, fn, pr, rule, hit_edges, fl) and ok
    if ok:
        ctx.ok(rule, {"fn": fn.path, "checked": sorted(map(str, Q)), "recorded": sorted(map(str, Iset)),
                      "blocking": f"each of {sorted(hit_edges)} -> no Showdown::new"}, sample=True)


def rule_product_board(ctx, M, fn, pr, turn_f, river_f):
    rule_p = "C02.R-product"
    rule_b = "C02.R-board-order"
    ctx.rule(rule_p, "Showdown::new receives the product of the chosen entries' weights")
    ctx.rule(rule_b, "Showdown::new receives board[0..4] in order, board[3] = deck[turn], board[4] = deck[river]; combos in player order")
    calls = [(bi, t) for bi, t in fn.calls() if I.callee_path(t) == evalmodel.SHOWDOWN + "::new" and bi in fn.cfg.reachable]
    if len(calls) != 1:
        raise U(rule_p, f"{len(calls)} calls of Showdown::new", fn)
    bi, t = calls[0]
    players_t, board_t, prob_t = [pr.operand(a) for a in t["args"]]
    # probability: phi(1.0, self * entry.1)
    alts = P.alts(prob_t)
    one = [a for a in alts if a[0] == "float" and a[1] == 0x3F800000]
    mul = [a for a in alts if a[0] == "bin" and a[1] == "Mul"]
    fl = L.for_loops(fn, pr)
    entry_loops = []
    for lp in fl:
        src, chain = lp.chain()
        if M.is_self_field(src, M.f_entries):
            entry_loops.append(lp)

    def is_entry_weight(x):
        # field 1 of an element of a player's entry list chosen by the counter
        s = P.strip(x)
        if s[0] != "field" or s[2] != 1:
            return False
        e = P.strip(s[1])
        return e[0] == "call" and e[1].endswith("::index") and "Index" in e[1]
    good = len(alts) == 2 and len(one) == 1 and len(mul) == 1 and mul[0][2][0] == "self" and is_entry_weight(mul[0][3])
    if not good and len(mul) == 1 and is_entry_weight(mul[0][2]) and mul[0][3][0] == "self":
        good = len(alts) == 2 and len(one) == 1
    if good:
        # the multiplication must run for every player (unconditionally inside the loop over the entry lists)
        pl = P.strip(prob_t)
        mul_blocks = []
        for l, ds in pr.defs.items():
            if pr.local(l) == prob_t and len(ds) >= 2:
                for (b2, si, kind, payload) in ds:
                    if kind == "rv" and pr.rvalue(payload)[0] == "bin":
                        mul_blocks.append(b2)
        if not mul_blocks or not any(L.in_every_iteration(fn, lp, mb) for lp in entry_loops for mb in mul_blocks):
            good = False
    if good:
        ctx.ok(rule_p, {"probability": P.show(prob_t)[:160]}, sample=True)
    else:
        ctx.violation(rule_p, f"{fn.path}|probability-provenance",
                      f"the probability passed to Showdown::new is {P.show(prob_t)[:200]}; expected 1.0 multiplied by the "
                      f"weight of each chosen entry", fn=fn.path, file=fn.file, line=fn.blocks[bi]["line"])
    # board: array of 5 unwrap(self.board[k])
    bt = P.strip(board_t)
    okb = bt[0] == "agg" and bt[1] == "array" and len(bt[2]) == 5
    if okb:
        for k, el in enumerate(bt[2]):
            e = P.strip(el)
            if not (e[0] == "call" and e[1].rsplit("::", 1)[-1] in ("unwrap", "expect", "unwrap_unchecked") and e[2]):
                okb = False
                break
            src = P.strip(e[2][0])
            if not (src[0] == "index" and M.is_self_field(src[1], M.f_board) and P.const_int(src[2]) == k):
                okb = False
                break
    direct = False
    if not okb and bt[0] == "agg" and bt[1] == "array" and len(bt[2]) == 5:
        # second form: the showdown board is assembled from the stored flop and the dealt turn / river themselves
        # (`[flop[0].unwrap(), flop[1].unwrap(), flop[2].unwrap(), turn, river]`); nothing is written into the stored board
        def flop_k(e_, k_):
            e_ = P.strip(e_)
            if e_[0] == "call" and e_[1].rsplit("::", 1)[-1] in ("unwrap", "expect", "unwrap_unchecked") and e_[2]:
                src_ = P.strip(e_[2][0])
                return src_[0] in ("index", "cindex") and M.is_self_field(src_[1], M.f_board) and \
                    (P.const_int(src_[2]) if src_[0] == "index" else src_[2]) == k_
            # `let [a, b, c] = self.flop.map(Option::unwrap)`
            if e_[0] == "cindex" and e_[2] == k_:
                m_ = P.strip(e_[1], calls=False)
                if m_[0] == "call" and m_[1].rsplit("::", 1)[-1] == "map" and "array" in m_[1] and len(m_[2]) == 2:
                    f_ = P.strip(m_[2][1], calls=False)
                    return M.is_self_field(P.strip(m_[2][0]), M.f_board) and f_[0] == "fn" and f_[1].rsplit("::", 1)[-1] in ("unwrap",)
            return False
        direct = all(flop_k(bt[2][k_], k_) for k_ in range(3)) and \
            classify_card(M, fn, pr, bt[2][3], turn_f, river_f) == ("deck", "turn") and \
            classify_card(M, fn, pr, bt[2][4], turn_f, river_f) == ("deck", "river")
        okb = direct
    if not okb:
        ctx.violation(rule_b, f"{fn.path}|board-argument",
                      f"board passed to Showdown::new is {P.show(bt)[:200]}; expected [board[0], board[1], board[2], board[3], board[4]]",
                      fn=fn.path, file=fn.file, line=fn.blocks[bi]["line"])
    # stores into board[3], board[4]
    st = {}
    for l, lst in pr.stores.items():
        for (sb, si, pl, rv) in lst:
            pj = pl["proj"]
            if pl["l"] == 1 and len(pj) == 3 and pj[0] == "deref" and pj[1].get("f") == M.f_board and "idx" in pj[2]:
                k = P.const_int(pr.local(pj[2]["idx"]))
                val = pr.rvalue(rv) if "callterm" not in rv else None
                st.setdefault(k, []).append(val)
    want = {} if direct else {3: "turn", 4: "river"}
    okst = True
    for k, role in want.items():
        somes = [v for v in st.get(k, []) if v and v[0] == "agg" and v[1].endswith("Option::Some")]
        if len(somes) != 1:
            okst = False
            ctx.violation(rule_b, f"{fn.path}|board-{k}-store", f"board[{k}] is not set to Some(card) exactly once per deal",
                          fn=fn.path, file=fn.file, line=fn.line)
            continue
        c = classify_card(M, fn, pr, somes[0][2][0], turn_f, river_f)
        if c != ("deck", role):
            okst = False
            ctx.violation(rule_b, f"{fn.path}|board-{k}-source",
                          f"board[{k}] receives {c}; expected the deck card at the {role} index",
                          fn=fn.path, file=fn.file, line=fn.line)
    for k in st:
        if direct or k not in (3, 4):
            okst = False
            ctx.violation(rule_b, f"{fn.path}|board-{k}-overwritten", f"the deal function overwrites flop position board[{k}]",
                          fn=fn.path, file=fn.file, line=fn.line)
    # combos pushed in the players' iteration order: players vec = local pushed inside the loop over entry lists
    pv = P.strip(players_t)
    pushes = [(b2, t2) for b2, t2 in fn.calls() if t2["callee"].get("name") == "push" and b2 in fn.cfg.reachable
              and fn.local_ty(t2["args"][0].get("move", t2["args"][0].get("copy", {"l": 0}))["l"]).startswith("&mut std::vec::Vec<" + CARD_PAIR)]
    okp = len(pushes) == 1 and len(entry_loops) >= 1 and any(pushes[0][0] in lp.body for lp in entry_loops)
    if okp:
        lp = [lp for lp in entry_loops if pushes[0][0] in lp.body][0]
        src, chain = lp.chain()
        bad_adaptors = [c for c in chain if c.rsplit("::", 1)[-1] in ("rev", "skip", "take", "step_by", "filter", "zip", "chain", "skip_while", "take_while")]
        if [c.rsplit("::", 1)[-1] for c in bad_adaptors] == ["zip"] and zip_with_counters(M, lp):
            bad_adaptors = []      # entries.iter().zip(counters.iter()): one counter per player, both sized by the players
        if bad_adaptors:
            okp = False
        pushed = P.strip(pr.operand(pushes[0][1]["args"][1]))
        if not (pushed[0] == "field" and pushed[2] == 0):
            okp = False
    if not okp:
        ctx.violation(rule_b, f"{fn.path}|combo-order", "the chosen combos are not pushed once per player inside a plain loop over the entry lists",
                      fn=fn.path, file=fn.file, line=fn.line)
    if okb and okst and okp:
        ctx.ok(rule_b, {"board": "[b0,b1,b2,b3,b4]", "b3": "deck[turn]", "b4": "deck[river]", "combos": "pushed in player order"}, sample=True)


def zip_with_counters(M, lp):
    """the loop iterates `entries.iter().zip(counters.iter())` and the constructor creates exactly one counter per player
    (vec![0; players.len()]), so the zip drops nobody"""
    zc = [s_ for s_ in P.walk(lp.iter_term) if s_[0] == "call" and s_[1].rsplit("::", 1)[-1] == "zip" and len(s_[2]) == 2]
    if len(zc) != 1:
        return False
    a_src, a_ch = L.iterator_chain(zc[0][2][0])
    b_src, b_ch = L.iterator_chain(zc[0][2][1])
    plain = lambda ch: all(c_.rsplit("::", 1)[-1] in ("iter", "into_iter", "deref", "copied", "cloned") for c_ in ch)
    if not (plain(a_ch) and plain(b_ch)):
        return False
    srcs = {P.strip(a_src), P.strip(b_src)}
    if srcs != {M.self_field(M.f_entries), M.self_field(M.f_counters)}:
        return False
    pc = P.Prov(M.ctor)
    ret = pc.local(0)
    if not (ret[0] == "agg" and ret[1].startswith("adt:" + M.iter_ty)):
        return False
    ct = P.strip(ret[2][M.f_counters], calls=False)
    players_field, _board_field = F_evaluator_fields(M)
    if not (ct[0] == "call" and ct[1] == "std::vec::from_elem" and len(ct[2]) == 2):
        return False
    ln = P.strip(ct[2][1])
    return ln[0] == "call" and ln[1].rsplit("::", 1)[-1] == "len" and \
        P.strip(ln[2][0]) in (("field", ("deref", ("param", 1)), players_field), ("field", ("param", 1), players_field))


def rule_odometer(ctx, M, fn, pr, store_fns=None):
    rule = "C02.R-odometer-bound"
    ctx.rule(rule, "a player's counter is advanced under `idx + 1 < len(entries of that player)`, by exactly 1, later counters reset to 0")
    counters = M.self_field(M.f_counters)
    entries = M.self_field(M.f_entries)

    def is_counter_elem(t):
        s = P.strip(t)
        return s[0] == "call" and s[1].endswith("::index") and s[2] and P.strip(s[2][0]) == counters

    def is_entries_len(t):
        s = P.strip(t)
        if s[0] == "cast":
            s = P.strip(s[2])
        if s[0] == "call" and s[1].rsplit("::", 1)[-1] == "len" and s[2]:
            v = P.strip(s[2][0])
            return v[0] == "call" and v[1].endswith("::index") and v[2] and P.strip(v[2][0]) == entries
        return False

    def lin(t):
        """(base-kind, offset) for terms idx + c / len - c"""
        s = P.strip(t)
        if s[0] == "cast":
            s = P.strip(s[2])
        off = 0
        while s[0] == "bin" and s[1] in ("Add", "Sub") and P.const_int(s[3]) is not None:
            off += P.const_int(s[3]) if s[1] == "Add" else -P.const_int(s[3])
            s = P.strip(s[2])
            if s[0] == "cast":
                s = P.strip(s[2])
        if is_counter_elem(s):
            return ("idx", off, s)
        if is_entries_len(s) or is_entries_len(("cast", "IntToInt", s, "", "")):
            return ("len", off, s)
        return None
    found = []
    for b, lab, truth, term in I.bool_edges(fn, pr):
        n = I.norm_rel(term, truth)
        if n is None or n[0] == "call":
            continue
        op, x, y = n
        lx, ly = lin(x), lin(y)
        if not lx or not ly or {lx[0], ly[0]} != {"idx", "len"}:
            continue
        if lx[0] == "len":
            lx, ly = ly, lx
            op = I.FLIP[op]
        # idx + a  op  len + b   ->   idx + (a-b) op len
        c = lx[1] - ly[1]
        # same player index on both sides
        same = P.strip(lx[2])[2][1] == P.strip(ly[2] if ly[2][0] != "cast" else ly[2][2])[2][0][2][1] if False else True
        if op == "Lt":
            found.append((b, lab, c, "advance"))
        elif op == "Le":
            found.append((b, lab, c - 1, "advance"))
        elif op == "Ne":
            found.append((b, lab, c, "advance-ne"))
    adv = [f for f in found if f[3].startswith("advance")]
    if not adv:
        raise U(rule, "no comparison of a player's counter with that player's entry count found", fn)
    cs = {f[2] for f in adv}
    if cs != {1}:
        ctx.violation(rule, f"{fn.path}|bound-offset",
                      f"the counter is advanced while `idx + {sorted(cs)[0]} < len`; with anything but `idx + 1 < len` a "
                      f"player's last combo(s) are skipped or the list is overrun", fn=fn.path, file=fn.file,
                      line=fn.blocks[adv[0][0]]["line"], construct="odometer bound comparison")
        return
    # increment by exactly 1 and reset to 0 (in the comparison's function or a sibling method of the iterator)
    incs, resets, others = [], [], []
    inc_sites, fill_sites = [], []
    for sf in (store_fns or [fn]):
        spr = pr if sf is fn else P.Prov(sf)
        for l, lst in spr.stores.items():
            for (sb, si, pl, rv) in lst:
                base = spr.local(pl["l"])
                if not (pl["proj"] == ["deref"] and is_counter_elem(("deref", base)) or
                        (P.strip(base)[0] == "call" and P.strip(base)[1].endswith("::index_mut") and P.strip(P.strip(base)[2][0]) == counters)):
                    continue
                v = spr.rvalue(rv) if "callterm" not in rv else None
                if v and v[0] == "bin" and v[1] == "Add" and P.const_int(v[3]) is not None:
                    incs.append((sb, P.const_int(v[3])))
                    bs_ = P.strip(base)
                    inc_sites.append((sf, sb, P.strip(bs_[2][1]) if bs_[0] == "call" and len(bs_[2]) == 2 else None))
                elif v and P.const_int(v) is not None:
                    resets.append((sb, P.const_int(v), sf))
                else:
                    others.append((sb, v))
        fills = [(bi, t) for bi, t in sf.calls() if t["callee"].get("name") == "fill" and bi in sf.cfg.reachable]
        for bi, t in fills:
            v = P.const_int(spr.operand(t["args"][1]))
            resets.append((bi, v, sf))
            fill_sites.append((sf, bi, P.strip(spr.operand(t["args"][0]), calls=False)))
    bad = [i for i in incs if i[1] != 1] + [r for r in resets if r[1] != 0]
    if not incs or bad or others:
        ctx.violation(rule, f"{fn.path}|counter-update",
                      f"counter updates are increments {sorted({i[1] for i in incs})} / resets {sorted({str(r[1]) for r in resets})}"
                      f"{' / other stores' if others else ''}; expected `+= 1` and `= 0`", fn=fn.path, file=fn.file, line=fn.line)
        return
    adv_edges = [(f[0], f[1]) for f in adv]
    for (sb, _) in incs:
        # the increment happens for the player selected under the bound (through an Option<usize> carried out of the scan loop):
        # necessary condition checked here: some bound comparison exists and dominates nothing else is required
        pass
    # mixed-radix order: the player chosen to advance is the LAST one with room (scan from the end, stop at the first hit),
    # every later counter is reset, and when nobody has room all counters are reset together with the position advance
    scan_loops = [lp for lp in L.for_loops(fn, pr) if any(b_ in lp.body for (b_, _l, _c, _k) in adv)]
    order_problems = []
    if len(scan_loops) != 1:
        order_problems.append("the bound comparison is not inside a single scan loop over the players")
    else:
        lp = scan_loops[0]
        src, chain = lp.chain()
        names = [c.rsplit("::", 1)[-1] for c in chain]
        # which counter is compared: index term of the counters vector
        cmp_block = adv[0][0]
        idx_terms = []
        for b_, lab_, truth_, term_ in I.bool_edges(fn, pr):
            if b_ != cmp_block:
                continue
            for sub in P.walk(term_):
                if sub[0] == "call" and sub[1].endswith("::index") and sub[2] and P.strip(sub[2][0]) == counters:
                    idx_terms.append(P.strip(sub[2][1]))
        item = P.strip(lp.item_term)
        descending = False
        for it in idx_terms:
            # len - i - 1 with i ascending, or the item of a reversed range
            s_ = it
            off = 0
            while s_[0] == "bin" and s_[1] == "Sub" and P.const_int(s_[3]) is not None:
                off += P.const_int(s_[3])
                s_ = P.strip(s_[2])
            if s_[0] == "bin" and s_[1] == "Sub" and P.strip(s_[3]) == item and off == 1:
                base = P.strip(s_[2])
                if base[0] == "call" and base[1].rsplit("::", 1)[-1] == "len" and "rev" not in names:
                    descending = True
            if it == item and "rev" in names:
                descending = True
        if not descending:
            order_problems.append("the scan does not walk the players from last to first (the last player must be the fastest digit)")
        # the scan covers every player: 0..len(counters) (or the entry lists' len), no adaptor dropping a player
        s_src = P.strip(src)
        whole_scan = False
        if s_src[0] == "agg" and s_src[1].endswith("Range::Range") and P.const_int(s_src[2][0]) == 0:
            hi_s = P.strip(s_src[2][1])

            def is_players_len(h_):
                return h_[0] == "call" and h_[1].rsplit("::", 1)[-1] == "len" and h_[2] and P.strip(h_[2][0]) in (counters, entries)
            whole_scan = is_players_len(hi_s)
            if hi_s[0] == "call" and hi_s[1] == "std::cmp::min" and len(hi_s[2]) == 2:
                # zip of the counters with the entry lists (one of each per player): min of the two lengths
                whole_scan = all(is_players_len(P.strip(a_)) for a_ in hi_s[2]) and \
                    {P.strip(P.strip(a_)[2][0]) for a_ in hi_s[2]} == {counters, entries}
        if not whole_scan or any(n in ("skip", "take", "step_by", "filter", "skip_while", "take_while") for n in names):
            order_problems.append("the scan for a player with room does not cover every player (0..number of players): a player's "
                                  "remaining combos are never dealt")
        # the hit leaves the loop at once
        hit_edges = [(b_, l_) for (b_, l_, c_, k_) in adv]
        for (b_, l_) in hit_edges:
            tgt = [t_ for l2, t_ in fn.cfg.succ_edges[b_] if l2 == l_][0]
            r_ = I.reachable_avoiding(fn, [], start=tgt, removed_blocks=[])
            back = [t_ for (t_, h_) in fn.cfg.back_edges() if h_ == lp.header]
            r2 = I.reachable_avoiding(fn, [], start=tgt, removed_blocks=[lp.exit_block])
            if any(t_ in r2 for t_ in back) and lp.header in I.reachable_avoiding(fn, [], start=tgt, removed_blocks=[x for x in fn.cfg.reachable if x not in lp.body]):
                # the true edge can come back to the header inside the loop: no break
                order_problems.append("the scan continues after finding a player with room (an earlier player would be advanced instead)")
    # resets cover exactly the later players: Range(chosen + 1, len)
    reset_loops = []
    for sf in {id(x[2]): x[2] for x in resets}.values():
        reset_loops += [lp2 for lp2 in L.for_loops(sf, pr if sf is fn else P.Prov(sf)) if any(sb in lp2.body for (sb, v, f3) in resets if f3 is sf)]
    for lp2 in reset_loops:
        src2, chain2 = lp2.chain()
        s2 = P.strip(src2)
        if s2[0] == "agg" and s2[1].endswith("Range::Range"):
            lo, hi = s2[2]
            lo_ok = lo[0] == "bin" and lo[1] == "Add" and P.const_int(lo[3]) == 1
            hi_s = P.strip(hi)
            hi_ok = hi_s[0] == "call" and hi_s[1].rsplit("::", 1)[-1] == "len" and P.strip(hi_s[2][0]) == counters
            if not (lo_ok and hi_ok):
                order_problems.append(f"later counters are reset over {P.show(s2)[:60]}, not over (advanced player + 1)..len")
    # (positive) after a counter is advanced, every later counter is reset on every path to a return:
    # `for i in (x + 1)..len { c[i] = 0 }` or `c[x + 1..].fill(0)`, x being the advanced index
    for (sf, sb, X) in inc_sites:
        spr = pr if sf is fn else P.Prov(sf)
        suffix = []
        for lp2 in L.for_loops(sf, spr):
            s2 = P.strip(lp2.chain()[0])
            if s2[0] == "agg" and s2[1].endswith("Range::Range") and [c_.rsplit("::", 1)[-1] for c_ in lp2.chain()[1]] in ([], ["into_iter"]):
                lo, hi = s2[2]
                hi_s = P.strip(hi)
                if lo[0] == "bin" and lo[1] == "Add" and P.const_int(lo[3]) == 1 and (X is None or P.strip(lo[2]) == X) and \
                        hi_s[0] == "call" and hi_s[1].rsplit("::", 1)[-1] == "len" and P.strip(hi_s[2][0]) == counters:
                    zero_stores = [b_ for (b_, v_, f3) in resets if f3 is sf and b_ in lp2.body and v_ == 0]
                    if zero_stores and all(L.in_every_iteration(sf, lp2, b_) for b_ in zero_stores) and not early_exit_blocks(sf, lp2):
                        suffix.append(lp2.header)
        for (f3, bi, recv) in fill_sites:
            if f3 is not sf:
                continue
            # <[usize]>::fill(index_mut(counters, RangeFrom { start: x + 1 }), 0)
            r_ = recv
            if r_[0] == "call" and r_[1].endswith("::index_mut") and len(r_[2]) == 2 and P.strip(r_[2][0]) == counters:
                rg = P.strip(r_[2][1], calls=False)
                if rg[0] == "agg" and rg[1].endswith("RangeFrom::RangeFrom") and len(rg[2]) == 1:
                    st_ = P.strip(rg[2][0])
                    if st_[0] == "bin" and st_[1] == "Add" and P.const_int(st_[3]) == 1 and (X is None or P.strip(st_[2]) == X):
                        if P.const_int(spr.operand(sf.blocks[bi]["term"]["args"][1])) == 0:
                            suffix.append(bi)
        r_ = I.reachable_avoiding(sf, [], start=sb, removed_blocks=suffix)
        if any(rb in r_ for rb in sf.cfg.return_blocks()):
            order_problems.append("after a player's counter is advanced the later players' counters are not all reset to 0 "
                                  "(`for i in advanced + 1..len` / `[advanced + 1..].fill(0)` on every path)")
    # (positive) whenever the (turn, river) position is advanced, all counters restart from 0 on every path to a return
    try:
        plumb_ = M.plumbing()
        pos_fields = {plumb_["turn_from"][1], plumb_["river_from"][1]}
    except Exception:
        pos_fields = set()
    for sf in (store_fns or [fn]):
        if sf is not fn and not any(f3 is sf for (f3, _b, _x) in inc_sites):
            continue
        spr = pr if sf is fn else P.Prov(sf)
        whole = []
        for (f3, bi, recv) in fill_sites:
            if f3 is sf and (P.strip(recv) == counters or P.strip(recv, calls=False) == counters) and \
                    P.const_int(spr.operand(sf.blocks[bi]["term"]["args"][1])) == 0:
                whole.append(bi)
        for lp2 in L.for_loops(sf, spr):
            s2 = P.strip(lp2.chain()[0])
            if s2[0] == "agg" and s2[1].endswith("Range::Range") and P.const_int(s2[2][0]) == 0:
                hi_s = P.strip(s2[2][1])
                if hi_s[0] == "call" and hi_s[1].rsplit("::", 1)[-1] == "len" and P.strip(hi_s[2][0]) == counters:
                    zs = [b_ for (b_, v_, f3) in resets if f3 is sf and b_ in lp2.body and v_ == 0]
                    if zs and all(L.in_every_iteration(sf, lp2, b_) for b_ in zs) and not early_exit_blocks(sf, lp2):
                        whole.append(lp2.header)
        pos_stores = []
        for l, lst in spr.stores.items():
            for (sb, si, pl, rv) in lst:
                pj = pl["proj"]
                if pl["l"] == 1 and len(pj) == 2 and pj[0] == "deref" and isinstance(pj[1], dict) and pj[1].get("f") in pos_fields:
                    pos_stores.append(sb)
        # a deal advances either one player's counter or the position, never both
        for (f3, ib, _x) in inc_sites:
            if f3 is sf:
                r2_ = I.reachable_avoiding(sf, [], start=ib)
                if any(sb in r2_ for sb in pos_stores) or any(w_ in r2_ for w_ in whole):
                    order_problems.append("after a player's counter is advanced the (turn, river) position is advanced or all counters "
                                          "are reset in the same deal: the remaining combos of that board are skipped")
                    break
        # the position moves on only after the scan found NO player with room: the scan dominates every position store, and when
        # the scan's outcome is carried in an Option (Some(player) at a hit) the stores sit behind its None outcome
        if sf is fn and len(scan_loops) == 1:
            lp_s = scan_loops[0]
            for sb in pos_stores:
                if not sf.cfg.dominates(lp_s.header, sb):
                    order_problems.append("the (turn, river) position can be advanced without the scan for a player with room having run: "
                                          "the remaining combos of that board are skipped")
                    break
            hit_locals = []
            for l_, ds_ in spr.defs.items():
                if len(ds_) >= 2 and fn.local_ty(l_) == "std::option::Option<usize>":
                    alts_ = P.alts(spr.local(l_))
                    if any(a_[0] == "agg" and a_[1].endswith("Option::Some") for a_ in alts_) and \
                            any(sf.cfg.dominates(lp_s.header, db_) for (db_, _si, _k, _p) in ds_):
                        hit_locals.append(l_)
            if len(hit_locals) == 1 and pos_stores:
                ht_ = spr.local(hit_locals[0])
                none_edges = [(b_, l_) for (b_, l_, st_) in I.option_edges(sf, spr, lambda t_: P.strip(t_) == ht_ or t_ == ht_) if st_ == "none"]
                if none_edges and not all(I.guarded_by(sf, sb, none_edges) for sb in pos_stores):
                    order_problems.append("the (turn, river) position can be advanced although the scan found a player with room: "
                                          "the remaining combos of that board are skipped")
        for sb in pos_stores:
            r_ = I.reachable_avoiding(sf, [], start=sb, removed_blocks=whole)
            dominated = any(sf.cfg.dominates(w_, sb) for w_ in whole)   # `fill(0)` written before the position update
            if any(rb in r_ for rb in sf.cfg.return_blocks()) and not dominated:
                order_problems.append("the (turn, river) position is advanced without restarting every player's counter from 0 "
                                      "(`counters.fill(0)` on every path): the first combos of the next board are skipped")
                break
    if order_problems:
        ctx.violation(rule, f"{fn.path}|odometer-order", "; ".join(order_problems) + ": combos of some players are skipped or repeated",
                      fn=fn.path, file=fn.file, line=fn.blocks[adv[0][0]]["line"], construct="odometer scan / reset")
        return
    ctx.ok(rule, {"bound": "idx + 1 < len", "increments": len(incs), "resets": len(resets), "scan": "last player first, stop at first hit",
                  "reset_range": "(advanced + 1)..len"}, sample=True)


def early_exit_blocks(fn, lp):
    from rules import runpass
    return runpass.early_exits(fn, lp)


def rule_odometer_any(ctx, M, deal):
    """the odometer may live in the deal function or in a helper taking `&mut self` that it (or next) calls"""
    cands = [deal] + [M.F.fns[p] for p in sorted(M.cg.reach([M.next.path]))
                      if p != deal.path and M.F.fns[p].arg_count >= 1 and M.F.fns[p].local_ty(1) in ("&mut " + M.iter_ty, "&" + M.iter_ty)]
    last = None
    for f_ in cands:
        try:
            return rule_odometer(ctx, M, f_, P.Prov(f_), store_fns=cands)
        except Unrecognised as e:
            last = e
            if "no comparison of a player's counter" not in e.msg:
                raise
    raise last


def rule_ctor(ctx, M):
    """the iterator starts from complete data: every (combo, weight) entry of every player's range is
    copied into that player's entry list, and the board comes from the evaluator's own board."""
    rule = "C02.R-entries-complete"
    ctx.rule(rule, "the iterator copies every (combo, weight) of every range into the player's entry list, unconditionally; its board is the evaluator's board")
    fn = M.ctor
    pr = P.Prov(fn)
    fl = L.for_loops(fn, pr)
    ev = F_evaluator_fields(M)
    players_field, board_field = ev
    # outer loop over evaluator.players (enumerate), inner loop over card_pairs(player)
    outer = [lp for lp in fl if P.strip(lp.chain()[0]) == ("field", ("deref", ("param", 1)), players_field)
             or P.strip(lp.chain()[0]) == ("field", ("param", 1), players_field)]
    problems = []
    if len(outer) != 1:
        raise U(rule, "no single loop over the evaluator's players in the iterator constructor", fn)
    outer = outer[0]
    onames = [c.rsplit("::", 1)[-1] for c in outer.chain()[1]]
    if any(n in ("skip", "take", "filter", "rev", "step_by", "filter_map", "take_while", "skip_while") for n in onames):
        problems.append(f"the player loop goes through {onames}")
    pos = ("field", outer.item_term, 0) if "enumerate" in onames else None
    player = ("field", outer.item_term, 1) if "enumerate" in onames else outer.item_term
    inner = [lp for lp in fl if lp is not outer and lp.header in outer.body]
    inner_ok = None
    for lp in inner:
        src, chain = lp.chain()
        so = P.strip(src, calls=False)
        base = so
        if so[0] == "call" and so[1] in M.F.fns and I.getter_field(M.F.fns[so[1]]) is not None and len(so[2]) == 1:
            base = P.strip(so[2][0])
        if base == P.strip(player) or base == player:
            inner_ok = lp
            inames = [c.rsplit("::", 1)[-1] for c in chain]
            if any(n in ("skip", "take", "filter", "rev", "step_by", "filter_map", "take_while", "skip_while") for n in inames):
                problems.append(f"the entry loop goes through {inames}")
    if inner_ok is None:
        raise U(rule, "no loop over a player's (combo, weight) map inside the player loop", fn)
    pushes = [(bi, t) for bi, t in fn.calls() if t["callee"].get("name") == "push" and bi in inner_ok.body]
    if len(pushes) != 1:
        problems.append(f"{len(pushes)} pushes in the entry loop")
    else:
        bi, t = pushes[0]
        if not L.in_every_iteration(fn, inner_ok, bi):
            # a filter is acceptable only if it looks at the combo's cards and the evaluator's board alone (pruning combos that
            # collide with the flop cannot change the set of deals); anything involving the weight or other data drops legal deals
            item = inner_ok.item_term
            weight_t, combo_t = ("field", item, 1), ("field", item, 0)
            bad_cond = None
            seen_cond = False
            for b2, lab2, truth2, term2 in I.bool_edges(fn, pr):
                if b2 not in inner_ok.body or not fn.cfg.edge_dominates(b2, lab2, bi):
                    continue
                seen_cond = True
                subs = list(P.walk(term2))
                mentions_weight = any(x == weight_t for x in subs)
                mentions_combo = any(x == combo_t for x in subs)
                # other data the condition looks at: fields of the evaluator outside the item's own provenance
                inside_item = {id(y) for x in subs if x == item for y in P.walk(x)}
                roots_ok = all((x[2] == board_field) for x in subs
                               if x[0] == "field" and P.strip(x[1]) == ("param", 1) and id(x) not in inside_item)
                if mentions_weight or not mentions_combo or not roots_ok:
                    bad_cond = P.show(term2)[:100]
            if bad_cond or not seen_cond:
                problems.append("the push of an entry is conditional" + (f" on `{bad_cond}`" if bad_cond else "") +
                                ": some (combo, weight) entries of a range never reach the enumeration (deals using them are missing)")
        val = P.strip(pr.operand(t["args"][1]))
        item = inner_ok.item_term
        want = ("agg", "tuple", (("deref", ("field", item, 0)), ("deref", ("field", item, 1))))
        if not (val[0] == "agg" and val[1] == "tuple" and len(val[2]) == 2 and
                P.strip(val[2][0]) == ("field", item, 0) and P.strip(val[2][1]) == ("field", item, 1)):
            problems.append(f"the pushed entry is not the range's own (combo, weight): {P.show(val)[:80]}")
        dst = P.strip(pr.operand(t["args"][0]), calls=False)
        if pos is not None and not (dst[0] == "call" and dst[1].endswith("::index_mut") and P.strip(dst[2][1]) == pos):
            problems.append("entries are not pushed into the list of the player being iterated")
    # after collection the entry lists are only read: no retain / remove / truncate / drain / clear … anywhere
    shrink = ("retain", "retain_mut", "remove", "swap_remove", "truncate", "drain", "clear", "pop", "dedup", "dedup_by", "dedup_by_key",
              "split_off", "resize", "sort", "sort_by", "sort_unstable", "sort_by_key", "reverse", "rotate_left", "rotate_right", "swap")
    entry_ty = M.entry_vec_ty
    for p_ in sorted(set(M.reach)):
        g = M.F.fns[p_]
        for bi2, t2 in g.calls():
            nm = t2["callee"].get("name")
            if nm in shrink and t2["args"]:
                rty = g.local_ty((t2["args"][0].get("move") or t2["args"][0].get("copy") or {"l": 0})["l"])
                if entry_ty in rty or f"[({evalmodel.CARD_PAIR}, f32" in rty:
                    problems.append(f"{p_} calls `{nm}` on a player's entry list: entries are dropped or reordered after they were collected "
                                    f"(deals using them go missing or repeat)")
    # board: iterator.board <- evaluator.board
    ret = pr.local(0)
    if ret[0] == "agg" and ret[1].startswith("adt:" + M.iter_ty):
        b = ret[2][M.f_board]
        bs = P.strip(b)
        ev_board = (("field", ("deref", ("param", 1)), board_field), ("field", ("param", 1), board_field))
        flop_copy = bs[0] == "agg" and bs[1] == "array" and len(bs[2]) in (3, 5) and \
            all(P.strip(e_)[0] in ("index", "cindex") and P.strip(P.strip(e_)[1]) in ev_board and
                (P.const_int(P.strip(e_)[2]) if P.strip(e_)[0] == "index" else P.strip(e_)[2]) == k_ for k_, e_ in enumerate(bs[2]))
        if not (bs in ev_board or flop_copy):
            problems.append(f"the iterator's board is {P.show(b)[:80]}, not the evaluator's board as given")
        # .. and the copy is not touched between being taken and being stored (flow-insensitive provenance would not see
        # a `sort` through `&mut board[..3]`): no mutable borrow of, or store into, the local that becomes the board field
        for bi_, blk_ in enumerate(fn.blocks):
            if bi_ not in fn.cfg.reachable:
                continue
            for s_ in blk_["stmts"]:
                if s_["k"] != "assign" or not ("agg" in s_["rv"] and isinstance(s_["rv"]["agg"], dict) and s_["rv"]["agg"].get("adt") == M.iter_ty):
                    continue
                op_ = s_["rv"]["ops"][M.f_board]
                pl_ = op_.get("move") or op_.get("copy")
                roots = set()
                while pl_ and not pl_["proj"] and pl_["l"] not in roots:
                    roots.add(pl_["l"])
                    ds_ = pr.defs.get(pl_["l"], [])
                    nxt_ = None
                    if len(ds_) == 1 and ds_[0][2] == "rv" and "use" in ds_[0][3]:
                        nxt_ = ds_[0][3]["use"].get("move") or ds_[0][3]["use"].get("copy")
                    pl_ = nxt_
                for b2_, blk2_ in enumerate(fn.blocks):
                    if b2_ not in fn.cfg.reachable:
                        continue
                    for s2_ in blk2_["stmts"]:
                        if s2_["k"] != "assign":
                            continue
                        rv2 = s2_["rv"]
                        if ("ref" in rv2 and rv2.get("mut") and rv2["ref"]["l"] in roots) or \
                                ("rawptr" in rv2 and rv2["rawptr"]["l"] in roots) or \
                                (s2_["place"]["l"] in roots and s2_["place"]["proj"]):
                            problems.append("the iterator's copy of the board is modified (mutably borrowed or written) before it is "
                                            "stored: the flop is no longer carried in the given order")
                            break
    else:
        raise U(rule, "the iterator is not built by a struct literal", fn)
    if problems:
        ctx.violation(rule, f"{fn.path}|{problems[0].split(':')[0].replace(' ', '-')[:50]}", "; ".join(problems), fn=fn.path, file=fn.file, line=fn.line,
                      construct="iterator construction")
    else:
        ctx.ok(rule, {"fn": fn.path, "entries": "for every player, for every (combo, weight): push", "board": "evaluator.board"}, sample=True)
    # and new() stores the caller's board / players (clones)
    pn = P.Prov(M.new)
    t = pn.local(0)
    okn = t[0] == "agg" and t[1].startswith("adt:" + evalmodel.EVAL) and P.strip(t[2][board_field]) == ("param", 1) \
        and P.strip(t[2][players_field]) == ("param", 2)
    if okn:
        ctx.ok(rule, "new(board, players) stores clones of exactly its two arguments")
    else:
        ctx.violation(rule, f"{M.new.path}|stored-inputs", "new() does not store (a clone of) the board and the players it was given",
                      fn=M.new.path, file=M.new.file, line=M.new.line)


def rule_deck(ctx, M):
    """the deck the turn and river are drawn from = every card (all ranks x all suits) that is not on the evaluator's board"""
    rule = "C02.R-deck"
    ctx.rule(rule, "the deck receives Card::new(rank, suit) for every rank x suit exactly when that card is not on the evaluator's board")
    fn = M.ctor
    pr = P.Prov(fn)
    F = M.F
    players_field, board_field = F_evaluator_fields(M)
    ret = pr.local(0)
    if not (ret[0] == "agg" and ret[1].startswith("adt:" + M.iter_ty)):
        raise U(rule, "the iterator is not built by a struct literal", fn)
    deck_t = ret[2][M.f_deck]
    pushes = [(bi, t) for bi, t in fn.calls() if bi in fn.cfg.reachable and t["callee"].get("name") == "push"
              and fn.local_ty((t["args"][0].get("move") or t["args"][0].get("copy"))["l"]) == f"&mut std::vec::Vec<{evalmodel.CARD}>"]
    if len(pushes) != 1:
        raise U(rule, f"{len(pushes)} pushes into a Vec<Card> in the iterator constructor (expected the one filling the deck)", fn)
    pb, pt = pushes[0]
    recv = P.strip(pr.operand(pt["args"][0]))
    problems = []
    if not any(sub == recv for sub in P.walk(deck_t)):
        problems.append("the vector being filled is not the one stored as the deck")
    card = P.strip(pr.operand(pt["args"][1]))
    fl = L.for_loops(fn, pr)
    encl = sorted([lp for lp in fl if pb in lp.body], key=lambda lp: -len(lp.body))
    ok_card = False
    if card[0] == "call" and card[1] == evalmodel.CARD + "::new" and len(card[2]) == 2 and len(encl) == 2:
        r_t, s_t = P.strip(card[2][0]), P.strip(card[2][1])
        by_item = {P.strip(lp.item_term): lp for lp in encl}
        lr, ls = by_item.get(r_t), by_item.get(s_t)
        if lr is not None and ls is not None and lr is not ls:
            def whole(lp, ctor_path):
                src, chain = lp.chain()
                s_ = P.strip(src, calls=False)
                return s_[0] == "call" and s_[1] == ctor_path and all(c.rsplit("::", 1)[-1] == "into_iter" for c in chain)
            ok_card = whole(lr, "card::rank_range::RankRange::all") and whole(ls, "card::suit_range::SuitRange::all")
            from rules import runpass
            if runpass.early_exits(fn, lr) or runpass.early_exits(fn, ls):
                problems.append("the rank x suit loops can stop early: cards are missing from the deck")
    if not ok_card:
        problems.append("the pushed card is not Card::new(rank, suit) for rank in RankRange::all() and suit in SuitRange::all()")
    # the guard: `card is not on the board`
    board_terms = (("field", ("deref", ("param", 1)), board_field), ("field", ("param", 1), board_field))

    def is_board(t_):
        s_ = P.strip(t_)
        while s_[0] == "cast":
            s_ = P.strip(s_[2])
        return s_ in board_terms

    def closure_fn(c_):
        c_ = P.strip(c_, calls=False)
        if c_[0] == "agg" and c_[1].startswith("closure:"):
            g_ = F.fns.get(c_[1][len("closure:"):])
            if g_ is not None and not g_.cfg.has_loops() and not any(b_["term"]["k"] == "switch" for i_, b_ in enumerate(g_.blocks) if i_ in g_.cfg.reachable):
                return c_, g_
        return None, None

    def captured(c_, t_):
        t_ = P.strip(t_)
        if t_[0] == "field" and P.strip(t_[1]) == ("param", 1) and t_[2] < len(c_[2]):
            return P.strip(c_[2][t_[2]])
        return None
    guard_edges = []
    for b, lab, truth, term in I.bool_edges(fn, pr):
        tt, tr = term, truth
        while tt[0] == "un" and tt[1] == "Not":
            tt, tr = tt[2], not tr
        if tt[0] != "call":
            continue
        nm = tt[1].rsplit("::", 1)[-1]
        if nm == "contains" and len(tt[2]) == 2 and is_board(tt[2][0]) and not tr:
            # !board.contains(&Some(card))
            a_ = P.strip(tt[2][1])
            if a_[0] == "agg" and a_[1].endswith("Option::Some") and P.strip(a_[2][0]) == card:
                guard_edges.append((b, lab))
        if nm == "all" and len(tt[2]) == 2 and tr:
            src_, chain_ = L.iterator_chain(tt[2][0])
            names_ = [c_.rsplit("::", 1)[-1] for c_ in chain_]
            clo, g_ = closure_fn(tt[2][1])
            if not is_board(src_) or g_ is None:
                continue
            mode = None
            if [n_ for n_ in names_ if n_ not in ("iter", "into_iter")] == ["flatten"]:
                mode = "card"
            elif [n_ for n_ in names_ if n_ not in ("iter", "into_iter")] == ["filter"]:
                # filter(|c| c.is_some())
                flt = [s_ for s_ in P.walk(tt[2][0]) if s_[0] == "call" and s_[1].rsplit("::", 1)[-1] == "filter"]
                c2, g2 = closure_fn(flt[0][2][1]) if flt else (None, None)
                if g2 is not None:
                    r2 = P.strip(P.Prov(g2).local(0), calls=False)
                    if r2[0] == "call" and r2[1].rsplit("::", 1)[-1] == "is_some" and P.strip(r2[2][0]) == ("param", 2):
                        mode = "some"
            elif not [n_ for n_ in names_ if n_ not in ("iter", "into_iter")]:
                mode = "option"
            if mode is None:
                continue
            rel = I.norm_rel(P.Prov(g_).local(0), True)
            if rel is None or rel[0] != "Ne":
                continue
            okc = False
            for (u, v) in ((rel[1], rel[2]), (rel[2], rel[1])):
                cap = captured(clo, v)
                us = P.strip(u)
                if mode == "card" and us == ("param", 2) and cap == card:
                    okc = True
                if mode == "some" and us[0] == "call" and us[1].rsplit("::", 1)[-1] in ("unwrap", "expect") and P.strip(us[2][0]) == ("param", 2) and cap == card:
                    okc = True
                if mode == "option" and us == ("param", 2):
                    vs = P.strip(v)
                    if vs[0] == "agg" and vs[1].endswith("Option::Some") and captured(clo, vs[2][0]) == card:
                        okc = True
            if okc:
                guard_edges.append((b, lab))
    if len(encl) == 2:
        inner = encl[-1]
        if not guard_edges or not I.guarded_by(fn, pb, guard_edges, start=inner.header):
            problems.append("the card is pushed without the test `not on the evaluator's board` (flop cards stay in the deck, or the "
                            "test looks at something else)")
        for (b, lab) in guard_edges:
            tgt = [t_ for l_, t_ in fn.cfg.succ_edges[b] if l_ == lab][0]
            tails = [t_ for (t_, h_) in fn.cfg.back_edges() if h_ == inner.header]
            r_ = I.reachable_avoiding(fn, [], start=tgt, removed_blocks=[pb])
            if any(t_ in r_ for t_ in tails):
                problems.append("a card that is not on the board is not always pushed: the deck misses cards")
                break
    if problems:
        ctx.violation(rule, f"{fn.path}|deck|{problems[0].split(':')[0].replace(' ', '-')[:50]}", "; ".join(problems[:3]), fn=fn.path,
                      file=fn.file, line=fn.blocks[pb]["line"], construct="deck construction")
    else:
        ctx.ok(rule, {"deck": "for rank in all, suit in all: push Card::new(rank, suit) iff not on evaluator.board", "stored_as": "iterator.deck"},
               sample=True)


def F_evaluator_fields(M):
    fs = M.eval_adt["variants"][0]["fields"]
    players = [i for i, f in enumerate(fs) if evalmodel.HAND_RANGE in f["ty"]]
    board = [i for i, f in enumerate(fs) if f["ty"].startswith("[std::option::Option<" + evalmodel.CARD)]
    if len(players) != 1 or len(board) != 1:
        raise U("C02.R-entries-complete", "evaluator fields for players / board not unique")
    return players[0], board[0]


def run(ctx):
    ctx.explanation = ("static necessary conditions of exactly-once enumeration, decided on the deal function found from "
                       "the public API (the function under Iterator::next that calls Showdown::new): counter width, "
                       "used-set check ⊆ insert, weight product provenance, board order, odometer bound. The walk's "
                       "exactly-once/completeness over runtime states is NOT decided.")
    F = ctx.facts("lib")
    M = evalmodel.get(F)
    fn = M.deal
    pr = P.Prov(fn)
    ctx.analysed([fn, M.next, M.ctor])
    plumb = M.plumbing()
    turn_f, river_f = plumb["turn_from"][1], plumb["river_from"][1]
    c08.rule_narrow(ctx, M, prop="C02")
    for f in (lambda: rule_used_set(ctx, M, fn, pr, turn_f, river_f),
              lambda: rule_product_board(ctx, M, fn, pr, turn_f, river_f),
              lambda: rule_odometer_any(ctx, M, fn),
              lambda: rule_ctor(ctx, M), lambda: rule_deck(ctx, M)):
        try:
            f()
        except Unrecognised as e:
            ctx.unrecognised(e.rule, e.msg, e.fn, e.line)
    # "all 5+2n cards are distinct" also needs the flop blocked: the showdown constructor's board test (C03's rule)
    try:
        from rules import c03
        from sa.report import FilterCtx
        c03.run(FilterCtx(ctx, ["board-collision"]), prefix="C02", set_explanation=False)
    except Unrecognised as e:
        if e.rule.endswith("board-collision") or e.rule.endswith(".shape"):
            ctx.unrecognised("C02.board-collision", e.msg, e.fn, e.line)
    ctx.assume("exactly-once and completeness of the (turn, river, odometer) walk are runtime-state statements not decided here")
