"""C12 — a range splits into complete rank pairs and leftover combos (data clauses).

 1. combo tables complete and duplicate-free (so `all()` over them is a complete test)
 2. each probe combo of rank_pairs() belongs to the table of the rank pair it probes; the all() runs over that
    same rank pair's combos and compares each combo's weight with the probe's weight; the reported weight is
    the probe's weight
 3. iteration domain: 13 pockets, and (high, kicker) over Ace..Trey x next(high)..Deuce for suited and offsuit
 4. orphan_card_pairs removes from a clone exactly the combos of the reported rank pairs
Not decided: the weight-equality logic over all partial patterns (runtime values)."""
from sa import idioms as I, loops as L, prov as P
from sa.report import Unrecognised
from rules import combos

HR = "hand_range::hand_range::HandRange"
RANK_PAIR = combos.RANK_PAIR
CARD_PAIR = combos.CARD_PAIR
CARD = combos.CARD


def variant_of(t):
    s = P.strip(t)
    if s[0] == "enumc":
        return s[2]
    if s[0] == "agg" and not s[2] and s[1].startswith("adt:"):
        return s[1].rsplit("::", 1)[-1]
    return None


def capture(clo_term, k):
    return P.strip(clo_term[2][k])


def analyse_all_closure(F, clo, map_term, weight_term):
    """|cp| map.get(&cp).is_some_and(|p| p == weight)"""
    if not (clo[0] == "agg" and clo[1].startswith("closure:")):
        return "not a closure"
    fn = F.fns[clo[1][len("closure:"):]]
    pr = P.Prov(fn)
    r = pr.local(0)
    direct = None
    if r[0] == "call" and r[1].rsplit("::", 1)[-1] == "is_some_and" and len(r[2]) == 2:
        g = P.strip(r[2][0], calls=False)
    else:
        # map.get(&cp) == Some(weight)
        rel0 = I.norm_rel(r, True)
        if rel0 is None or rel0[0] != "Eq":
            return f"closure result is {P.show(r)[:60]}"
        x0, y0 = I.unopt(rel0[1]), I.unopt(rel0[2])
        if y0[0] == "call":
            x0, y0 = y0, x0
        if not (y0[0] == "agg" and y0[1] == "adt:std::option::Option::Some" and len(y0[2]) == 1):
            return f"closure result is {P.show(r)[:60]}"
        g, direct = x0, P.strip(y0[2][0])
    if not (g[0] == "call" and g[1].rsplit("::", 1)[-1] == "get" and len(g[2]) == 2 and P.strip(g[2][1]) == ("param", 2)):
        return "the closure does not look the combo up in a map"
    m = P.strip(g[2][0])
    # captured self -> .0
    ok_map = False
    if m[0] == "field" and P.strip(m[1])[0] == "field" and P.strip(P.strip(m[1])[1]) == ("param", 1):
        cap = capture(clo, P.strip(m[1])[2])
        ok_map = ("field", cap, m[2]) == map_term or ("field", ("deref", cap), m[2]) == map_term or \
            P.strip(("field", cap, m[2])) == P.strip(map_term)
    if not ok_map:
        return "the looked-up map is not the range's own map"
    if direct is not None:
        if not (direct[0] == "field" and P.strip(direct[1]) == ("param", 1)):
            return "captured weight not recognised"
        w = capture(clo, direct[2])
        if P.strip(P.narrow_variants(P.strip(w))) != P.strip(P.narrow_variants(P.strip(weight_term))):
            return "the captured weight is not the probe's weight"
        return None
    inner = r[2][1]
    if not (inner[0] == "agg" and inner[1].startswith("closure:")):
        return "is_some_and argument is not a closure"
    ifn = F.fns[inner[1][len("closure:"):]]
    ir = P.Prov(ifn).local(0)
    rel = I.norm_rel(ir, True)
    if rel is None or rel[0] != "Eq":
        return f"weights are not compared with ==: {P.show(ir)[:60]}"
    a, b = P.strip(rel[1]), P.strip(rel[2])
    sides = {"param" if x == ("param", 2) else "cap" for x in (a, b)}
    if sides != {"param", "cap"}:
        return "the comparison is not (combo's weight == captured weight)"
    capt = a if a != ("param", 2) else b
    if not (capt[0] == "field" and P.strip(capt[1]) == ("param", 1)):
        return "captured weight not recognised"
    outer_cap = P.strip(inner[2][capt[2]])
    if not (outer_cap[0] == "field" and P.strip(outer_cap[1]) == ("param", 1)):
        return "captured weight not recognised"
    w = capture(clo, outer_cap[2])
    if P.strip(P.narrow_variants(P.strip(w))) != P.strip(P.narrow_variants(P.strip(weight_term))):
        return "the captured weight is not the probe's weight"
    return None


def probe_method_members(F, g, variants, exp):
    """g: fn(&RankPair) -> CardPair.  For each variant in `variants` the combo g builds on that variant's path must be a member
    of the variant's combo table; returns a problem text or None"""
    from sa import dtree
    try:
        paths, gpr = dtree.enumerate_paths(g)
    except dtree.NotLoopFree:
        return f"{g.path} contains a loop"
    seen = {}
    for p in paths:
        if p.end != "return":
            continue
        var = None
        for (b, t, lab, ty, others) in p.conds:
            if t[0] == "discr" and P.strip(t[1]) == ("param", 1):
                if lab == "otherwise":
                    names = set(I.adt_variants(F, RANK_PAIR)) - {I.variant_by_discr(F, RANK_PAIR, v) for v in others}
                    var = names.pop() if len(names) == 1 else None
                else:
                    var = I.variant_by_discr(F, RANK_PAIR, lab)
            else:
                return f"{g.path} branches on something that is not the rank pair's variant"
        if var is None:
            return f"{g.path}: a path is not selected by the rank pair's variant"
        r = P.strip(dtree.PathProv(g, p).local(0))
        if not (r[0] == "call" and r[1] == CARD_PAIR + "::new" and len(r[2]) == 2):
            return f"{g.path} does not return CardPair::new(..)"
        cards = []
        for c in r[2]:
            c = P.strip(c)
            if not (c[0] == "call" and c[1] == CARD + "::new" and len(c[2]) == 2):
                return f"{g.path}: a card of the probe is not Card::new(rank, suit)"
            rk = P.strip(c[2][0])
            if not (rk[0] == "field" and rk[1][0] == "variant" and P.strip(rk[1][1]) == ("param", 1) and rk[1][2] == var):
                return f"{g.path}: a rank of the probe is not a field of the {var} variant"
            cards.append((rk[2], variant_of(c[2][1])))
        seen[var] = tuple(cards)
    for v in variants:
        combo = seen.get(v)
        table = exp[v]
        if combo is None:
            return f"{g.path} has no path for {v}"
        member = combo in table or (v == "Pocket" and tuple(sorted(combo, key=str)) in [tuple(sorted(x, key=str)) for x in table])
        if not member:
            return f"probe combo {combo} built by {g.path} is not one of the {len(table)} combos of {v}"
    return None


def run(ctx):
    ctx.explanation = ("static data clauses: the 6/4/12 combo tables are complete and duplicate-free; every probe combo is a member "
                       "of the table of the rank pair it probes and the all() that follows ranges over that same rank pair and "
                       "compares with the probe's weight; loops cover all 13 + 78 + 78 rank pairs; the leftover view removes "
                       "exactly the combos of the reported pairs from a clone. The weight logic over partial patterns is NOT decided.")
    F = ctx.facts("lib")
    try:
        tables = combos.check(ctx, F, "C12.combo-tables")
    except Unrecognised as e:
        ctx.unrecognised("C12.combo-tables", e.msg, e.fn, e.line)
        tables = None
    exp = combos.expected()
    fn = F.fn(HR + "::rank_pairs")
    pr = P.Prov(fn)
    ctx.analysed([fn])
    fl = L.for_loops(fn, pr)
    rule = "C12.probes"
    ctx.rule(rule, "each reported rank pair: probe combo in its table, all() over that pair's combos against the probe's weight, probe's weight reported")
    rule_d = "C12.domain"
    ctx.rule(rule_d, "rank_pairs() visits all 13 pockets and every (high, kicker) with Ace <= high <= Trey, next(high) <= kicker <= Deuce for suited and offsuit")
    map_term = ("field", ("deref", ("param", 1)), 0)
    inserts = [(bi, t) for bi, t in fn.calls() if t["callee"].get("name") == "insert" and bi in fn.cfg.reachable
               and I.callee_path(t).startswith("std::collections::HashMap")]
    seen_variants = {}
    unread_keys = False
    for bi, t in inserts:
        key = P.strip(pr.operand(t["args"][1]))
        val = P.strip(P.narrow_variants(pr.operand(t["args"][2])))
        # the key is a rank pair literal, or the item of a loop over a literal array of them (`for rp in [Suited(h, k),
        # Ofsuit(h, k)]`): every guard below is then established for the symbolic item, i.e. for each element alike
        case_loop = None
        if key[0] == "agg" and key[1].startswith("adt:" + RANK_PAIR + "::"):
            elems = [key]
        else:
            elems = None
            for lp in fl:
                if bi in lp.body and any(x == lp.item_term for x in P.walk(key)):
                    src_, chain_ = lp.chain()
                    src_ = P.strip(src_, calls=False)
                    if src_[0] == "agg" and src_[1] == "array" and len(chain_) == 1 and chain_[0].rsplit("::", 1)[-1] == "into_iter":
                        # the key of each case: the item (or a component of it) with the array element put in its place
                        es = [P.strip(P.subst(key, lp.item_term, e)) for e in src_[2]]
                        if es and all(e[0] == "agg" and e[1].startswith("adt:" + RANK_PAIR + "::") for e in es):
                            elems, case_loop, case_items = es, lp, list(src_[2])
        if elems is None:
            unread_keys = True
            ctx.violation(rule, f"{fn.path}|insert-key", f"fail closed: the inserted key is not a rank pair literal RankPair::V(..) the rule can read: {P.show(key)[:60]}",
                          fn=fn.path, file=fn.file, line=fn.blocks[bi]["line"], construct="unrecognised shape of the reported rank pair")
            continue
        V = "/".join(e[1].rsplit("::", 1)[-1] for e in elems)
        ranks = [P.strip(o) for o in elems[0][2]]
        problems = []
        # guards: the probe combo is present (contains_key(map, &probe), or get(map, &probe) tested for Some) and
        # all(into_iter(key), closure) holds
        def is_get(t_):
            g_ = P.strip(t_, calls=False)
            return g_[0] == "call" and g_[1].rsplit("::", 1)[-1] == "get" and len(g_[2]) == 2 and P.strip(g_[2][0]) == map_term
        present = {}   # probe term -> edges on which it is known present
        absent = {}    # probe term -> edges on which it is known absent
        all_groups = {}
        all_false = {}
        for b, lab, truth, term in I.bool_edges(fn, pr):
            if term[0] != "call":
                continue
            nm = term[1].rsplit("::", 1)[-1]
            if nm == "contains_key" and P.strip(term[2][0]) == map_term:
                (present if truth else absent).setdefault(P.strip(term[2][1]), []).append((b, lab))
            if nm == "all":
                (all_groups if truth else all_false).setdefault(term, []).append((b, lab))
        for gb, gt in fn.calls():
            if gb not in fn.cfg.reachable or gt["callee"].get("name") != "get":
                continue
            gterm = pr.call_term(gt, gb)
            if not is_get(gterm):
                continue
            for (b, lab, st) in I.option_edges(fn, pr, lambda t_, g_=gterm: I.unopt(t_) == g_):
                if st == "some":
                    present.setdefault(P.strip(gterm[2][1]), []).append((b, lab))
                else:
                    absent.setdefault(P.strip(gterm[2][1]), []).append((b, lab))
        probe = None
        for cand, edges in present.items():
            if I.guarded_by(fn, bi, edges):
                probe = cand
        all_call = None
        for term, edges in all_groups.items():
            if I.guarded_by(fn, bi, edges):
                all_call = term
        if probe is None:
            problems.append("no contains_key(probe) guard")
        if all_call is None:
            problems.append("no all(..) guard")
        weight = None
        if probe is not None:
            # value = *unwrap(get(map, &probe)) or the payload of `if let Some(w) = get(map, &probe)` / `get(..)?`
            g = I.option_payload(val)
            if g is not None:
                g = I.unopt(g)
                if is_get(g) and P.strip(g[2][1]) == probe:
                    weight = val
            if weight is None:
                problems.append(f"the reported weight is not the probe combo's weight: {P.show(val)[:60]}")
            # probe membership
            nprobe = P.strip(P.narrow_deep(probe))
            own_first = (nprobe[0] == "field" and nprobe[1][0] == "variant" and nprobe[1][2] == "Some" and nprobe[1][1][0] == "call"
                         and (nprobe[1][1][1].endswith("::next") or nprobe[1][1][1] == "core::slice::<impl [T]>::first")
                         and len(nprobe[1][1][2]) == 1)
            if own_first:
                it_ = P.strip(nprobe[1][1][2][0], calls=False)
                if nprobe[1][1][1] == "core::slice::<impl [T]>::first":
                    # `iter.as_slice().first()`: a peek at the first remaining combo, nothing is consumed
                    own_first = it_[0] == "call" and it_[1].endswith("IntoIter::<T, A>::as_slice") and len(it_[2]) == 1
                    if own_first:
                        it_ = P.strip(it_[2][0], calls=False)
                        nprobe = ("field", ("variant", ("call", "peek", (it_,)), "Some"), 0)
                own_first = own_first and it_[0] == "call" and it_[1] == f"<{RANK_PAIR} as std::iter::IntoIterator>::into_iter" and P.strip(it_[2][0]) == key
            if own_first:
                # the probe is the first combo of the reported pair's own iterator: a member of its table by construction.
                # Nothing else may be taken from that iterator before all() runs over it
                it_term = P.strip(nprobe[1][1][2][0], calls=False)
                takers = []
                for cb, ct in fn.calls():
                    if cb not in fn.cfg.reachable or not ct["args"]:
                        continue
                    if P.strip(pr.operand(ct["args"][0]), calls=False) == it_term and I.callee_path(ct) != it_term[1]:
                        takers.append(ct["callee"].get("name"))
                takers = [n_ for n_ in takers if n_ != "as_slice"]        # a view, takes nothing
                if sorted(takers) not in (["next"], ["all", "next"], ["all"], []):
                    problems.append(f"the pair's iterator is consumed by {sorted(takers)} before/besides the probe and all()")
            elif probe[0] == "call" and probe[1] in F.fns and probe[1] != CARD_PAIR + "::new" and len(probe[2]) == 1 and P.strip(probe[2][0]) == key \
                    and F.fns[probe[1]].local_ty(0) == CARD_PAIR:
                # the probe combo comes from a method of the rank pair (`pair.representative()`): decoded per variant arm
                why_ = probe_method_members(F, F.fns[probe[1]], [e_[1].rsplit("::", 1)[-1] for e_ in elems], exp)
                if why_:
                    problems.append(why_)
            elif not (probe[0] == "call" and probe[1] == CARD_PAIR + "::new"):
                problems.append("probe is not CardPair::new(..)")
            else:
                # one membership obligation per case (a single one for a literal key)
                for ci, e_key in enumerate(elems):
                    probe_c = probe if case_loop is None else P.strip(P.subst(probe, case_loop.item_term, case_items[ci]))
                    V_c = e_key[1].rsplit("::", 1)[-1]
                    ranks_c = [P.strip(o) for o in e_key[2]]
                    cards = []
                    for c in probe_c[2]:
                        c = P.strip(c)
                        if c[0] == "call" and c[1] == CARD + "::new":
                            rk = P.strip(c[2][0])
                            cards.append((ranks_c.index(rk) if rk in ranks_c else None, variant_of(c[2][1])))
                        else:
                            cards.append((None, None))
                    combo = tuple(cards)
                    table = exp[V_c]
                    member = combo in table or (V_c == "Pocket" and tuple(sorted(combo, key=str)) in [tuple(sorted(x, key=str)) for x in table])
                    if not member and any(None in c_ for c_ in combo):
                        problems.append(f"fail closed: the probe combo of {V_c} could not be read (not CardPair::new(Card::new(rank field, Suit::X), ..))")
                    elif not member:
                        problems.append(f"probe combo {combo} is not one of the {len(table)} combos of {V_c}")
        if all_call is not None:
            src = P.strip(all_call[2][0], calls=False)
            if not (src[0] == "call" and src[1] == f"<{RANK_PAIR} as std::iter::IntoIterator>::into_iter" and P.strip(src[2][0]) == key):
                problems.append("all() does not run over the combos of the rank pair being reported")
            elif weight is not None:
                why = analyse_all_closure(F, all_call[2][1], map_term, weight)
                if why:
                    problems.append("all() closure: " + why)
        # completeness: within one step of the scan nothing but "the probe combo is absent" or "all() failed" may keep the pair
        # from being reported (a further condition -- on the weight, say -- silently drops complete rank pairs)
        if probe is not None and all_call is not None and not problems:
            inner_loops = sorted([lp for lp in fl if bi in lp.body], key=lambda lp: len(lp.body))
            if inner_loops:
                lp0 = inner_loops[0]
                miss = list(absent.get(probe, [])) + list(all_false.get(all_call, []))
                nprobe0 = P.strip(P.narrow_deep(probe))
                if nprobe0[0] == "field" and nprobe0[1][0] == "variant" and nprobe0[1][1][0] == "call":
                    # `first()?` / `next()?` of the pair's own (never empty) iterator
                    first_call = nprobe0[1][1]
                    for (b_, lab_, st_) in I.option_edges(fn, pr, lambda t_, g_=first_call: P.strip(P.narrow_deep(P.strip(t_, calls=False)), calls=False) == g_
                                                          or P.strip(t_, calls=False) == g_):
                        if st_ == "none":
                            miss.append((b_, lab_))
                tails = [t_ for (t_, h_) in fn.cfg.back_edges() if h_ == lp0.header]
                reach_ = I.reachable_avoiding(fn, miss, start=lp0.some_block, removed_blocks=[bi, lp0.header])
                if any(t_ in reach_ for t_ in tails):
                    problems.append("a step of the scan can end without reporting the pair although its probe combo is present and all() "
                                    "holds: some complete rank pairs are silently left out")
        if problems:
            ctx.violation(rule, f"{fn.path}|{V}", f"{V}: " + "; ".join(problems), fn=fn.path, file=fn.file, line=fn.blocks[bi]["line"],
                          construct=f"reporting of RankPair::{V}")
        else:
            ctx.ok(rule, {"variant": V, "probe": "member of its table", "all": "over the same pair, == probe weight", "reported": "probe weight"}, sample=True)
        # domain
        loops_here = sorted([lp for lp in fl if bi in lp.body and lp is not case_loop], key=lambda lp: len(lp.body), reverse=True)

        def range_of(lp):
            t_ = P.strip(lp.iter_term, calls=False)
            for _ in range(6):
                if t_[0] == "call" and t_[1].startswith("card::rank_range::RankRange::"):
                    return t_
                if t_[0] == "call" and t_[2]:
                    t_ = P.strip(t_[2][0], calls=False)
                elif t_[0] == "phi":
                    alts = [a for a in P.alts(t_) if a[0] != "self"]
                    if len(alts) != 1:
                        return None
                    t_ = P.strip(alts[0], calls=False)
                else:
                    return None
            return None
        dom_ok = False
        Vs = [e[1].rsplit("::", 1)[-1] for e in elems]
        if any([P.strip(o) for o in e[2]] != ranks for e in elems):
            dom_ok = False
        elif Vs == ["Pocket"] and len(loops_here) == 1:
            r = range_of(loops_here[0])
            dom_ok = r is not None and r[1].endswith("::all") and ranks == [P.strip(loops_here[0].item_term)]
        elif all(v in ("Suited", "Ofsuit") for v in Vs) and len(loops_here) == 2:
            ro, ri = range_of(loops_here[0]), range_of(loops_here[1])
            ho, ki = P.strip(loops_here[0].item_term), P.strip(loops_here[1].item_term)
            if ro is not None and ri is not None and ro[1].endswith("::inclusive") and ri[1].endswith("::inclusive"):
                a0, b0 = variant_of(ro[2][0]), variant_of(ro[2][1])
                s1 = P.strip(ri[2][0])
                nxt = s1[0] == "call" and s1[1].rsplit("::", 1)[-1] in ("unwrap", "expect") and P.strip(s1[2][0])[0] == "call" and \
                    P.strip(s1[2][0])[1] == "card::rank::Rank::next" and P.strip(P.strip(s1[2][0])[2][0]) == ho
                dom_ok = (a0, b0) == ("Ace", "Trey") and nxt and variant_of(ri[2][1]) == "Deuce" and ranks == [ho, ki]
        if dom_ok:
            ctx.ok(rule_d, {"variant": V, "domain": "all()" if V == "Pocket" else "inclusive(Ace,Trey) x inclusive(next(high),Deuce)"}, sample=True)
        else:
            ctx.violation(rule_d, f"{fn.path}|{V}-domain", f"the loops around the {V} report do not cover every rank pair of that kind",
                          fn=fn.path, file=fn.file, line=fn.blocks[bi]["line"])
        for v in Vs:
            seen_variants[v] = True
    for V in ("Pocket", "Suited", "Ofsuit"):
        if V not in seen_variants and not unread_keys:
            ctx.violation(rule, f"{fn.path}|{V}-never-reported", f"rank_pairs() never reports a {V} rank pair", fn=fn.path, file=fn.file, line=fn.line)
    # the returned map is the one receiving the inserts
    ret = P.strip(pr.local(0))
    if inserts and any(P.strip(pr.operand(t["args"][0])) != ret for _, t in inserts):
        ctx.violation(rule, f"{fn.path}|returned-map", "rank_pairs() does not return the map it fills", fn=fn.path, file=fn.file, line=fn.line)
    # .. and nothing else edits it: the guarded inserts are its only writers (a `retain`, `remove`, `clear`, .. after the scan
    # takes reported rank pairs out again — their combos then appear in neither view of the range)
    MUTATORS = ("retain", "remove", "remove_entry", "clear", "drain", "extract_if", "entry", "get_mut", "iter_mut", "values_mut",
                "extend", "insert", "try_insert", "get_or_insert_with", "into_iter", "into_keys", "into_values")
    ins_blocks = {b_ for b_, _t in inserts}
    for b_, t_ in fn.calls():
        if b_ not in fn.cfg.reachable or not t_["args"] or b_ in ins_blocks:
            continue
        nm_ = t_["callee"].get("name")
        if nm_ in MUTATORS and P.strip(pr.operand(t_["args"][0])) == ret:
            ctx.violation(rule, f"{fn.path}|other-writer|{nm_}", f"the map rank_pairs() returns is also edited by `{nm_}` (line {fn.blocks[b_]['line']}): "
                          "what it reports is no longer exactly the rank pairs the guarded inserts put there",
                          fn=fn.path, file=fn.file, line=fn.blocks[b_]["line"], construct=f"{nm_} on the reported map")

    # ---- orphan_card_pairs --------------------------------------------------------------------
    rule_o = "C12.leftovers"
    ctx.rule(rule_o, "orphan_card_pairs = clone of the map minus exactly the combos of every reported rank pair")
    of = F.fn(HR + "::orphan_card_pairs")
    po = P.Prov(of)
    ctx.analysed([of])
    ret = P.strip(po.local(0), calls=False)
    from rules import runpass
    problems = runpass.orphan_shape(F, of, po, ret, map_term)
    if problems:
        ctx.violation(rule_o, f"{of.path}|shape", "; ".join(problems), fn=of.path, file=of.file, line=of.line)
    else:
        ctx.ok(rule_o, {"fn": of.path, "shape": "clone; for (pair,_) in rank_pairs() { for cp in pair { clone.remove(&cp) } }"}, sample=True)
    ctx.assume("f32 == on weights is the intended notion of 'same weight'")
