"""C08 — enumeration terminates in bounded stack without panicking (structural clauses).

 R-norec     no call-graph cycle among bodies reachable from the evaluator entry points
 R-narrow    no cast of a collection length into a type that cannot hold 1326
 R-nonempty  every index into a player's entry list is guarded by an emptiness test
 R-panics    every other potential panic site reachable from the entry points is audited
"""
from sa import callgraph, idioms as I, loops as L, panics, prov as P
from sa.report import Unrecognised
from rules import evalmodel

INT_MAX = {"u8": 255, "i8": 127, "u16": 65535, "i16": 32767}
NEED = 1326  # C(52,2): the largest range the property quantifies over


def _array_len(t):
    """N when t is (a reference to) a fixed-size array `[T; N]` coerced to a slice, else None"""
    import re
    s = t
    while s[0] in ("ref", "deref"):
        s = s[1]
    if s[0] == "cast" and len(s) >= 5:
        m = re.match(r"&(?:mut )?\[.*; (\d+)\]$", s[3] or "")
        if m:
            return int(m.group(1))
    return None


def has_len(t, limit=None):
    """does the term contain the length of a collection (other than a fixed-size array of at most `limit` elements)?"""
    for s in P.walk(t):
        if s[0] == "len":
            return True
        if s[0] == "call" and s[1].rsplit("::", 1)[-1] == "len":
            n = _array_len(s[2][0]) if s[2] else None
            if n is not None and limit is not None and n <= limit:
                continue
            return True
        if s[0] == "un" and s[1] == "PtrMetadata":
            return True
    return False


def rule_norec(ctx, M):
    rule = "C08.R-norec"
    ctx.rule(rule, "no recursion (call-graph cycle incl. closures and trait-bound callbacks) under the evaluator entry points")
    sccs = M.cg.sccs(M.reach)
    ctx.floor("functions reachable from the evaluator entry points", len(M.reach), 20)
    if not sccs:
        ctx.ok(rule, {"reachable_bodies": len(M.reach), "cycles": 0}, sample=True)
    for comp in sccs:
        fn = M.F.fns[comp[0]]
        chain = M.cg.path_between(comp[0], comp[0]) or comp
        ctx.violation(rule, "scc:" + "+".join(c.rsplit("::", 2)[-2] + "::" + c.rsplit("::", 1)[-1] for c in comp),
                      f"recursive call cycle {' -> '.join(chain)}: stack depth grows with the number of consecutive "
                      f"blocked deals; not bounded for all inputs",
                      fn=fn.path, file=fn.file, line=fn.line, construct="call-graph SCC " + ", ".join(comp))
    ctx.extra["reachable_from_evaluator"] = sorted(M.reach)


def rule_narrow(ctx, M, prop="C08"):
    rule = f"{prop}.R-narrow"
    ctx.rule(rule, "no collection length is cast into an integer type whose maximum is below 1326")
    n_casts = 0
    bad = 0
    for p in sorted(M.reach):
        fn = M.F.fns[p]
        pr = P.Prov(fn)
        for bi in sorted(fn.cfg.reachable):
            for s in fn.blocks[bi]["stmts"]:
                if s["k"] != "assign" or "cast" not in s["rv"] or s["rv"]["cast"] != "IntToInt":
                    continue
                n_casts += 1
                to = s["rv"]["to"]
                if to not in INT_MAX or INT_MAX[to] >= NEED:
                    continue
                t = pr.operand(s["rv"]["a"])
                if has_len(t, INT_MAX[to]):
                    bad += 1
                    ctx.violation(rule, f"{fn.path}|len-as-{to}",
                                  f"a collection length ({P.show(t)[:120]}) is cast to {to} (max {INT_MAX[to]}): "
                                  f"a range of more than {INT_MAX[to]} combos cannot be counted (and len 0 / 256 "
                                  f"make `len as {to} - 1` overflow)",
                                  fn=fn.path, file=fn.file, line=s["line"], construct=f"`as {to}` cast of a length")
    # the counter element type itself
    if M.counter_ty in INT_MAX and INT_MAX[M.counter_ty] < NEED - 1:
        ctx.violation(rule, f"{M.iter_ty}|counter-width-{M.counter_ty}",
                      f"the per-player combo counter is a Vec<{M.counter_ty}> (max {INT_MAX[M.counter_ty]}); positions up "
                      f"to 1325 are needed", fn=M.next.path, file=M.next.file, line=M.next.line,
                      construct=f"field {M.iter_field_names()[M.f_counters]}: Vec<{M.counter_ty}>")
        bad += 1
    if not bad:
        ctx.ok(rule, {"int_casts_examined": n_casts, "narrow_length_casts": 0, "counter_type": M.counter_ty}, sample=True)
    return bad


def closure_returns_is_empty(F, path):
    """closure |x| x.is_empty()  (or len() == 0): returns 'empty' / 'nonempty' / None"""
    fn = F.fns.get(path)
    if fn is None or fn.cfg.has_loops():
        return None
    pr = P.Prov(fn)
    t = pr.local(0)
    return emptiness_of(t, lambda x: P.strip(x) == ("param", 2))


def emptiness_of(t, is_subject):
    """classify bool term t as an emptiness test of a subject: ('empty'|'nonempty') or None."""
    neg = False
    while t[0] == "un" and t[1] == "Not":
        t = t[2]
        neg = not neg
    res = None
    if t[0] == "call" and t[1].rsplit("::", 1)[-1] == "is_empty" and len(t[2]) == 1 and is_subject(t[2][0]):
        res = "empty"
    elif t[0] == "bin":
        op, a, b = t[1], t[2], t[3]

        def is_len(x):
            s = P.strip(x)
            return s[0] == "call" and s[1].rsplit("::", 1)[-1] == "len" and len(s[2]) == 1 and is_subject(s[2][0])
        if is_len(b) and P.const_int(a) is not None:
            a, b = b, a
            op = I.FLIP.get(op, op)
        if is_len(a) and P.const_int(b) is not None:
            c = P.const_int(b)
            if (op, c) in (("Eq", 0), ("Le", 0), ("Lt", 1)):
                res = "empty"
            elif (op, c) in (("Ne", 0), ("Gt", 0), ("Ge", 1)):
                res = "nonempty"
    if res and neg:
        res = "nonempty" if res == "empty" else "empty"
    return res


def rule_nonempty(ctx, M):
    rule = "C08.R-nonempty"
    ctx.rule(rule, "every index into a player's entry list is guarded by an emptiness test of the entry lists")
    F = M.F
    sites = 0
    for p in sorted(M.cg.reach([M.next.path])):
        fn = F.fns[p]
        pr = P.Prov(fn)
        fl = L.for_loops(fn, pr)
        for bi, t in fn.calls():
            if bi not in fn.cfg.reachable:
                continue
            c = t["callee"]
            if c.get("name") not in ("index", "index_mut") or not c.get("generic_args"):
                continue
            if c["generic_args"][0] != M.entry_vec_ty:
                continue
            sites += 1
            vec_t = P.strip(pr.operand(t["args"][0]))
            # guard edges: emptiness tests whose subject covers the indexed list
            entries_field = M.self_field(M.f_entries)

            def covers_all(src):
                """src is an iterator chain over the entry-lists field"""
                base, chain = L.iterator_chain(src)
                # only order-changing / identity adaptors: anything that can drop a list (skip, take, filter, ..)
                # leaves that player's list untested
                names_ = [c_.rsplit("::", 1)[-1] for c_ in chain]
                if any(n_ not in ("iter", "into_iter", "rev", "by_ref", "deref", "as_slice", "iter_mut") for n_ in names_):
                    return False
                return P.strip(base) == entries_field

            def subject_is_this(x):
                return P.strip(x) == vec_t
            edges = []
            for b, lab, truth, term in I.bool_edges(fn, pr):
                e = emptiness_of(term, subject_is_this)
                if e is not None:
                    if (e == "nonempty") == truth:
                        edges.append((b, lab))
                    continue
                # any(|e| e.is_empty()) / all(|e| !e.is_empty()) over the entry lists
                tt, tr = term, truth
                while tt[0] == "un" and tt[1] == "Not":
                    tt, tr = tt[2], not tr
                if tt[0] == "call" and tt[1].rsplit("::", 1)[-1] in ("any", "all") and len(tt[2]) == 2 \
                        and covers_all(tt[2][0]):
                    clo = tt[2][1]
                    kind = None
                    if clo[0] == "fn" and clo[1].rsplit("::", 1)[-1] == "is_empty":
                        kind = "empty"     # the method itself passed as the predicate: any(Vec::is_empty)
                    if clo[0] == "agg" and clo[1].startswith("closure:"):
                        kind = closure_returns_is_empty(F, clo[1][len("closure:"):])
                    if kind is not None:
                        name = tt[1].rsplit("::", 1)[-1]
                        if name == "any" and kind == "empty" and tr is False:
                            edges.append((b, lab))
                        if name == "all" and kind == "nonempty" and tr is True:
                            edges.append((b, lab))
            # the same test cached in a bool field by the constructor (the entry lists never change afterwards)
            for b, lab, truth, term in I.bool_edges(fn, pr):
                tt, tr = term, truth
                while tt[0] == "un" and tt[1] == "Not":
                    tt, tr = tt[2], not tr
                st_ = P.strip(tt)
                if st_[0] == "field" and P.strip(st_[1]) == ("param", 1) and fn.local_ty(1).lstrip("&mut ").strip() == M.iter_ty \
                        and not tr and cached_empty_flag(M, st_[2]):
                    edges.append((b, lab))
            if edges and I.guarded_by(fn, bi, edges):
                ctx.ok(rule, {"fn": fn.path, "site": f"index into {M.entry_vec_ty}", "guard_edges": len(edges)},
                       sample=True)
            else:
                ctx.violation(rule, f"{fn.path}|entry-index-unguarded",
                              f"`{P.show(vec_t)[:80]}[..]` is evaluated with no emptiness test of the player's entry "
                              f"list on the way: an empty range panics (index out of bounds) instead of ending the "
                              f"enumeration", fn=fn.path, file=fn.file, line=fn.blocks[bi]["line"],
                              construct="Index::index on a player's entry list")
    if sites == 0:
        raise Unrecognised(rule, "no index into a player's entry list found under next()", M.next.path, M.next.line)


_flag_cache = {}


def cached_empty_flag(M, k):
    """field k of the iterator is `entries.iter().any(|e| e.is_empty())` computed once by the constructor over the very vector
    stored as the entry lists, and neither that field nor the entry lists are written anywhere under the entry points"""
    key = (id(M), k)
    if key in _flag_cache:
        return _flag_cache[key]
    F = M.F
    ok = False
    ctor = M.ctor
    pr = P.Prov(ctor)
    ret = pr.local(0)
    if ret[0] == "agg" and ret[1].startswith("adt:" + M.iter_ty) and k < len(ret[2]):
        t = P.strip(ret[2][k], calls=False)
        ent = P.strip(ret[2][M.f_entries])
        if t[0] == "call" and t[1].rsplit("::", 1)[-1] == "any" and len(t[2]) == 2:
            base, chain = L.iterator_chain(t[2][0])
            names_ = [c_.rsplit("::", 1)[-1] for c_ in chain]
            clo = t[2][1]
            kind = None
            if clo[0] == "fn" and clo[1].rsplit("::", 1)[-1] == "is_empty":
                kind = "empty"
            if clo[0] == "agg" and clo[1].startswith("closure:"):
                kind = closure_returns_is_empty(F, clo[1][len("closure:"):])
            ok = kind == "empty" and P.strip(base) == ent and \
                all(n_ in ("iter", "into_iter", "rev", "deref", "as_slice") for n_ in names_)
    if ok:
        # nobody writes the flag or touches the entry lists mutably after construction
        for p in sorted(M.reach):
            g = F.fns[p]
            if g.path == ctor.path:
                continue
            for b_ in g.blocks:
                for s_ in b_["stmts"]:
                    if s_["k"] != "assign":
                        continue
                    pj = s_["place"]["proj"]
                    if any(isinstance(e_, dict) and e_.get("of") == M.iter_ty and e_.get("f") in (k, M.f_entries) for e_ in pj):
                        ok = False
                    rv = s_["rv"]
                    if "ref" in rv and rv.get("mut") and any(isinstance(e_, dict) and e_.get("of") == M.iter_ty and e_.get("f") == M.f_entries
                                                            for e_ in rv["ref"]["proj"]):
                        ok = False
    _flag_cache[key] = ok
    return ok


def rule_ranges_all(ctx, M):
    """the evaluator constructs RankRange / SuitRange only as the full exclusive range 0..len."""
    rule = "C08.R-ranges-all"
    ctx.rule(rule, "rank/suit ranges built under the evaluator entry points are the full tables (0..len, exclusive)")
    F = M.F
    range_tys = ("card::rank_range::RankRange", "card::suit_range::SuitRange")
    n = 0
    for p in sorted(M.reach):
        fn = F.fns[p]
        for bi, t in fn.calls():
            if bi not in fn.cfg.reachable:
                continue
            cp = I.callee_path(t)
            callee = F.fns.get(cp)
            if callee is None or callee.local_ty(0) not in range_tys:
                continue
            n += 1
            pr = P.Prov(callee)
            r = pr.local(0)
            ok = False
            if r[0] == "agg" and r[1].startswith("adt:") and len(r[2]) == 1 and callee.arg_count == 0:
                # the two bounds in one `Range<usize>` field (half-open): (0..len)
                inner = P.strip(r[2][0])
                if inner[0] == "agg" and inner[1].endswith("Range::Range") and len(inner[2]) == 2:
                    r = ("agg", r[1], (inner[2][0], inner[2][1]))
            if r[0] == "agg" and r[1].startswith("adt:") and len(r[2]) in (2, 3) and callee.arg_count == 0:
                # (start, end, inclusive=false) or the half-open representation (start, end)
                start, end = r[2][0], r[2][1]
                incl = r[2][2] if len(r[2]) == 3 else ("bool", False)
                e = P.strip(end)
                is_len = (e[0] == "call" and e[1].rsplit("::", 1)[-1] == "len") or e[0] == "len" or \
                    (e[0] == "un" and e[1] == "PtrMetadata") or P.const_int(e) is not None
                ok = P.const_int(start) == 0 and is_len and incl == ("bool", False)
            if ok:
                ctx.ok(rule, {"fn": fn.path, "range": cp}, sample=(n == 1))
            else:
                ctx.violation(rule, f"{fn.path}|{cp.rsplit('::', 1)[-1]}",
                              f"{fn.path} builds a range through {cp}, whose bounds are not the constant full table: "
                              f"the slicing in its into_iter is only audited for the full range",
                              fn=fn.path, file=fn.file, line=fn.blocks[bi]["line"])
    ctx.floor("range constructions under the evaluator", n, 2)


def entry_by_counter(M):
    """discharge rule: `entries_of_player_p[counter_of_player_p]`.  The entry list is non-empty on the way (C08.R-nonempty) and a
    player's counter stays below that player's entry count (C02.R-odometer-bound: advanced only under idx + 1 < len, otherwise
    reset to 0) -- so the rule applies only while C02's odometer rule holds on the same tree"""
    state = {"odometer": None}

    def odometer_holds():
        if state["odometer"] is None:
            class Cap:
                extra = {}
                tier = "quick"

                def __init__(self):
                    self.bad = 0

                def violation(self, *a, **k):
                    self.bad += 1

                def unrecognised(self, *a, **k):
                    self.bad += 1

                def __getattr__(self, n):
                    return lambda *a, **k: None
            cap = Cap()
            try:
                from rules import c02
                c02.rule_odometer_any(cap, M, M.deal)
            except Exception:
                cap.bad += 1
            state["odometer"] = cap.bad == 0
        return state["odometer"]

    def rule(F_, cg_, site, pr):
        if site.kind != "index" or site.info.get("container") != M.entry_vec_ty or site.info.get("index_ty") != "usize":
            return None
        args = site.info.get("args") or []
        if len(args) != 2:
            return None
        ent, idx = P.strip(args[0]), P.strip(args[1])
        entries, counters = M.self_field(M.f_entries), M.self_field(M.f_counters)

        def same_player():
            # entries[i][counters[i]]
            if ent[0] == "call" and ent[1].endswith("::index") and len(ent[2]) == 2 and P.strip(ent[2][0]) == entries and \
                    idx[0] == "call" and idx[1].endswith("::index") and len(idx[2]) == 2 and P.strip(idx[2][0]) == counters:
                return P.strip(ent[2][1]) == P.strip(idx[2][1])
            # for (i, list) in entries.iter().enumerate() { list[counters[i]] }
            if ent[0] == "field" and ent[2] == 1 and idx[0] == "call" and idx[1].endswith("::index") and len(idx[2]) == 2 and \
                    P.strip(idx[2][0]) == counters and P.strip(idx[2][1]) == ("field", ent[1], 0):
                src, chain = L.iterator_chain(P.strip(ent[1])[1][1][2][0]) if P.strip(ent[1])[0] == "field" and P.strip(ent[1])[1][0] == "variant" else (None, [])
                names = [c.rsplit("::", 1)[-1] for c in chain if c.rsplit("::", 1)[-1] not in ("into_iter", "deref")]
                return src is not None and P.strip(src) == entries and names == ["iter", "enumerate"]
            # for (list, &c) in entries.iter().zip(&counters) { list[c] }
            if ent[0] == "field" and ent[2] == 0 and idx == ("field", ent[1], 1):
                it = P.strip(ent[1])
                if it[0] == "field" and it[1][0] == "variant" and it[1][1][0] == "call":
                    zc = [x for x in P.walk(it[1][1]) if x[0] == "call" and x[1].rsplit("::", 1)[-1] == "zip" and len(x[2]) == 2]
                    if len(zc) == 1:
                        a_src, a_ch = L.iterator_chain(zc[0][2][0])
                        b_src, b_ch = L.iterator_chain(zc[0][2][1])
                        plain = lambda ch: all(c.rsplit("::", 1)[-1] in ("iter", "into_iter", "deref") for c in ch)
                        return P.strip(a_src) == entries and P.strip(b_src) == counters and plain(a_ch) and plain(b_ch)
            return False
        try:
            ok = same_player()
        except (IndexError, TypeError):
            ok = False
        if ok and odometer_holds():
            return "R-entry-by-counter"
        return None
    return rule


def run(ctx):
    ctx.explanation = ("static: call graph (resolved callees, closures, trait-bound callbacks) of everything reachable "
                       "from FlopExhaustiveEvaluator::{new,scope,into_iter} and Iterator::next must be acyclic (bounded "
                       "stack for every input); length casts must not narrow below 1326; entry-list indexing must be "
                       "dominated by an emptiness guard; every remaining potential panic site (asserts, unwraps, "
                       "indexing, panicking std calls) must be discharged by a rule or carry an audited reason. "
                       "Termination of the deal loop itself and invalid boards/scopes are not decided.")
    F = ctx.facts("lib")
    M = evalmodel.get(F)
    ctx.analysed(M.reach)
    rule_norec(ctx, M)
    rule_narrow(ctx, M)
    try:
        rule_nonempty(ctx, M)
    except Unrecognised as e:
        ctx.unrecognised(e.rule, e.msg, e.fn, e.line)
    rule_ranges_all(ctx, M)
    panics.audit(ctx, F, M.cg, M.entries, "C08", configs=("lib", "lib-nooverflow") if ctx.tier == "thorough" else ("lib",),
                 extra_discharge=(entry_by_counter(M),))
    if ctx.tier == "thorough":
        from sa import xref
        from rules import selftest
        xref.cross_check(ctx, F, ["cast_possible_truncation", "unwrap_used", "indexing_slicing"])
        selftest.run(ctx, ["norec", "narrow"])
    ctx.assume("preconditions of the property: three distinct flop cards, turn/river None, scope positions valid")
    ctx.assume("std, regex, fxhash functions not in the panicking-callee table are total")
    ctx.assume("termination of the deal loop (odometer progress) is not decided statically")
