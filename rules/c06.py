"""C06 — format → parse round trip (token-level clause and the range-level separator clause).

Writer's and reader's tables must agree: the *symbolic text* each token kind's Display impl emits
(decoded fmt templates, nested Display impls expanded down to rank / suit / literal characters and the f32
weight) is compared with the parser model of `<HandRangeToken as FromStr>` (regex layout, byte → field map,
required equalities, kind letter, weight offset and grammar):

 1. every emitted shape is accepted by exactly the parser branch that rebuilds the same token kind with every
    field read back from the byte where the formatter wrote it, and by no earlier branch
 2. the weight suffix is written exactly when the weight is not 1.0, as `:` + the shortest round-tripping f32
    text, which the weight grammar accepts for every value in [0,1); omitted weight = parser default
 3. range level: tokens are joined by the very separator the range parser splits on, and no token text can
    contain the separator or a space
Not decided: that the token list emitted for a range denotes exactly that range (run merging, leftovers)."""
from sa import dtree, fmt, idioms as I, prov as P, regexlang
from sa.report import Unrecognised
from rules import tokmodel, c05

RANK = "card::rank::Rank"
SUIT = "card::suit::Suit"
CARD = "card::card::Card"
CARD_PAIR = tokmodel.CARD_PAIR
RANK_PAIR = tokmodel.RANK_PAIR
TOKEN = tokmodel.TOKEN
HR = "hand_range::hand_range::HandRange"


def U(rule, msg, fn=None):
    return Unrecognised(rule, msg, fn.path if fn else None, fn.line if fn else None)


def subst(t, self_term):
    """replace the Display impl's `self` (param 1, possibly dereferenced) by self_term"""
    if not isinstance(t, tuple):
        return t
    if t == ("param", 1) or t == ("deref", ("param", 1)):
        return self_term
    k = t[0]
    if k in ("ref", "deref"):
        return P.simp((k, subst(t[1], self_term)))
    if k == "field":
        return P.simp(("field", subst(t[1], self_term), t[2]))
    if k == "variant":
        return ("variant", subst(t[1], self_term), t[2])
    if k == "call":
        return ("call", t[1], tuple(subst(a, self_term) for a in t[2]), t[3])
    if k == "agg":
        return ("agg", t[1], tuple(subst(a, self_term) for a in t[2]))
    return t


_GETTERS = {}


def norm(t):
    """strip refs/derefs everywhere on the spine of a place-like term; field getters become field projections"""
    t = P.strip(t)
    if t[0] == "call" and t[1] in _GETTERS and len(t[2]) == 1:
        return P.simp(("field", norm(t[2][0]), _GETTERS[t[1]]))
    if t[0] == "field":
        return P.simp(("field", norm(t[1]), t[2]))
    if t[0] == "variant":
        return ("variant", norm(t[1]), t[2])
    return t


def path_of(t):
    """canonical field path of a term below the token (param 1): '.0.<Suited>.1'; None if not a pure path"""
    t = norm(t)
    parts = []
    while t[0] in ("field", "variant"):
        parts.append(f".{t[2]}" if t[0] == "field" else f".<{t[2]}>")
        t = norm(t[1])
    if t == ("param", 1):
        return "".join(reversed(parts))
    return None


class Model:
    def __init__(self, F):
        self.F = F
        for p_, f_ in F.fns.items():
            if f_.kind == "AssocFn" and f_.arg_count == 1 and not f_.cfg.has_loops() and len(f_.blocks) <= 3:
                g = I.getter_field(f_)
                if g is not None:
                    _GETTERS[p_] = g[0]
        self.cache = {}
        self.checked_atomic = {}

    # -- Rank / Suit: Display prints exactly char::from(self) -------------------------------------------
    def atomic_ok(self, adt):
        if adt in self.checked_atomic:
            return self.checked_atomic[adt]
        F = self.F
        fn = F.impl_fn("std::fmt::Display", adt, "fmt")
        pr = P.Prov(fn)
        ok = False
        r = pr.local(0)
        tgt = F.impl_fn(f"std::convert::From<&{adt}>", "char", "from").path

        def is_char_of_self(c):
            c = P.strip(c, calls=False)
            if not (c[0] == "call" and c[2] and P.strip(c[2][0]) == ("param", 1)):
                return False
            blk = fn.blocks[c[3]]["term"]["callee"]
            bounds = [b_.get("method") for b_ in blk.get("bound_impls", [])]
            return c[1] == tgt or tgt in bounds

        def is_f(t_):
            return P.strip(t_) == ("param", 2)
        straight = not fn.cfg.has_loops() and not any(b_["term"]["k"] == "switch" for i_, b_ in enumerate(fn.blocks) if i_ in fn.cfg.reachable)
        if straight and r[0] == "call":
            nm = r[1].rsplit("::", 1)[-1]
            if r[1] == "<std::string::String as std::fmt::Display>::fmt" and len(r[2]) == 2 and is_f(r[2][1]):
                # char::from(self).to_string().fmt(f)
                s_ = P.strip(r[2][0], calls=False)
                ok = s_[0] == "call" and s_[1].rsplit("::", 1)[-1] == "to_string" and bool(s_[2]) and is_char_of_self(s_[2][0])
            elif r[1] == "<char as std::fmt::Display>::fmt" and len(r[2]) == 2 and is_f(r[2][1]):
                ok = is_char_of_self(r[2][0])
            elif r[1].startswith("std::fmt::Formatter") and nm in ("pad", "write_str") and len(r[2]) == 2 and is_f(r[2][0]):
                # f.pad(c.encode_utf8(..)): what str's Display does
                e_ = P.strip(r[2][1], calls=False)
                ok = e_[0] == "call" and e_[1].rsplit("::", 1)[-1] == "encode_utf8" and bool(e_[2]) and is_char_of_self(e_[2][0])
            elif nm == "write_char" and len(r[2]) == 2 and is_f(r[2][0]):
                ok = is_char_of_self(r[2][1])
            elif nm == "write_fmt" and len(r[2]) == 2 and is_f(r[2][0]):
                # write!(f, "{}", c)
                a_ = P.strip(r[2][1], calls=False)
                if a_[0] == "call" and a_[1].rsplit("::", 1)[-1] in ("new", "new_v1", "new_const") and len(a_[2]) >= 2:
                    tmpl, args = P.strip(a_[2][0]), P.strip(a_[2][1])
                    try:
                        pieces = fmt.decode(tmpl[1]) if tmpl[0] == "bytes" else None
                    except fmt.BadTemplate:
                        pieces = None
                    if pieces and len(pieces) == 1 and pieces[0][0] != "lit" and pieces[0][2:] == (None, None, None) and \
                            args[0] == "agg" and args[1] == "array" and len(args[2]) == 1:
                        av = P.strip(args[2][0], calls=False)
                        ok = av[0] == "call" and av[1].rsplit("::", 1)[-1] == "new_display" and bool(av[2]) and is_char_of_self(av[2][0])
        self.checked_atomic[adt] = (ok, fn)
        return ok, fn

    # -- generic Display impl -> alternatives ------------------------------------------------------------
    def alternatives(self, adt):
        """[(conds, emits)] of `<adt as Display>::fmt` in terms of its own self; emits are
        ("lit", str) | ("arg", type, term) | ("nested", type, term); conds are (subject term, kind, value)."""
        if adt in self.cache:
            return self.cache[adt]
        F = self.F
        fn = F.impl_fn("std::fmt::Display", adt, "fmt")
        try:
            paths, pr = dtree.enumerate_paths(fn, max_paths=400)
        except dtree.NotLoopFree:
            raise U("C06.display-model", f"Display for {adt} contains a loop", fn)
        out = []
        for p in paths:
            if p.end == "unreachable":
                continue
            if p.end != "return":
                raise U("C06.display-model", f"Display for {adt} can diverge", fn)
            conds = []
            failed_write = False
            for (b, t, lab, ty, others) in p.conds:
                if t[0] == "discr" and self._is_write_result(t[1]):
                    # `write..(..)?`: the branch on a write's Result is error plumbing; the text is what the path writes when
                    # every write succeeds (label 0 = Ok / Continue), the early-return paths are prefixes of it
                    ok_arm = (lab == 0) or (lab == "otherwise" and 0 not in (others or []))
                    if not ok_arm:
                        failed_write = True
                    continue
                if t[0] == "discr":
                    conds.append((t[1], "variant", lab if lab != "otherwise" else ("not", tuple(others)), fn.blocks[b]["term"]))
                elif ty == "bool":
                    truth = (others == [0]) if lab == "otherwise" else bool(lab)
                    conds.append((t, "bool", truth, None))
                else:
                    raise U("C06.display-model", f"unexpected switch in Display for {adt}: {P.show(t)[:60]}", fn)
            if failed_write:
                continue
            emits = []
            pr = dtree.PathProv(fn, p)       # a local assigned in several arms denotes this path's assignment
            for b in p.blocks:
                t = fn.blocks[b]["term"]
                if t["k"] != "call":
                    continue
                c = t["callee"]
                nm = c.get("name")
                cp = I.callee_path(t)
                if cp.startswith("std::fmt::Formatter") and nm == "write_fmt":
                    a = P.strip(pr.operand(t["args"][1]), calls=False)
                    if not (a[0] == "call" and a[1].startswith("std::fmt::Arguments") and a[2]):
                        raise U("C06.display-model", "write_fmt of something else than format_args!", fn)
                    if a[1].endswith("::from_str"):
                        s = P.strip(a[2][0])
                        emits.append(("lit", s[1] if s[0] == "str" else None))
                        continue
                    tmpl = P.strip(a[2][0])
                    args = P.strip(a[2][1])
                    if tmpl[0] != "bytes" or not (args[0] == "agg" and args[1] == "array"):
                        raise U("C06.display-model", "format template / arguments not literal", fn)
                    try:
                        pieces = fmt.decode(tmpl[1])
                    except fmt.BadTemplate as e:
                        raise U("C06.display-model", str(e), fn)
                    for pc in pieces:
                        if pc[0] == "lit":
                            emits.append(("lit", pc[1]))
                        else:
                            _, idx, flags, width, prec = pc
                            av = P.strip(args[2][idx], calls=False)
                            if not (av[0] == "call" and av[1].rsplit("::", 1)[-1] == "new_display" and av[2]):
                                raise U("C06.display-model", f"placeholder is not Display-formatted: {P.show(av)[:60]}", fn)
                            if flags is not None or width is not None or prec is not None:
                                emits.append(("arg-with-options", None, av[2][0]))
                                continue
                            cal = fn.blocks[av[3]]["term"]["callee"]
                            ga = [g for g in cal.get("generic_args", []) if not g.startswith("'")]
                            ty = ga[0] if ga else "?"
                            emits.append(("arg", ty.lstrip("&"), av[2][0]))
                elif cp.startswith("std::fmt::Formatter") and nm in ("write_str", "write_char"):
                    s = P.strip(pr.operand(t["args"][1]))
                    ch = self._char_of_enum(s, fn)
                    if ch is not None:
                        # f.write_str(char::from(x).encode_utf8(..)) / f.write_char(char::from(x)): exactly the enum's character
                        emits.append(("char-of", ch[0], ch[1]))
                    else:
                        emits.append(("lit", s[1] if s[0] == "str" else None))
                elif nm == "fmt" and (c.get("trait") or "").endswith("fmt::Display") and len(t["args"]) == 2 and \
                        P.strip(pr.operand(t["args"][1])) == ("param", 2):
                    ga = [g for g in c.get("generic_args", []) if not g.startswith("'")]
                    emits.append(("arg", (ga[0] if ga else "?").lstrip("&"), pr.operand(t["args"][0])))
            out.append((conds, emits, p))
        self.cache[adt] = (out, fn)
        return out, fn

    @staticmethod
    def _is_write_result(t):
        s = P.strip(t, calls=False)
        if s[0] == "call" and s[1].endswith("::branch") and len(s[2]) == 1:
            s = P.strip(s[2][0], calls=False)
        if s[0] != "call":
            return False
        nm = s[1].rsplit("::", 1)[-1]
        return (s[1].startswith("std::fmt::Formatter") and nm in ("write_str", "write_fmt", "write_char", "pad")) or \
            (nm == "fmt" and "std::fmt::Display" in s[1]) or (nm == "fmt" and s[1].startswith("<") and " as std::fmt::" in s[1])

    def _char_of_enum(self, s, fn):
        """(adt, term) when s is `char::from(x)` or `char::from(x).encode_utf8(..)` with x a Rank / Suit value"""
        s = P.strip(s, calls=False)
        if s[0] == "call" and s[1].rsplit("::", 1)[-1] == "encode_utf8" and s[2]:
            s = P.strip(s[2][0], calls=False)
        if not (s[0] == "call" and len(s[2]) == 1):
            return None
        for adt in (RANK, SUIT):
            tgt = self.F.impl_fn(f"std::convert::From<&{adt}>", "char", "from")
            byv = self.F.impl_fn(f"std::convert::From<{adt}>", "char", "from")
            if s[1] in (tgt.path, byv.path):
                return adt, s[2][0]
        return None

    def expand(self, adt, self_term, depth=0):
        """alternatives of printing a value of type adt held in self_term: [(conds[(path, variant)], atoms, extra_conds)]
        atoms: ("lit", ch) | ("rank", term) | ("suit", term) | ("f32", term)"""
        if depth > 6:
            raise U("C06.display-model", "Display nesting too deep")
        if adt in (RANK, SUIT):
            ok, fn = self.atomic_ok(adt)
            if not ok:
                raise U("C06.display-model", f"Display for {adt} does not write exactly char::from(self) (to_string().fmt(f), f.pad / write_char / write!))", fn)
            return [([], [("rank" if adt == RANK else "suit", norm(self_term))], [])]
        if adt == "f32":
            return [([], [("f32", norm(self_term))], [])]
        if adt not in self.F.adts:
            raise U("C06.display-model", f"Display of foreign type {adt} in the token text")
        alts, fn = self.alternatives(adt)
        res = []
        for (conds, emits, _p) in alts:
            vconds, extra = [], []
            feasible = True
            for (subj, kind, val, swterm) in conds:
                st = norm(subst(subj, self_term))
                if kind == "variant":
                    sty = None
                    # resolve the enum type of the subject through the switch's own facts: variant names from the ADT
                    names = None
                    for cand in (RANK_PAIR, tokmodel.KIND):
                        pass
                    if st[0] == "agg" and st[1].startswith("adt:"):
                        # printing a freshly built value: only its own variant is feasible
                        enum_path, vname = st[1][4:].rsplit("::", 1)
                        want = I.variant_by_discr(self.F, enum_path, val) if not isinstance(val, tuple) else None
                        if isinstance(val, tuple):
                            excl = {I.variant_by_discr(self.F, enum_path, v) for v in val[1]}
                            if vname in excl:
                                feasible = False
                        elif want != vname:
                            feasible = False
                        continue
                    vconds.append((st, val))
                else:
                    extra.append((subst(subj, self_term), val))
            # contradictory variant tests on one subject (outer match arm vs the nested impl's own match)
            seen_v = {}
            for (st_, val_) in vconds:
                k_ = str(st_)
                if k_ in seen_v and seen_v[k_] != val_:
                    feasible = False
                seen_v[k_] = val_
            if not feasible:
                continue
            # expand emits
            partial = [([], [])]
            for e in emits:
                if e[0] == "lit":
                    if e[1] is None:
                        raise U("C06.display-model", "non-literal text piece", fn)
                    partial = [(c, a + [("lit", ch) for ch in e[1]]) for (c, a) in partial]
                elif e[0] == "char-of":
                    partial = [(c, a + [("rank" if e[1] == RANK else "suit", norm(subst(e[2], self_term)))]) for (c, a) in partial]
                elif e[0] == "arg":
                    sub = self.expand(e[1], subst(e[2], self_term), depth + 1)
                    partial = [(c + c2 + x2, a + a2) for (c, a) in partial for (c2, a2, x2) in sub]
                else:
                    raise U("C06.display-model", f"placeholder with width/precision/flags in Display for {adt}: the text of a value is no "
                            f"longer its shortest round-tripping form", fn)
            for (c, a) in partial:
                vc = vconds + [x for x in c if len(x) == 2 and not isinstance(x[1], bool)]
                seen_v, feas = {}, True
                dedup = []
                for (st_, val_) in vc:
                    k_ = str(st_)
                    if k_ in seen_v:
                        if seen_v[k_] != val_:
                            feas = False
                        continue
                    seen_v[k_] = val_
                    dedup.append((st_, val_))
                if feas:
                    res.append((dedup, a, extra + [x for x in c if len(x) == 2 and isinstance(x[1], bool)]))
        return res


def variant_names(F, conds):
    """[(path string, variant name)] with discriminant values resolved by the subject's enum type"""
    out = []
    for (st, val) in conds:
        p = path_of(st)
        # the enum type: look the subject path up in the token ADT
        out.append((p, val))
    return out


def resolve_variant(F, token_adt, path, val):
    """name of the variant with discriminant `val` of the enum found at `path` below the token"""
    ty = TOKEN
    segs = [s for s in path.replace(".<", ".\x00<").split(".") if s]
    cur = F.adts[TOKEN]
    cur_variant = 0
    i = 0
    tyname = TOKEN
    for s in segs:
        s = s.replace("\x00", "")
        if s.startswith("<"):
            vn = s[1:-1]
            cur_variant = [k for k, v in enumerate(F.adts[tyname]["variants"]) if v["name"] == vn][0]
        else:
            fld = F.adts[tyname]["variants"][cur_variant]["fields"][int(s)]
            tyname = fld["ty"]
            cur_variant = 0
    if tyname not in F.adts:
        return None, tyname
    if isinstance(val, tuple):
        excl = {I.variant_by_discr(F, tyname, v) for v in val[1]}
        rest = [v["name"] for v in F.adts[tyname]["variants"] if v["name"] not in excl]
        return (rest[0] if len(rest) == 1 else None), tyname
    return I.variant_by_discr(F, tyname, val), tyname


def accepts_unit_decimals(tail_node):
    """does `:W` accept ':0' and ':0.d+' for all digit strings (the f32 Display texts of [0,1))?"""
    items = tail_node[1] if tail_node[0] == "seq" else [tail_node]
    if not items or items[0] != ("class", frozenset([":"])):
        return False
    num = ("seq", items[1:]) if len(items) != 2 else items[1]
    branches = num[1] if num[0] == "alt" else [num]
    digits = frozenset("0123456789")
    for br in branches:
        its = br[1] if br[0] == "seq" else [br]
        if len(its) == 2 and its[0][0] == "class" and "0" in its[0][1] and its[1][0] == "rep" and its[1][2] == 0 and its[1][3] == 1:
            inner = its[1][1]
            ii = inner[1] if inner[0] == "seq" else [inner]
            if len(ii) == 2 and ii[0] == ("class", frozenset(["."])) and ii[1][0] == "rep" and ii[1][2] <= 1 and ii[1][3] is None \
                    and ii[1][1][0] == "class" and digits <= ii[1][1][1]:
                return True
    return False


def rule_tokens(ctx, F, TM, prefix="C06", only_weight=False):
    rule = prefix + ".token-round-trip"
    if not only_weight:
        ctx.rule(rule, "each token shape the formatter emits is parsed by the branch that rebuilds the same token from the same bytes, and by no earlier branch")
    M = Model(F)
    self_term = ("deref", ("param", 1))
    alts = M.expand(TOKEN, self_term)
    fn_disp = F.impl_fn("std::fmt::Display", TOKEN, "fmt")
    ctx.analysed([fn_disp, TM.fn])
    rank_chars, suit_chars = c05.char_set(F, RANK), c05.char_set(F, SUIT)
    tok = F.adts[TOKEN]["variants"][0]["fields"]
    f_kind = [i for i, f in enumerate(tok) if tokmodel.KIND in f["ty"]][0]
    f_prob = [i for i, f in enumerate(tok) if f["ty"] == "f32"][0]
    # parser sites in trial order
    sites = sorted(TM.sites, key=lambda s: s.block)

    def atom_chars(a):
        return rank_chars if a[0] == "rank" else suit_chars if a[0] == "suit" else frozenset([a[1]]) if a[0] == "lit" else None

    def prefix_of(lit):
        r = regexlang.parse(lit)
        pre, rest = r.prefix_classes()
        return r, [frozenset(x) for x in pre]
    shapes = {}
    for (vconds, atoms, extra) in alts:
        # identify the token kind / pair variant of this alternative
        kind = pair = None
        for (st, val) in vconds:
            p = path_of(st)
            if p is None:
                raise U(rule, f"Display branches on something that is not a field of the token: {P.show(st)[:60]}", fn_disp)
            name, ty = resolve_variant(F, TOKEN, p, val)
            if ty == tokmodel.KIND:
                kind = name
            elif ty == RANK_PAIR:
                pair = name
        # weight suffix handling: atoms after the fixed part
        has_w = [i for i, a in enumerate(atoms) if a[0] == "f32"]
        suffix_cond = [x for x in extra]
        body = atoms
        wpart = None
        if has_w:
            wi = has_w[0]
            if wi < 1 or atoms[wi - 1] != ("lit", ":") or wi != len(atoms) - 1:
                ctx.violation(rule, f"{fn_disp.path}|weight-suffix-shape|{kind}-{pair}", "the weight is not written as a trailing `:` + value",
                              fn=fn_disp.path, file=fn_disp.file, line=fn_disp.line)
                continue
            body = atoms[:wi - 1]
            wpart = atoms[wi]
        shapes.setdefault((kind, pair), []).append((body, wpart, suffix_cond))
    n_ok = 0
    for (kind, pair), variants in (sorted(shapes.items(), key=str) if not only_weight else []):
        tag = f"{kind}({pair})"
        site = [s for s in sites if s.kind == kind and s.pair_variant == pair]
        if len(site) != 1:
            ctx.violation(rule, f"{TM.fn.path}|no-branch|{kind}-{pair}", f"the formatter can emit {tag} but {len(site)} parser branches rebuild that shape",
                          fn=TM.fn.path, file=TM.fn.file, line=TM.fn.line)
            continue
        st = site[0]
        body = variants[0][0]
        if any(v[0] != body for v in variants):
            raise U(rule, f"{tag}: text differs between the with-weight and without-weight paths", fn_disp)
        problems = []
        # 1. accepted by its own branch
        if len(st.regexes) != 1 or st.regexes[0] is None:
            problems.append("its parser branch is not guarded by one analysable regex")
        else:
            try:
                r, pre = prefix_of(st.regexes[0])
            except regexlang.Unsupported as e:
                problems.append(f"regex outside the analysed subset ({e})")
                pre = None
            if pre is not None:
                if len(pre) != len(body):
                    problems.append(f"the formatter writes {len(body)} characters before the weight, the parser's shape has {len(pre)}")
                else:
                    for i, (a, cls) in enumerate(zip(body, pre)):
                        ac = atom_chars(a)
                        if ac is None or not ac <= cls:
                            problems.append(f"character {i} written by the formatter ({a[0]} {a[1] if a[0] == 'lit' else ''}) is not accepted "
                                            f"by the parser's class {''.join(sorted(cls))}")
                if st.prob_from != len(body):
                    problems.append(f"the parser reads the weight from byte {st.prob_from}, the formatter starts it at byte {len(body)}")
        # 2. every field is read back from where it was written
        if st.kind != "SingleCardPair":
            ctor_paths = []
            # constructor order: pair fields then the extra rank of DoubleClosed
            base = f".{f_kind}.<{kind}>"
            nf = {"Pocket": 1, "Suited": 2, "Ofsuit": 2}[pair]
            for j in range(nf):
                ctor_paths.append(f"{base}.0.<{pair}>.{j}")
            if kind == "DoubleClosedRankPairRange":
                ctor_paths.append(f"{base}.1")
            for j, pos in enumerate(st.ranks):
                if pos is None or pos >= len(body):
                    problems.append(f"field {j} is not parsed from a byte of the shape")
                    continue
                a = body[pos]
                if a[0] != "rank" or path_of(a[1]) != ctor_paths[j]:
                    problems.append(f"the parser reads field {j} from byte {pos}, where the formatter wrote "
                                    f"{a[0]} {path_of(a[1]) if a[0] in ('rank', 'suit') else a[1]!r} (expected the rank {ctor_paths[j]})")
        else:
            base = f".{f_kind}.<SingleCardPair>.0"
            want = [("rank", base + ".0.0"), ("suit", base + ".0.1"), ("rank", base + ".1.0"), ("suit", base + ".1.1")]
            got = [(a[0], path_of(a[1]) if a[0] in ("rank", "suit") else a[1]) for a in body]
            if got != want or not (st.card_pair and st.card_pair[1:] == (0, 4)):
                problems.append(f"a card pair is written as {got}; the parser reads cards from s[0..4] as rank,suit,rank,suit")
        # 3. equalities / kind letter demanded by the branch hold for the written text
        for f in st.facts:
            if f[0] == "slices" and f[1] == "Eq":
                (a0, a1), (b0, b1) = f[2], f[3]
                if a1 - a0 == 1 and b1 - b0 == 1 and a0 < len(body) and b0 < len(body):
                    x, y = body[a0], body[b0]
                    same = (x == y) if x[0] == "lit" else (x[0] == y[0] and path_of(x[1]) == path_of(y[1]))
                    if not same:
                        problems.append(f"the parser demands bytes {a0} and {b0} to be equal; the formatter writes different things there")
            if f[0] == "slice-lit":
                (a0, a1) = f[2]
                if a0 < len(body):
                    x = body[a0]
                    holds = x[0] == "lit" and ((x[1] == f[3]) == (f[1] == "Eq"))
                    if not holds:
                        problems.append(f"the parser selects this shape by byte {a0} {f[1]} {f[3]!r}; the formatter writes {x}")
        # 4. no earlier branch accepts the same text
        for other in sites:
            if other.block >= st.block:
                break
            if not other.regexes or other.regexes[0] is None:
                continue
            try:
                r2, pre2 = prefix_of(other.regexes[0])
            except regexlang.Unsupported:
                continue
            if len(pre2) == len(body) and all((atom_chars(a) or frozenset()) & cls for a, cls in zip(body, pre2)):
                # same length and compatible classes: the earlier branch must be excluded by its own equalities
                excluded = False
                for f in other.facts:
                    if f[0] == "slices" and f[1] == "Eq":
                        a0, b0 = f[2][0], f[3][0]
                        x, y = body[a0], body[b0]
                        if x[0] == "lit" and y[0] == "lit" and x != y:
                            excluded = True
                    if f[0] == "slice-lit":
                        x = body[f[2][0]]
                        if x[0] == "lit" and ((x[1] == f[3]) != (f[1] == "Eq")):
                            excluded = True
                if not excluded and (other.kind, other.pair_variant) != (kind, pair):
                    # e.g. XYs vs XYo share the regex: decided by the kind letter fact above; same-regex siblings are fine
                    if other.regexes[0] != st.regexes[0]:
                        problems.append(f"the text also matches the earlier parser branch for {other.kind}({other.pair_variant})")
        if problems:
            ctx.violation(rule, f"{fn_disp.path}|{kind}-{pair}", f"{tag}: " + "; ".join(problems[:4]), fn=fn_disp.path, file=fn_disp.file,
                          line=fn_disp.line, construct=f"Display arm of {tag} vs parser branch at line {st.line}")
        else:
            n_ok += 1
            ctx.ok(rule, {"token": tag, "text": "".join("R" if a[0] == "rank" else "S" if a[0] == "suit" else a[1] for a in body),
                          "parser_line": st.line}, sample=True)
    if not only_weight:
        ctx.floor("token shapes emitted by the formatter", len(shapes), 10)
    # ---- weight suffix --------------------------------------------------------------------------
    rule2 = prefix + ".weight-text"
    ctx.rule(rule2, "the weight is written exactly when it is not 1.0, as ':' + default f32 Display" +
             ("" if only_weight else ", which the weight grammar accepts; omitted = parser default"))
    okw = True
    for (kind, pair), variants in shapes.items():
        with_w = [v for v in variants if v[1] is not None]
        without = [v for v in variants if v[1] is None]
        if len(with_w) != 1 or len(without) != 1:
            okw = False
            ctx.violation(rule2, f"{fn_disp.path}|suffix-paths|{kind}-{pair}", f"{kind}({pair}): expected one path writing the weight and one omitting it",
                          fn=fn_disp.path, file=fn_disp.file, line=fn_disp.line)
            continue
        for (body, wpart, conds), want_truth in ((with_w[0], False), (without[0], True)):
            good = False
            if len(conds) == 1:
                term, truth = conds[0]
                rel = I.norm_rel(term, truth)
                if rel and rel[0] in ("Eq", "Ne"):
                    a, b = P.strip(rel[1]), P.strip(rel[2])
                    one = [x for x in (a, b) if x[0] == "float" and x[1] == 0x3F800000]
                    fld = [x for x in (a, b) if path_of(x) == f".{f_prob}"]
                    if one and fld and ((rel[0] == "Eq") == want_truth):
                        good = True
            if not good:
                okw = False
                ctx.violation(rule2, f"{fn_disp.path}|suffix-condition",
                              "the weight suffix is not controlled by the exact test `weight == 1.0`: a weight that prints without suffix but is "
                              "not 1.0 parses back as 1.0 (and looks mergeable with weight-1 neighbours)",
                              fn=fn_disp.path, file=fn_disp.file, line=fn_disp.line, construct="weight suffix condition")
                break
            if wpart is not None and path_of(wpart[1]) != f".{f_prob}":
                okw = False
                ctx.violation(rule2, f"{fn_disp.path}|suffix-value", "the written weight is not the token's own weight", fn=fn_disp.path,
                              file=fn_disp.file, line=fn_disp.line)
    # grammar accepts f32 Display of [0,1); default of the weight parser is the omitted value 1.0
    for st in (sites if not only_weight else []):
        if st.regexes and st.regexes[0]:
            try:
                r = regexlang.parse(st.regexes[0])
                tail = r.optional_tail()
            except regexlang.Unsupported:
                tail = None
            if tail is None or not r.anchored_end or not accepts_unit_decimals(tail):
                okw = False
                ctx.violation(rule2, f"{TM.fn.path}|tail-rejects-display|{st.kind}-{st.pair_variant}",
                              f"the weight grammar of {st.kind}({st.pair_variant}) does not accept every text `0` / `0.ddd…` that f32 Display "
                              f"produces for weights in [0,1)", fn=TM.fn.path, file=TM.fn.file, line=st.line)
    if TM.prob_fn and not only_weight:
        pf = F.fns[TM.prob_fn]
        r = P.Prov(pf).local(0)
        if not (r[0] == "call" and r[1].rsplit("::", 1)[-1] == "unwrap_or" and r[2][1] == ("float", 0x3F800000, "f32")):
            okw = False
            ctx.violation(rule2, f"{pf.path}|default", "the weight parser's default is not 1.0, the value whose suffix the formatter omits",
                          fn=pf.path, file=pf.file, line=pf.line)
    if okw:
        ctx.ok(rule2, {"suffix": "written iff weight != 1.0 (exact)", "text": "':' + f32 Display (shortest round-tripping decimal)",
                       "grammar": "accepts 0 and 0.d+ ; default 1.0"}, sample=True)


def rule_separator(ctx, F):
    rule = "C06.separator"
    ctx.rule(rule, "tokens are joined by the separator the range parser splits on; no token text contains it or a space")
    disp = F.impl_fn("std::fmt::Display", HR, "fmt")
    pr = P.Prov(disp)
    lits = []
    for bi, pieces, vals in fmt.format_calls(disp, pr):
        for pc in pieces:
            if pc[0] == "lit":
                lits.append(pc[1])
    for bi, t in disp.calls():
        if t["callee"].get("name") == "write_str":
            s = P.strip(pr.operand(t["args"][1]))
            lits.append(s[1] if s[0] == "str" else None)
    seps = sorted({x.replace(" ", "") for x in lits if x and x.replace(" ", "")})   # the parser drops spaces before splitting
    parser = F.impl_fn("std::str::FromStr", HR, "from_str")
    pp = P.Prov(parser)
    split = None
    for bi, t in parser.calls():
        if t["callee"].get("name") == "split":
            s = P.strip(pp.operand(t["args"][1]))
            split = s[1] if s[0] == "str" else chr(s[1]) if s[0] == "char" else None
    rank_chars, suit_chars = c05.char_set(F, RANK), c05.char_set(F, SUIT)
    alphabet = set(rank_chars) | set(suit_chars) | set("so+-:.0123456789")
    if seps == [split] and split is not None and split not in alphabet and " " not in alphabet and None not in lits:
        ctx.ok(rule, {"formatter_separator": seps, "parser_split": split, "token_alphabet": "".join(sorted(alphabet))}, sample=True)
    else:
        ctx.violation(rule, f"{disp.path}|separator", f"the formatter joins tokens with {seps}; the parser splits on {split!r}",
                      fn=disp.path, file=disp.file, line=disp.line)


def run(ctx):
    ctx.explanation = ("static comparison of two extracted models — the symbolic text of every token kind (fmt templates decoded, nested "
                       "Display impls expanded to rank/suit/literal characters and the f32 weight) against the parser's branch for that "
                       "kind (regex layout, byte→field map, equalities, kind letter, weight offset/grammar) — plus the weight-suffix "
                       "condition and the range-level separator. This decides the token-level round trip of the property and the "
                       "separator clause. That the token list emitted for a *range* denotes exactly that range (run merging, "
                       "leftovers) is NOT decided.")
    F = ctx.facts("lib")
    TM = tokmodel.get(F)
    for f in (lambda: rule_tokens(ctx, F, TM), lambda: rule_separator(ctx, F)):
        try:
            f()
        except Unrecognised as e:
            ctx.unrecognised(e.rule if e.rule.startswith("C06") else "C06." + e.rule, e.msg, e.fn, e.line)
    # range level, necessary conditions: the run-length passes close / continue / open runs as the template demands and
    # the leftover pass emits every leftover combo (an absent pair swallowed by a run, or a dropped run, breaks the round trip)
    try:
        from rules import runpass
        runpass.run_rules(ctx, F, "C06")
    except Unrecognised as e:
        ctx.unrecognised("C06.run-merging", e.msg, e.fn, e.line)
    # bit-identical weights: the split into rank pairs must compare weights exactly and against the probe's weight (C12's rule)
    try:
        from rules import c12
        from sa.report import PrefixCtx
        c12.run(PrefixCtx(ctx, "C12", "C06", allowed=["probes", "leftovers"]))
    except Unrecognised as e:
        ctx.unrecognised("C06.probes", e.msg, e.fn, e.line)
    ctx.assume("tokens are well formed (ranks ordered as the notation requires, the two cards of a card pair differ): the parser's order / distinctness guards are the token's domain")
    ctx.assume("f32 Display prints the shortest decimal that parses back to the same bits, without exponent, and f32::from_str inverts it (std guarantee)")
    ctx.assume("that the emitted token list denotes exactly the range is not decided (run merging and leftovers are runtime behaviour)")
