"""C04 — scoped evaluators tile the enumeration (two structural clauses).

 1. exhaustion is idempotent: no path to the exhausted `None` writes a field that any branch on
    that path reads  => once exhausted, always exhausted (proved for every input);
 2. scope plumbing: scope(a,b,c,d) -> evaluator fields -> iterator start/end fields, new() = (0,1,L-1,L),
    and the exhaustion test compares (current turn, turn end) and (current river, river end).
Not decided: the position arithmetic (order, rollover, exact scope edges)."""
from sa import idioms as I, prov as P
from sa.report import Unrecognised
from rules import evalmodel


def self_fields(t, param=1):
    out = set()
    for s in P.walk(t):
        if s[0] == "field" and s[1] == ("deref", ("param", param)):
            out.add(s[2])
    return out


def none_origins(fn, pr):
    out = []
    for b in sorted(fn.cfg.reachable):
        for s in fn.blocks[b]["stmts"]:
            if s["k"] == "assign" and s["place"]["l"] == 0 and not s["place"]["proj"]:
                t = pr.rvalue(s["rv"])
                if t[0] == "agg" and t[1].endswith("Option::None"):
                    out.append(b)
    return out


def writes_in_block(fn, pr, b, fields):
    """stores to (*self).k… or &mut borrows of it, for k in fields, inside block b."""
    out = []
    blk = fn.blocks[b]

    def hit(pl):
        pj = pl["proj"]
        return pl["l"] == 1 and len(pj) >= 2 and pj[0] == "deref" and isinstance(pj[1], dict) and pj[1].get("f") in fields

    for s in blk["stmts"]:
        if s["k"] != "assign":
            continue
        if hit(s["place"]):
            out.append((s["line"], f"store to self.{s['place']['proj'][1].get('name')}"))
        rv = s["rv"]
        if "ref" in rv and rv.get("mut") and hit(rv["ref"]):
            out.append((s["line"], f"&mut borrow of self.{rv['ref']['proj'][1].get('name')}"))
        if "ref" in rv and rv.get("mut") and rv["ref"]["l"] == 1 and rv["ref"]["proj"] == ["deref"]:
            out.append((s["line"], "&mut reborrow of the whole iterator"))
    t = blk["term"]
    if t["k"] == "call" and hit(t["dest"]):
        out.append((blk["line"], "call result stored into self"))
    return out


def rule_idempotent(ctx, M):
    rule = "C04.exhaustion-idempotent"
    ctx.rule(rule, "no path to the exhausted None writes a field read by a branch on that path")
    fn = M.deal
    pr = P.Prov(fn)
    origins = none_origins(fn, pr)
    if not origins:
        raise Unrecognised(rule, "no `None` return originates in the deal function", fn.path, fn.line)
    for R in origins:
        chop = fn.cfg.chop(0, R)
        E = set()
        for b in chop:
            t = fn.blocks[b]["term"]
            if t["k"] == "switch":
                E |= self_fields(pr.operand(t["on"]))
        if not E:
            raise Unrecognised(rule, "the exhausted return does not depend on the iterator's fields", fn.path, fn.blocks[R]["line"])
        names = [M.iter_field_names()[k] for k in sorted(E)]
        bad = []
        for b in sorted(chop):
            bad += writes_in_block(fn, pr, b, E)
        if bad:
            line, what = bad[0]
            ctx.violation(rule, f"{fn.path}|write-before-exhausted-return",
                          f"{what} on a path to the exhausted `None` (fields read by its tests: {names}): a later next() "
                          f"can see a different state and resume", fn=fn.path, file=fn.file, line=line,
                          construct="state write on the path entry -> exhausted return")
        else:
            ctx.ok(rule, {"origin_line": fn.blocks[R]["line"], "fields_read": names, "path_blocks": len(chop)}, sample=True)
    # the wrapper(s) between Iterator::next and the origin function must not write at all before/after
    if M.next.path != fn.path:
        w = M.next
        prw = P.Prov(w)
        allE = set(range(len(M.iter_field_names())))
        bad = []
        for b in sorted(w.cfg.reachable):
            bad += [x for x in writes_in_block(w, prw, b, allE) if "whole iterator" not in x[1]]
        if bad:
            ctx.violation(rule, f"{w.path}|wrapper-writes-state",
                          f"{bad[0][1]} in the next() wrapper: exhaustion of the deal function may not be final",
                          fn=w.path, file=w.file, line=bad[0][0])
        else:
            # the wrapper must hand the callee's None straight back
            ctx.ok(rule, {"wrapper": w.path, "writes_to_state": 0}, sample=True)


def rule_plumbing(ctx, M, prefix="C04"):
    rule = prefix + ".plumbing"
    ctx.rule(rule, "scope(a,b,c,d) reaches the iterator's start-turn/start-river/end-turn/end-river; new() = (0,1,L-1,L); exhaustion compares the right pairs")
    pl = M.plumbing()
    names = M.iter_field_names()
    ev_names = [f["name"] for f in M.eval_adt["variants"][0]["fields"]]
    # stores in scope() dominate its return
    rets = M.scope.cfg.return_blocks()
    for role, (evf, itf, sb) in pl.items():
        if not all(M.scope.cfg.dominates(sb, r) for r in rets):
            ctx.violation(rule, f"{M.scope.path}|conditional-store|{role}", f"scope() stores {role} only on some paths",
                          fn=M.scope.path, file=M.scope.file, line=M.scope.line)
            return
    if len({v[0] for v in pl.values()}) != 4 or len({v[1] for v in pl.values()}) != 4:
        ctx.violation(rule, f"{M.scope.path}|aliasing", f"two scope parameters share a field: {pl}", fn=M.scope.path,
                      file=M.scope.file, line=M.scope.line)
        return
    ctx.ok(rule, {r: f"param{k + 1} -> evaluator.{ev_names[v[0]]} -> iterator.{names[v[1]]}" for k, (r, v) in enumerate(pl.items())},
           sample=True)
    # new(): defaults
    pn = P.Prov(M.new)
    t = pn.local(0)
    if not (t[0] == "agg" and t[1].startswith("adt:" + evalmodel.EVAL)):
        raise Unrecognised(rule, "new() does not build the evaluator by a struct literal", M.new.path, M.new.line)
    L_ = M.deck_len
    want = {"turn_from": 0, "river_from": 1, "turn_to": L_ - 1, "river_to": L_}
    for role, w in want.items():
        v = P.const_int(t[2][pl[role][0]])
        if v != w:
            ctx.violation(rule, f"{M.new.path}|default-{role}", f"new() initialises {role} to {v}; the full enumeration over the "
                          f"{L_}-card deck is [(0,1),({L_ - 1},{L_}))", fn=M.new.path, file=M.new.file, line=M.new.line)
        else:
            ctx.ok(rule, f"new(): {role} = {w}")
    # exhaustion test: cur_turn >= turn_to && cur_river >= river_to  (any equivalent operator form)
    fn = M.deal
    pr = P.Prov(fn)
    origins = none_origins(fn, pr)
    pairs = {("turn_from", "turn_to"), ("river_from", "river_to")}
    found = set()
    for b, lab, truth, term in I.bool_edges(fn, pr):
        n = I.norm_rel(term, truth)
        if not n or n[0] == "call":
            continue
        op, x, y = n
        for (a, z) in pairs:
            fa, fz = M.self_field(pl[a][1]), M.self_field(pl[z][1])
            if P.strip(x) == fa and P.strip(y) == fz and op == "Ge":
                found.add((a, z, b, lab))
            if P.strip(x) == fz and P.strip(y) == fa and op == "Le":
                found.add((a, z, b, lab))
    got = {(a, z) for (a, z, _, _) in found}
    if got != pairs:
        ctx.violation(rule, f"{fn.path}|exhaustion-test",
                      f"the exhaustion test does not compare (current turn >= end turn) and (current river >= end river); "
                      f"found {sorted(got)}", fn=fn.path, file=fn.file, line=fn.line)
        return
    # one of the None origins must be guarded by both
    edges_t = [(b, lab) for (a, z, b, lab) in found if a == "turn_from"]
    edges_r = [(b, lab) for (a, z, b, lab) in found if a == "river_from"]
    okk = any(I.guarded_by(fn, R, edges_t) and I.guarded_by(fn, R, edges_r) for R in origins)
    if okk:
        ctx.ok(rule, "exhausted return guarded by turn >= turn_to && river >= river_to", sample=True)
    else:
        ctx.violation(rule, f"{fn.path}|exhaustion-guard", "no exhausted return is guarded by both end comparisons",
                      fn=fn.path, file=fn.file, line=fn.line)


def rule_successor(ctx, M, prefix="C04"):
    """the position moves to its lexicographic successor: river+1 while river < L-1, else (turn+1, turn+2);
    nothing else writes the position (necessary for 'position by position in that order' and for landing exactly
    on a scope's end, which the >=-shaped exhaustion test relies on)."""
    rule = prefix + ".successor"
    ctx.rule(rule, "the only writes to the position are river += 1 (under river < L-1) and turn += 1; river = turn + 1, outside any loop")
    pl = M.plumbing()
    T, R = pl["turn_from"][1], pl["river_from"][1]
    L_ = M.deck_len
    reach = M.cg.reach([M.next.path])
    stores = {T: [], R: []}
    borrows = []
    for p in sorted(reach):
        fn = M.F.fns[p]
        if fn.local_ty(1) if fn.arg_count else "" != "&mut " + M.iter_ty:
            pass
        if fn.arg_count < 1 or fn.local_ty(1) != "&mut " + M.iter_ty:
            continue
        pr = P.Prov(fn)
        loops = fn.cfg.loops()
        in_loop = set().union(*loops.values()) if loops else set()
        # the next() wrapper's own retry loop does not count when the deal function is separate
        for l, lst in pr.stores.items():
            for (sb, si, pj, rv) in lst:
                proj = pj["proj"]
                if pj["l"] == 1 and len(proj) == 2 and proj[0] == "deref" and proj[1].get("f") in (T, R):
                    val = pr.rvalue(rv) if "callterm" not in rv else None
                    stores[proj[1]["f"]].append((fn, sb, val, sb in in_loop))
        for bi in sorted(fn.cfg.reachable):
            for s_ in fn.blocks[bi]["stmts"]:
                if s_["k"] == "assign" and "ref" in s_["rv"] and s_["rv"].get("mut"):
                    rp = s_["rv"]["ref"]
                    if rp["l"] == 1 and len(rp["proj"]) >= 2 and rp["proj"][0] == "deref" and isinstance(rp["proj"][1], dict) \
                            and rp["proj"][1].get("f") in (T, R):
                        borrows.append((fn, s_["line"]))
    fT, fR = M.self_field(T), M.self_field(R)
    problems = []

    def plus1(v, base):
        return v is not None and v[0] == "bin" and v[1] == "Add" and P.strip(v[2]) == base and P.const_int(v[3]) == 1
    if borrows:
        problems.append((borrows[0][0], borrows[0][1], "the position is mutably borrowed (updated through a reference)"))
    if len(stores[T]) != 1 or not plus1(stores[T][0][2], fT):
        fn0 = stores[T][0][0] if stores[T] else M.deal
        problems.append((fn0, fn0.line, f"the turn index is written {len(stores[T])} time(s) / not as `turn += 1`"))
    r_inc = [x for x in stores[R] if plus1(x[2], fR)]
    r_roll = [x for x in stores[R] if plus1(x[2], fT) or (x[2] is not None and x[2][0] == "bin" and x[2][1] == "Add" and P.strip(x[2][2]) == fT and P.const_int(x[2][3]) == 2)]
    if len(stores[R]) != 2 or len(r_inc) != 1 or len(r_roll) != 1:
        fn0 = stores[R][0][0] if stores[R] else M.deal
        problems.append((fn0, fn0.line, f"the river index is written {len(stores[R])} time(s); expected `river += 1` and `river = turn + 1`"))
    for f_, lst in stores.items():
        for (fn, sb, val, inl) in lst:
            if inl:
                problems.append((fn, fn.blocks[sb]["line"], "a position update sits inside a loop (the position can jump over rows)"))
    if not problems:
        fn, sb, val, _ = r_inc[0]
        pr = P.Prov(fn)
        def is_r(t):
            return t == fR or P.strip(P.unwiden(t)) == fR          # `river < 48` or `(river as usize) < DECK_LEN - 1`
        e_lt = I.edges_implying(fn, pr, "Lt", is_r, lambda t: P.const_int(t) == L_ - 1) + \
            I.edges_implying(fn, pr, "Le", is_r, lambda t: P.const_int(t) == L_ - 2)
        if not e_lt or not I.guarded_by(fn, sb, e_lt):
            problems.append((fn, fn.blocks[sb]["line"], f"`river += 1` is not guarded by `river < {L_ - 1}` (the last deck index)"))
        tb = stores[T][0][1]
        e_ge = I.edges_implying(fn, pr, "Ge", is_r, lambda t: P.const_int(t) == L_ - 1) + \
            I.edges_implying(fn, pr, "Gt", is_r, lambda t: P.const_int(t) == L_ - 2)
        if stores[T][0][0] is fn and (not e_ge or not I.guarded_by(fn, tb, e_ge)):
            problems.append((fn, fn.blocks[tb]["line"], f"`turn += 1` is not guarded by `river >= {L_ - 1}`"))
    if problems:
        for (fn, line, what) in problems[:3]:
            ctx.violation(rule, f"{fn.path}|{what.split('(')[0].strip().replace(' ', '-')[:50]}", what, fn=fn.path, file=fn.file, line=line,
                          construct="position update")
    else:
        ctx.ok(rule, {"river": f"+= 1 under river < {L_ - 1}", "rollover": "turn += 1; river = turn + 1", "other_writes": 0}, sample=True)


def rule_scope_independent(ctx, M, prefix="C04"):
    """what an evaluator deals at a position must not depend on its scope: in the iterator constructor the four
    scope values flow only into the four start/end fields (no branch, no arithmetic, no filtering on them)."""
    rule = prefix + ".scope-independence"
    ctx.rule(rule, "the scope values are only copied into the iterator's start/end fields; nothing else is computed from them at construction")
    pl = M.plumbing()
    ev_fields = {v[0]: r for r, v in pl.items()}
    fn = M.ctor
    pr = P.Prov(fn)

    def scope_roles(t):
        out = set()
        for s_ in P.walk(t):
            if s_[0] == "field" and P.strip(s_[1]) == ("param", 1) and s_[2] in ev_fields:
                out.add(ev_fields[s_[2]])
        return out
    bad = []
    for b in sorted(fn.cfg.reachable):
        blk = fn.blocks[b]
        for st in blk["stmts"]:
            if st["k"] != "assign":
                continue
            rv = st["rv"]
            if any(k in rv for k in ("bin", "un")) or ("cast" in rv):
                ops = [rv[k] for k in ("a", "b") if k in rv]
                for o in ops:
                    r = scope_roles(pr.operand(o))
                    if r:
                        bad.append((st["line"], f"computes with the scope value {sorted(r)}"))
        t = blk["term"]
        if t["k"] == "switch":
            r = scope_roles(pr.operand(t["on"]))
            if r:
                bad.append((blk["line"], f"branches on the scope value {sorted(r)}"))
        if t["k"] == "call":
            for a in t["args"]:
                r = scope_roles(pr.operand(a))
                if r:
                    bad.append((blk["line"], f"passes the scope value {sorted(r)} to {I.callee_path(t)}"))
    if bad:
        line, what = bad[0]
        ctx.violation(rule, f"{fn.path}|{what.split('[')[0].strip().replace(' ', '-')}",
                      f"the iterator constructor {what}: what is dealt at a position then depends on the scope, so a scoped run is no "
                      f"longer a window of the unscoped run", fn=fn.path, file=fn.file, line=line, construct="use of a scope value at construction")
    else:
        ctx.ok(rule, {"ctor": fn.path, "scope_values": "copied into the start/end fields only"}, sample=True)


def run(ctx):
    ctx.explanation = ("static: (1) write-freedom of every path to the exhausted return w.r.t. the fields its branch "
                       "conditions read, which proves 'afterwards stays exhausted' for every input (no other state exists, "
                       "C15); (2) dataflow of the four scope parameters into the iterator and the shape of the exhaustion "
                       "test. The position arithmetic (lexicographic order, rollover, scope edges) is NOT decided.")
    F = ctx.facts("lib")
    M = evalmodel.get(F)
    ctx.analysed([M.deal, M.next, M.scope, M.new, M.ctor])
    for f in (rule_idempotent, rule_plumbing, rule_successor, rule_scope_independent):
        try:
            f(ctx, M)
        except Unrecognised as e:
            ctx.unrecognised(e.rule, e.msg, e.fn, e.line)
    ctx.assume("the iterator has no state outside its own fields (C15)")
    ctx.assume("that the walk visits positions in lexicographic order follows from the successor shape; which showdowns are yielded at a position is C02's matter")
