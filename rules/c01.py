"""C01 — the evaluated power index is the standard strength class of the best five of seven.

Decided statically: the evaluator is constant tables + index constants + three short loops.
 1. extraction of tables / hash constants / dispatch tree / walk order from MIR,
 2. exhaustive agreement of the flush table (4719 rank subsets) with an independent oracle,
 3. exhaustive agreement of the no-flush table (49205 multiplicity vectors), perfect hash,
 4. order independence by loop shape (commutative folds over the whole 7-card parameter,
    threshold return justified by pigeonhole),
 5. ordering of MadeHand = ordering of the index,
 6. dp_ref call argument provenance and update order.
"""
from itertools import combinations

import re
from sa import dtree, idioms as I, loops as L, poker, prov as P
from sa.report import Unrecognised

MADE_HAND = "evaluator::made_hand::MadeHand"
CARD = "card::card::Card"
RANK = "card::rank::Rank"
SUIT = "card::suit::Suit"

STRENGTH = {"Ace": 12, "King": 11, "Queen": 10, "Jack": 9, "Ten": 8, "Nine": 7, "Eight": 6,
            "Seven": 5, "Six": 4, "Five": 3, "Four": 2, "Trey": 1, "Deuce": 0}

WHOLE_ARRAY_ITER_CALLS = (
    "std::array::<impl std::iter::IntoIterator for &'a [T; N]>::into_iter",
    "core::slice::<impl [T]>::iter",
    "<I as std::iter::IntoIterator>::into_iter",
    "std::array::iter::<impl std::iter::IntoIterator for [T; N]>::into_iter",
)


SLICE_LEN = "core::slice::<impl [T]>::len"


def U(rule, msg, fn=None):
    return Unrecognised(rule, msg, fn.path if fn else None, fn.line if fn else None)


# ---------------------------------------------------------------------------------------------
def code_table(F, enum_path, by_ref=True):
    """variant -> u8 code of `impl From<&Enum> for u8` (decision tree)."""
    tr = f"std::convert::From<&{enum_path}>"
    fn = F.impl_fn(tr, "u8", "from")
    tab = I.enum_match_table(F, fn, enum_path)
    out = {}
    for k, t in tab.items():
        v = I.int_leaf(t) if t and t[0] != "diverge" else None
        if v is None:
            raise U("C01.extract", f"code of {enum_path}::{k} is not a constant", fn)
        out[k] = v
    return out, fn


def is_code_call(F, path, enum_path):
    """is `path` the u8 code conversion of enum_path (by ref, or by value forwarding to by ref)?"""
    fn = F.fns.get(path)
    if fn is None or not fn.impl or fn.impl.get("self_ty") != "u8":
        return False
    tr = fn.impl.get("trait") or ""
    if tr == f"std::convert::From<&{enum_path}>":
        return True
    if tr == f"std::convert::From<{enum_path}>":
        tgt = I.forwarding_target(F, fn)
        return tgt is not None and tgt.impl and tgt.impl.get("trait") == f"std::convert::From<&{enum_path}>"
    return False


def card_getter(F, path, want_ty):
    """is `path` a getter of Card returning a reference to its field of type want_ty?"""
    fn = F.fns.get(path)
    if fn is None or not fn.impl or fn.impl.get("self_ty") != CARD:
        return False
    g = I.getter_field(fn)
    if g is None:
        return False
    adt = F.adts[CARD]
    fld = adt["variants"][0]["fields"][g[0]]
    return fld["ty"] == want_ty


ORDER_ONLY = ("std::iter::Iterator::rev", "std::iter::Iterator::copied", "std::iter::Iterator::cloned")


def whole_param_loop(fn, loop, param=1, order_free=False):
    """the loop visits every element of the card array parameter; with order_free (a commutative fold / per-suit count whose
    result does not depend on the visiting order) `rev()` and `copied()` are allowed as well"""
    src, chain = loop.chain()
    if P.strip(src) != ("param", param):
        return False, f"iterates {P.show(src)} instead of the whole card array parameter"
    for c in chain:
        if order_free and c in ORDER_ONLY:
            continue
        if c not in WHOLE_ARRAY_ITER_CALLS:
            return False, f"iterator adaptor {c} between the card array and the loop"
    return True, ""


def is_assert_switch(fn, b):
    """a switch one of whose arms can only diverge (the failing side of an `assert!` / `debug_assert!`): it selects
    nothing about the computed value"""
    rets = set(fn.cfg.return_blocks())
    for _lab, tgt in fn.cfg.succ_edges[b]:
        r = I.reachable_avoiding(fn, [], start=tgt)
        if not (r & rets) and b not in r and all(fn.blocks[x]["term"]["k"] != "switch" for x in r):
            ends = [x for x in r if not fn.cfg.succ_edges[x]]
            if ends and all(fn.blocks[x]["term"]["k"] in ("call", "unreachable") for x in ends):
                return True
    return False


def check_calls_whitelisted(F, fn, allowed_pred, rule):
    for bi, t in fn.calls():
        if bi not in fn.cfg.reachable:
            continue
        p = I.callee_path(t)
        if p.startswith("core::panicking::") or p.startswith("std::rt::panic") or p.startswith("std::rt::begin_panic"):
            continue        # a diverging assertion failure contributes nothing to the computed value (C08's audit owns it)
        if not allowed_pred(p, t):
            raise U(rule, f"unexplained call to {p} in {fn.path} (line {fn.blocks[bi]['line']})", fn)


def item_of_loop(t, loop):
    """is term t (after stripping refs) the item of `loop`?"""
    s = P.strip(t)
    return s == loop.item_term or s == P.strip(loop.item_term)


def is_getter_of_item(F, t, loop, want_ty):
    """t == getter(item) where getter returns &field of type want_ty"""
    s = P.strip(t)
    return s[0] == "call" and card_getter(F, s[1], want_ty) and len(s[2]) == 1 and item_of_loop(s[2][0], loop)


def is_code_of(F, t, inner_pred, enum_path):
    """t == (u8::from(inner) as usize) or u8::from(inner) or usize::from(u8::from(inner))"""
    s = P.unwiden(t)
    if s[0] == "call" and is_code_call(F, s[1], enum_path) and len(s[2]) == 1:
        return inner_pred(s[2][0])
    return False


# ---------------------------------------------------------------------------------------------
def extract_from(F, anchor):
    """the two arms of From<[Card;7]>: tables, hash functions, the flush finder."""
    try:
        paths, pr = dtree.enumerate_paths(anchor)
    except dtree.NotLoopFree:
        raise U("C01.extract", "From<[Card;7]>::from contains a loop", anchor)
    arms = {}
    for p in paths:
        if p.end != "return":
            continue
        t = dtree.last_assign(anchor, p, 0, pr)
        if t and t[0] == "agg" and len(t[2]) == 1 and t[2][0][0] == "phi":
            # `let v = if let Some(s) = .. { A[..] } else { B[..] }; MadeHand(v)`: the value chosen on this path
            t = dtree.path_term(anchor, p, 0)
        if not (t and t[0] == "agg" and t[1] == f"adt:{MADE_HAND}::MadeHand" and len(t[2]) == 1):
            raise U("C01.extract", f"result is not MadeHand(table[hash]): {P.show(t) if t else t}", anchor)
        x = t[2][0]
        if not (x[0] == "index" and x[1][0] == "named"):
            raise U("C01.extract", f"index is not read from a constant table: {P.show(x)}", anchor)
        table = x[1][1]
        idx = P.unwiden(x[2])
        fused_call = None
        if idx[0] == "field" and idx[2] == 0 and idx[1][0] == "variant" and idx[1][2] == "Some" and P.strip(idx[1][1])[0] == "call" \
                and P.strip(idx[1][1])[1] in F.fns:
            # `match flush_key(&cards) { Some(key) => AS_FLUSH[key], None => .. }`: detection and hashing fused in one function
            fused_call = P.strip(idx[1][1])
            idx = fused_call
        if idx[0] != "call" or idx[1] not in F.fns:
            raise U("C01.extract", f"table index is not a call of a crate function: {P.show(idx)}", anchor)
        # which arm: the discriminant test of the finder's result
        arm = None
        finder = None
        for (b, ct, lab, ty, others) in p.conds:
            if ct[0] == "discr" and P.strip(ct[1])[0] == "call":
                finder = P.strip(ct[1])
                if lab == "otherwise":
                    arm = "None" if others == [1] else ("Some" if others == [0] else None)
                else:
                    arm = {0: "None", 1: "Some"}.get(lab)
            else:
                raise U("C01.extract", f"unexpected branch {P.show(ct)}", anchor)
        if arm is None or finder is None:
            raise U("C01.extract", "arm not selected by the Option discriminant of the flush finder", anchor)
        if arm in arms:
            raise U("C01.extract", f"two paths for arm {arm}", anchor)
        arms[arm] = dict(table=table, hash_fn=idx[1], hash_args=idx[2], finder=finder, fused=fused_call is not None)
    if set(arms) != {"Some", "None"}:
        raise U("C01.extract", f"expected a Some and a None arm, found {sorted(arms)}", anchor)
    f = arms["Some"]["finder"]
    if arms["None"]["finder"] != f or [P.strip(a) for a in f[2]] != [("param", 1)]:
        raise U("C01.extract", "flush finder is not called once on the whole card array", anchor)
    if arms["Some"].get("fused"):
        if arms["Some"]["hash_fn"] != f[1]:
            raise U("C01.extract", "the flush key is not the payload of the tested call", anchor)
        na = [P.strip(a) for a in arms["None"]["hash_args"]]
        if na != [("param", 1)]:
            raise U("C01.extract", "no-flush hash is not called with all cards", anchor)
        return arms, f[1]
    sa = [P.strip(a) for a in arms["Some"]["hash_args"]]
    want_suit = ("field", ("variant", f, "Some"), 0)
    if len(sa) != 2 or sa[0] != ("param", 1) or P.strip(arms["Some"]["hash_args"][1]) != P.strip(want_suit):
        raise U("C01.flush-suit", "flush hash is not called with (all cards, the detected suit): "
                + ", ".join(P.show(a) for a in sa), anchor)
    na = [P.strip(a) for a in arms["None"]["hash_args"]]
    if na != [("param", 1)]:
        raise U("C01.extract", "no-flush hash is not called with all cards", anchor)
    return arms, f[1]


def analyse_finder(ctx, F, fn):
    """template: fold counting suits, return the suit whose count reaches k (2k>7)."""
    rule = "C01.order-shape.finder"
    pr = P.Prov(fn)
    fl = L.for_loops(fn, pr)
    if len(fl) != 1 or len(fn.cfg.loops()) != 1:
        raise U(rule, f"expected exactly one for-loop, found {len(fl)}", fn)
    loop = fl[0]
    ok, why = whole_param_loop(fn, loop)
    if not ok:
        ctx.violation(rule, f"{fn.path}|loop-domain", why, fn=fn.path, file=fn.file, line=loop.line,
                      construct="loop over the seven cards")
        return None

    def allowed(p, t):
        return (L.is_next_call(t) or p in WHOLE_ARRAY_ITER_CALLS or card_getter(F, p, "card::suit::Suit")
                or is_code_call(F, p, SUIT) or P.is_widening_from(p))
    check_calls_whitelisted(F, fn, allowed, rule)

    def is_suit_of_item(t):
        return is_getter_of_item(F, t, loop, SUIT)

    # the per-suit counter array and its single store
    arrays = [l for l, st in pr.stores.items() if fn.local_ty(l).startswith("[")]
    if len(arrays) != 1 or len(pr.stores) != 1:
        raise U(rule, f"expected one counter array as the only stored-to place, found stores to "
                      f"{sorted(pr.stores)}", fn)
    A = arrays[0]
    a_term = pr.local(A)
    if not (a_term[0] == "repeat" and P.const_int(a_term[1]) == 0):
        raise U(rule, "counter array is not initialised to zeros", fn)
    n_slots = int(a_term[2])
    stores = pr.stores[A]
    if len(stores) != 1:
        raise U(rule, f"{len(stores)} stores into the counter array", fn)
    (sb, si, pl, rv) = stores[0]
    if len(pl["proj"]) != 1 or "idx" not in pl["proj"][0]:
        raise U(rule, "counter store is not arr[i] = ..", fn)
    idx_t = pr.local(pl["proj"][0]["idx"])
    if not is_code_of(F, idx_t, is_suit_of_item, SUIT):
        raise U(rule, f"counter index is not the suit code of the current card: {P.show(idx_t)}", fn)
    st = pr.rvalue(rv)
    if not (st[0] == "bin" and st[1] == "Add" and st[2] == ("index", a_term, idx_t) and P.const_int(st[3]) == 1):
        raise U(rule, f"counter update is not arr[i] += 1: {P.show(st)}", fn)
    codes, _ = code_table(F, SUIT)
    if max(codes.values()) >= n_slots:
        ctx.violation(rule, f"{fn.path}|counter-array-too-small",
                      f"suit codes reach {max(codes.values())} but the counter array has {n_slots} slots",
                      fn=fn.path, file=fn.file, line=fn.line)
    # switches: the loop switch and the threshold switch only
    thr_edges = []
    for b in sorted(fn.cfg.reachable):
        t = fn.blocks[b]["term"]
        if t["k"] != "switch":
            continue
        if b == fn.blocks[loop.next_block]["term"]["to"]:
            continue
        if t["ty"] != "bool":
            raise U(rule, f"unexplained switch at line {fn.blocks[b]['line']}", fn)
        term = pr.operand(t["on"])
        n = None
        for lab, tgt in fn.cfg.succ_edges[b]:
            truth = I.edge_truth(term, lab, [v for v, _ in t["arms"]])
            rel = I.norm_rel(term, truth)
            if rel is None:
                raise U(rule, f"unexplained condition {P.show(term)}", fn)
            op, x, y = rel
            if P.strip(x) == ("index", a_term, idx_t) and P.const_int(y) is not None:
                n = (op, P.const_int(y))
            elif P.strip(y) == ("index", a_term, idx_t) and P.const_int(x) is not None:
                n = (I.FLIP[op], P.const_int(x))
            else:
                raise U(rule, f"unexplained condition {P.show(term)}", fn)
            thr_edges.append((b, lab, tgt, n))
    # return sites
    some_blocks, none_blocks = [], []
    for b in sorted(fn.cfg.reachable):
        for s in fn.blocks[b]["stmts"]:
            if s["k"] == "assign" and s["place"]["l"] == 0 and not s["place"]["proj"]:
                t = pr.rvalue(s["rv"])
                if t[0] == "agg" and t[1].endswith("Option::Some"):
                    some_blocks.append((b, t))
                elif t[0] == "agg" and t[1].endswith("Option::None"):
                    none_blocks.append((b, t))
                else:
                    raise U(rule, f"unexplained return value {P.show(t)}", fn)
    if len(some_blocks) != 1 or len(none_blocks) != 1:
        raise U(rule, "expected one Some(..) and one None return", fn)
    sbk, st = some_blocks[0]
    if not is_suit_of_item(st[2][0]):
        ctx.violation(rule, f"{fn.path}|returned-suit",
                      f"the returned suit {P.show(st[2][0])} is not the suit of the card just counted",
                      fn=fn.path, file=fn.file, line=fn.blocks[sbk]["line"])
    if none_blocks[0][0] not in fn.cfg.reach_from(loop.exit_block) or none_blocks[0][0] in loop.body:
        raise U(rule, "None is not returned at loop exhaustion", fn)
    # the Some return must be guarded by (count >= k) edges, threshold k
    ks = set()
    guard_edges = []
    for (b, lab, tgt, (op, c)) in thr_edges:
        k = {"Ge": c, "Gt": c + 1, "Eq": c}.get(op)
        if k is not None:
            guard_edges.append((b, lab))
            ks.add(k)
    if not guard_edges or not I.guarded_by(fn, sbk, guard_edges, start=loop.header):
        raise U(rule, "Some(suit) is returned without the counter threshold test", fn)
    if len(ks) != 1:
        raise U(rule, f"several thresholds {sorted(ks)}", fn)
    k = ks.pop()
    key = f"{fn.path}|flush-threshold"
    if k != 5:
        ctx.violation(rule, key, f"flush threshold is {k} cards of one suit; a flush needs exactly 5 "
                      f"(and the early return is only order-independent when 2k > 7)",
                      fn=fn.path, file=fn.file, line=fn.blocks[sbk]["line"], construct="threshold comparison")
    else:
        ctx.ok(rule, {"fn": fn.path, "threshold": k, "counter_slots": n_slots,
                      "loop": "whole [Card;7], exits on exhaustion or first suit reaching 5 (pigeonhole: unique)"},
               sample=True)
    return k


def analyse_flush_hash(ctx, F, fn):
    """template: hash = Σ over all seven cards with suit == given suit of weight(rank)."""
    rule = "C01.order-shape.flush-hash"
    pr = P.Prov(fn)
    fl = L.for_loops(fn, pr)
    if len(fl) != 1 or len(fn.cfg.loops()) != 1:
        raise U(rule, f"expected exactly one for-loop, found {len(fl)}", fn)
    loop = fl[0]
    ok, why = whole_param_loop(fn, loop, order_free=True)     # the update is checked to be a commutative `+=` below
    if not ok:
        ctx.violation(rule, f"{fn.path}|loop-domain", why, fn=fn.path, file=fn.file, line=loop.line)
        return None

    def is_eq_call(p):
        # == / != on suits: which polarity guards the addition is decided from the edges below (norm_rel)
        return (p.endswith("::eq") or p.endswith("::ne")) and ("PartialEq" in p)

    def allowed(p, t):
        return (L.is_next_call(t) or p in WHOLE_ARRAY_ITER_CALLS or p in ORDER_ONLY or card_getter(F, p, SUIT)
                or card_getter(F, p, RANK) or is_eq_call(p) or is_code_call(F, p, RANK)
                or (p not in F.fns and p.rsplit("::", 1)[-1] in ("from", "into") and P.is_widening_from(p)))
    check_calls_whitelisted(F, fn, allowed, rule)
    if pr.stores:
        raise U(rule, "unexplained stores through projections", fn)
    # accumulator = returned local
    rets = fn.cfg.return_blocks()
    ret_t = pr.local(0)
    accs = [l for l in range(len(fn.locals)) if pr.local(l) == ret_t and l != 0 and len(pr.defs.get(l, [])) >= 2]
    if not accs:
        raise U(rule, "no accumulator found", fn)
    H = accs[0]
    alts = P.alts(pr.local(H))
    init = [a for a in alts if P.const_int(a) is not None]
    adds = [a for a in alts if a[0] == "bin"]
    if len(init) != 1 or P.const_int(init[0]) != 0 or len(adds) != 1 or len(alts) != 2:
        raise U(rule, f"accumulator is not `0` then `+= w`: {P.show(pr.local(H))}", fn)
    add = adds[0]
    if add[1] != "Add" or add[2] != ("self", H):
        raise U(rule, f"accumulator update is not a commutative `+=`: {P.show(add)}", fn)
    W = add[3]
    # the add must be guarded by suit(item) == param2, and only by that and the rank match
    add_blocks = [bi for (bi, si, kind, payload) in pr.defs[H] if bi in loop.body]
    eq_edges = []
    rank_switch = None
    for b in sorted(fn.cfg.reachable):
        t = fn.blocks[b]["term"]
        if t["k"] != "switch" or b == fn.blocks[loop.next_block]["term"]["to"]:
            continue
        term = pr.operand(t["on"])
        if t["ty"] == "bool":
            found = False
            for lab, tgt in fn.cfg.succ_edges[b]:
                truth = I.edge_truth(term, lab, [v for v, _ in t["arms"]])
                rel = I.norm_rel(term, truth)
                if rel is None:
                    raise U(rule, f"unexplained condition {P.show(term)}", fn)
                op, x, y = rel
                sx, sy = P.strip(x), P.strip(y)
                a_ok = is_getter_of_item(F, x, loop, SUIT) and sy == ("param", 2)
                b_ok = is_getter_of_item(F, y, loop, SUIT) and sx == ("param", 2)
                if not (a_ok or b_ok):
                    key = f"{fn.path}|suit-filter"
                    ctx.violation(rule, key, f"suit filter compares {P.show(sx)} with {P.show(sy)}: not "
                                  f"(current card's suit, detected suit)", fn=fn.path, file=fn.file,
                                  line=fn.blocks[b]["line"])
                    return None
                found = True
                if op == "Eq":
                    eq_edges.append((b, lab))
            if not found:
                raise U(rule, "bool switch without edges", fn)
        else:
            if term[0] == "discr" and is_getter_of_item(F, term[1], loop, RANK):
                if rank_switch is not None:
                    raise U(rule, "two rank matches", fn)
                rank_switch = b
            else:
                raise U(rule, f"unexplained switch on {P.show(term)}", fn)
    if not eq_edges:
        raise U(rule, "no `suit == detected suit` filter", fn)
    for ab in add_blocks:
        if not I.guarded_by(fn, ab, eq_edges, start=loop.header):
            ctx.violation(rule, f"{fn.path}|unfiltered-add", "a rank weight is added without the suit filter",
                          fn=fn.path, file=fn.file, line=fn.blocks[ab]["line"])
            return None
    # weight table from the rank switch arms
    if rank_switch is None:
        # computed weight (`1 << (12 - code(rank))`): fold the addend for each of the 13 ranks with the u8 code table
        codes, _ = code_table(F, RANK)

        def fold(t, rk):
            t = P.strip(t, calls=False)
            c = P.const_int(t)
            if c is not None:
                return c
            if t[0] == "cast":
                return fold(t[2], rk)
            if t[0] == "bin":
                a, b_ = fold(t[2], rk), fold(t[3], rk)
                if a is None or b_ is None:
                    return None
                op = t[1]
                if op == "Add":
                    return a + b_
                if op == "Mul":
                    return a * b_
                if op == "Sub" and a >= b_:
                    return a - b_
                if op == "Shl" and 0 <= b_ < 16:
                    return a << b_
                if op == "BitOr":
                    return a | b_
                if op == "BitAnd":
                    return a & b_
                return None
            if t[0] == "call" and len(t[2]) == 1:
                if is_code_call(F, t[1], RANK) and is_getter_of_item(F, t[2][0], loop, RANK):
                    return codes[rk]
                if is_code_call(F, t[1], RANK):
                    # the code of a constant rank (`u8::from(Rank::Deuce) - u8::from(rank)`)
                    a0 = P.strip(t[2][0])
                    nm_ = a0[2] if a0[0] == "enumc" else (a0[1].rsplit("::", 1)[-1] if a0[0] == "agg" and not a0[2] and a0[1].startswith("adt:" + RANK + "::") else None)
                    if nm_ in codes:
                        return codes[nm_]
                if P.is_widening_from(t[1]):
                    return fold(t[2][0], rk)
            return None
        weights = {rk: fold(W, rk) for rk in STRENGTH}
        if any(v is None or not (0 <= v < (1 << 16)) for v in weights.values()):
            raise U(rule, f"rank weights are neither a match on the rank nor a foldable expression of its code: {P.show(W)[:120]}", fn)
        ctx.ok(rule, {"fn": fn.path, "fold": "Σ weight(rank) over all 7 cards with suit == detected suit",
                      "weights": weights, "form": "computed from the rank code"}, sample=True)
        return weights
    w_alts = P.alts(W)
    sw = fn.blocks[rank_switch]["term"]
    weights = {}
    # find the local that receives the weights: the addend must be a local with one def per arm
    w_local = None
    for l, ds in sorted(pr.defs.items(), key=lambda kv: len(kv[1])):
        if pr.local(l) == W and l != H:
            w_local = l          # the one with a definition per arm (others are copies of it)
    if w_local is None:
        raise U(rule, "weight local not found", fn)
    for v, tgt in sw["arms"]:
        b = tgt
        val = None
        for _ in range(8):
            for s in fn.blocks[b]["stmts"]:
                if s["k"] == "assign" and s["place"]["l"] == w_local and not s["place"]["proj"]:
                    val = P.const_int(pr.rvalue(s["rv"]))
            t = fn.blocks[b]["term"]
            if val is not None or t["k"] not in ("goto", "assert"):
                break
            b = t["to"]
        if val is None:
            raise U(rule, f"weight of rank discriminant {v} is not a constant", fn)
        name = I.variant_by_discr(F, RANK, v)
        weights[name] = val
    if set(weights) != set(STRENGTH):
        raise U(rule, f"rank match does not cover the 13 ranks: {sorted(weights)}", fn)
    ctx.ok(rule, {"fn": fn.path, "fold": "Σ weight(rank) over all 7 cards with suit == detected suit",
                  "weights": weights}, sample=True)
    return weights


def analyse_fused_flush(ctx, F, fn):
    """template (flush detection and flush key in one pass): per-suit count and per-suit key arrays, both indexed by the suit
    code of the current card over all seven cards (`count[s] += 1; key[s] += weight(rank)`), then the key of the suit whose
    count reaches 5 (at most one suit can: 2 * 5 > 7), None when no suit does.  Returns (threshold, weights)."""
    rule = "C01.order-shape.flush-hash"
    rule_f = "C01.order-shape.finder"
    pr = P.Prov(fn)
    fl = L.for_loops(fn, pr)
    main = [lp for lp in fl if whole_param_loop(fn, lp, order_free=True)[0]]
    if len(main) != 1 or len(fl) != 2 or len(fn.cfg.loops()) != 2:
        raise U(rule, f"expected one loop over the seven cards and one scan of the suit counts, found {len(fl)} loops", fn)
    main = main[0]
    scan = [lp for lp in fl if lp is not main][0]
    if main.header in fn.cfg.reach_from(scan.header) or not fn.cfg.dominates(main.exit_block, scan.header):
        raise U(rule, "the scan of the suit counts does not follow the loop over the cards", fn)

    def allowed(p, t):
        return (L.is_next_call(t) or p in WHOLE_ARRAY_ITER_CALLS or p in ORDER_ONLY or card_getter(F, p, SUIT) or card_getter(F, p, RANK)
                or is_code_call(F, p, SUIT) or is_code_call(F, p, RANK) or P.is_widening_from(p) or p == "core::slice::<impl [T]>::iter")
    check_calls_whitelisted(F, fn, allowed, rule)
    arrays = sorted(l for l, st in pr.stores.items() if fn.local_ty(l).startswith("["))
    if len(arrays) != 2 or len(pr.stores) != 2:
        raise U(rule, f"expected a count array and a key array as the only stored-to places, found stores to {sorted(pr.stores)}", fn)
    info = {}
    for A in arrays:
        a_term = pr.local(A)
        if not (a_term[0] == "repeat" and P.const_int(a_term[1]) == 0) or len(pr.stores[A]) != 1:
            raise U(rule, "a per-suit array is not zero-initialised and updated in exactly one place", fn)
        (sb, si, pl, rv) = pr.stores[A][0]
        if sb not in main.body or not L.in_every_iteration(fn, main, sb) or len(pl["proj"]) != 1 or "idx" not in pl["proj"][0]:
            raise U(rule, "a per-suit array is not updated once per card", fn)
        idx_t = pr.local(pl["proj"][0]["idx"])
        if not is_code_of(F, idx_t, lambda t: is_getter_of_item(F, t, main, SUIT), SUIT):
            ctx.violation(rule_f, f"{fn.path}|suit-index", f"a per-suit array is indexed by {P.show(idx_t)[:80]}, not by the suit code of the current card",
                          fn=fn.path, file=fn.file, line=fn.blocks[sb]["line"])
            return None
        st = pr.rvalue(rv)
        if not (st[0] == "bin" and st[1] == "Add" and st[2] == ("index", a_term, idx_t)):
            raise U(rule, f"per-suit update is not `arr[suit] += ..`: {P.show(st)[:80]}", fn)
        info[A] = (a_term, int(a_term[2]), st[3], sb)
    cnt = [A for A in arrays if P.const_int(info[A][2]) == 1]
    key = [A for A in arrays if A not in cnt]
    if len(cnt) != 1 or len(key) != 1:
        raise U(rule, "could not tell the count array (+= 1) from the key array (+= weight)", fn)
    C_, K_ = cnt[0], key[0]
    codes, _ = code_table(F, SUIT)
    if max(codes.values()) >= min(info[C_][1], info[K_][1]):
        ctx.violation(rule_f, f"{fn.path}|counter-array-too-small", "suit codes exceed the per-suit arrays", fn=fn.path, file=fn.file, line=fn.line)
        return None
    # weights: a match on the rank with constant arms, or an expression of the rank code
    W = info[K_][2]
    rcodes, _ = code_table(F, RANK)

    def foldw(t, rk):
        t = P.strip(t, calls=False)
        c = P.const_int(t)
        if c is not None:
            return c
        if t[0] == "cast":
            return foldw(t[2], rk)
        if t[0] == "bin":
            a, b_ = foldw(t[2], rk), foldw(t[3], rk)
            if a is None or b_ is None:
                return None
            return {"Add": lambda: a + b_, "Mul": lambda: a * b_, "Sub": lambda: a - b_ if a >= b_ else None,
                    "Shl": lambda: a << b_ if 0 <= b_ < 16 else None, "BitOr": lambda: a | b_}.get(t[1], lambda: None)()
        if t[0] == "call" and len(t[2]) == 1:
            if is_code_call(F, t[1], RANK) and is_getter_of_item(F, t[2][0], main, RANK):
                return rcodes[rk]
            if P.is_widening_from(t[1]):
                return foldw(t[2][0], rk)
        return None
    weights = {rk: foldw(W, rk) for rk in STRENGTH}
    if any(v is None for v in weights.values()):
        # match form: one constant per arm of a switch on the current card's rank
        weights = {}
        sw_blocks = [b for b in sorted(main.body) if fn.blocks[b]["term"]["k"] == "switch" and b != fn.blocks[main.next_block]["term"]["to"]]
        rsw = [b for b in sw_blocks if pr.operand(fn.blocks[b]["term"]["on"])[0] == "discr" and
               is_getter_of_item(F, pr.operand(fn.blocks[b]["term"]["on"])[1], main, RANK)]
        if len(rsw) != 1 or len(sw_blocks) != 1:
            raise U(rule, f"rank weights are neither a foldable expression of the rank code nor one match on the rank: {P.show(W)[:100]}", fn)
        w_local = None
        for l, ds in sorted(pr.defs.items(), key=lambda kv: len(kv[1])):
            if pr.local(l) == W:
                w_local = l
        if w_local is None:
            raise U(rule, "weight local not found", fn)
        for v, tgt in fn.blocks[rsw[0]]["term"]["arms"]:
            b, val = tgt, None
            for _ in range(8):
                for s_ in fn.blocks[b]["stmts"]:
                    if s_["k"] == "assign" and s_["place"]["l"] == w_local and not s_["place"]["proj"]:
                        val = P.const_int(pr.rvalue(s_["rv"]))
                t_ = fn.blocks[b]["term"]
                if val is not None or t_["k"] not in ("goto", "assert"):
                    break
                b = t_["to"]
            if val is None:
                raise U(rule, f"weight of rank discriminant {v} is not a constant", fn)
            weights[I.variant_by_discr(F, RANK, v)] = val
    elif any(fn.blocks[b]["term"]["k"] == "switch" and b != fn.blocks[main.next_block]["term"]["to"] for b in main.body):
        raise U(rule, "unexplained branch in the loop over the cards", fn)
    if set(weights) != set(STRENGTH):
        raise U(rule, f"rank weights do not cover the 13 ranks: {sorted(weights)}", fn)
    # the scan: over the count array, first position whose count reaches the threshold; the key of that position
    s_src, s_chain = scan.chain()
    if P.strip(s_src) != info[C_][0] or any(c.rsplit("::", 1)[-1] not in ("iter", "into_iter") for c in s_chain):
        raise U(rule_f, f"the scan does not walk the whole count array: {P.show(s_src)[:60]} via {s_chain}", fn)
    item = P.strip(scan.item_term)
    thr = []
    for (b, lab, op, x, y) in I.rel_edges(fn, pr, F):
        if b not in scan.body:
            continue
        xs, ys = P.strip(x), P.strip(y)
        if P.const_int(xs) is not None:
            xs, ys, op = ys, xs, I.FLIP[op]
        if xs == item and P.const_int(ys) is not None:
            k_ = {"Ge": P.const_int(ys), "Gt": P.const_int(ys) + 1}.get(op)
            if k_ is not None:
                thr.append((b, lab, k_))
        elif b not in {fn.blocks[scan.next_block]["term"]["to"]}:
            raise U(rule_f, f"unexplained condition in the scan of the suit counts: {P.show(x)[:40]} {op} {P.show(y)[:20]}", fn)
    ks = {k_ for (_b, _l, k_) in thr}
    if len(ks) != 1:
        raise U(rule_f, f"the scan does not test the count against one threshold: {sorted(ks)}", fn)
    k = ks.pop()
    # result: Some(key[position]) behind the threshold edge, None otherwise; position = the scan's running index
    somes, nones = [], []
    for b in sorted(fn.cfg.reachable):
        for s_ in fn.blocks[b]["stmts"]:
            if s_["k"] == "assign" and s_["place"]["l"] == 0 and not s_["place"]["proj"]:
                t_ = pr.rvalue(s_["rv"])
                if t_[0] == "agg" and t_[1].endswith("Option::Some"):
                    somes.append((b, t_))
                elif t_[0] == "agg" and t_[1].endswith("Option::None"):
                    nones.append(b)
                else:
                    raise U(rule, f"unexplained return value {P.show(t_)[:60]}", fn)
    if len(somes) != 1 or not nones:
        raise U(rule, "expected one Some(key) and a None return", fn)
    sb_, st_ = somes[0]
    val = P.strip(P.narrow_deep(P.strip(st_[2][0])))
    hit_edges = [(b, lab) for (b, lab, _k) in thr]
    if not (val[0] == "index" and val[1] == info[K_][0]):
        raise U(rule, f"the returned key is not an element of the per-suit key array: {P.show(val)[:80]}", fn)
    pos = P.strip(P.narrow_deep(P.strip(val[2])))
    pos_ok = False
    for l, ds in pr.defs.items():
        if pr.local(l) == pos or ("self", l) == pos:
            al = P.alts(pr.local(l))
            pos_ok = len(al) == 2 and any(P.const_int(a) == 0 for a in al) and \
                any(a[0] == "bin" and a[1] == "Add" and a[2] == ("self", l) and P.const_int(a[3]) == 1 for a in al)
    if not pos_ok:
        raise U(rule, f"the key is not read at the position where the count reached the threshold: {P.show(pos)[:80]}", fn)
    if not hit_edges or not I.guarded_by(fn, sb_, hit_edges, start=scan.header):
        raise U(rule_f, "Some(key) is returned without the count threshold test", fn)
    if k != 5:
        ctx.violation(rule_f, f"{fn.path}|flush-threshold", f"flush threshold is {k} cards of one suit; a flush needs exactly 5 "
                      f"(and one suit at most can reach it only when 2k > 7)", fn=fn.path, file=fn.file, line=fn.blocks[sb_]["line"],
                      construct="threshold comparison")
        return None
    ctx.ok(rule_f, {"fn": fn.path, "threshold": k, "form": "per-suit counts and keys in one pass, then the key of the suit with 5+"}, sample=True)
    ctx.ok(rule, {"fn": fn.path, "fold": "key[suit] += weight(rank) over all 7 cards", "weights": weights}, sample=True)
    return weights


def dp_tree(F, fn):
    """(len, rank variant) -> REF row const path, from dp_ref's decision tree."""
    rule = "C01.extract.dp_ref"
    try:
        paths, pr = dtree.enumerate_paths(fn)
    except dtree.NotLoopFree:
        raise U(rule, "dp_ref contains a loop", fn)
    table = {}
    rank_names = I.adt_variants(F, RANK)
    for p in paths:
        if p.end == "unreachable":
            continue
        ln, rk = None, None
        len_excl = None
        bool_conds = []
        for (b, t, lab, ty, others) in p.conds:
            if P.strip(t) == ("param", 1):
                if lab == "otherwise":
                    len_excl = others
                else:
                    ln = lab
            elif t[0] == "discr" and P.strip(t[1]) == ("param", 2):
                if lab == "otherwise":
                    names = set(rank_names) - {I.variant_by_discr(F, RANK, v) for v in others}
                    if len(names) != 1:
                        raise U(rule, "wildcard rank arm", fn)
                    rk = names.pop()
                else:
                    rk = I.variant_by_discr(F, RANK, lab)
            elif ty == "bool":
                # a guard on the count in front of a single table for all lengths is folded below; anything else is not expected
                bool_conds.append(t)
            else:
                raise U(rule, f"unexpected switch {P.show(t)}", fn)
        if bool_conds and not (ln is None and rk is None and len_excl is None):
            raise U(rule, f"unexpected branch {P.show(bool_conds[0])}", fn)
        if p.end != "return":
            if ln is not None:
                table[(ln, rk)] = None
            continue
        if ln is not None and rk is None:
            # table form: the path is selected by len only and returns TABLE_len[code(rank)][remaining]; the 13 rows of
            # that length are the rows of the constant (evaluated by rustc), indexed by the rank's u8 code
            t = P.strip(dtree.PathProv(fn, p).local(0))
            ok_t = t[0] == "index" and P.strip(t[1])[0] == "index" and P.strip(P.strip(t[1])[1])[0] == "named"
            if ok_t:
                inner = P.strip(t[1])
                cname = P.strip(inner[1])[1]
                cv = F.const_value(cname)
                if P.strip(P.unwiden(t[2])) != ("param", 3):
                    raise U(rule, f"row index is {P.show(t[2])}, not the remaining-cards argument", fn)
                if not is_code_of(F, inner[2], lambda a: P.strip(a) == ("param", 2), RANK):
                    raise U(rule, f"table row is selected by {P.show(inner[2])[:80]}, not by the rank code", fn)
                if not cv or "array" not in cv or not all(isinstance(r, list) for r in cv["array"]):
                    raise U(rule, f"row table {cname} not evaluated as an array of rows", fn)
                codes, _cf = code_table(F, RANK)
                for rname, code in codes.items():
                    if code >= len(cv["array"]):
                        raise U(rule, f"rank code {code} of {rname} is outside row table {cname}", fn)
                    table[(ln, rname)] = ("rows", f"{cname}[{code}]", cv["array"][code])
                continue
        if ln is None and rk is None and len_excl is None:
            # one table for all lengths: TABLE[len - k][code(rank)][remaining], the path guarded by conditions on len only
            t = P.strip(dtree.PathProv(fn, p).local(0))
            mid = P.strip(t[1]) if t[0] == "index" else None
            top = P.strip(mid[1]) if mid is not None and mid[0] == "index" else None
            if top is not None and top[0] == "index" and P.strip(top[1])[0] == "named":
                cname = P.strip(top[1])[1]
                cv = F.const_value(cname)
                if P.strip(P.unwiden(t[2])) != ("param", 3):
                    raise U(rule, f"row index is {P.show(t[2])}, not the remaining-cards argument", fn)
                if not is_code_of(F, mid[2], lambda a: P.strip(a) == ("param", 2), RANK):
                    raise U(rule, f"table row is selected by {P.show(mid[2])[:80]}, not by the rank code", fn)
                li = P.strip(P.unwiden(top[2]))
                k_ = 0
                if li[0] == "bin" and li[1] == "Sub" and P.const_int(li[3]) is not None:
                    k_, li = P.const_int(li[3]), P.strip(P.unwiden(li[2]))
                if li != ("param", 1):
                    raise U(rule, f"table plane is selected by {P.show(top[2])[:80]}, not by the count", fn)
                if not cv or "array" not in cv or not all(isinstance(pl_, list) and all(isinstance(r_, list) for r_ in pl_) for pl_ in cv["array"]):
                    raise U(rule, f"{cname} not evaluated as an array of row tables", fn)

                def cond_holds(t_, lab_, others_, n_):
                    truth = (others_ == [0]) if lab_ == "otherwise" else bool(lab_)
                    s_ = P.strip(t_, calls=False)
                    if s_[0] == "call" and s_[1].endswith("::contains") and "RangeInclusive" in s_[1] and len(s_[2]) == 2 \
                            and P.strip(s_[2][1]) == ("param", 1):
                        r_ = P.strip(s_[2][0], calls=False)
                        lo_hi = None
                        if r_[0] == "call" and r_[1].endswith("RangeInclusive::<Idx>::new") and len(r_[2]) == 2:
                            lo_hi = (P.const_int(r_[2][0]), P.const_int(r_[2][1]))
                        if lo_hi is None or None in lo_hi:
                            raise U(rule, f"guard on the count is not a constant range: {P.show(s_)[:80]}", fn)
                        return (lo_hi[0] <= n_ <= lo_hi[1]) == truth
                    rel = I.norm_rel(t_, truth)
                    if rel is not None:
                        op_, x_, y_ = rel
                        xv = n_ if P.strip(P.unwiden(P.strip(x_))) == ("param", 1) else P.const_int(x_)
                        yv = n_ if P.strip(P.unwiden(P.strip(y_))) == ("param", 1) else P.const_int(y_)
                        if xv is not None and yv is not None:
                            return {"Lt": xv < yv, "Le": xv <= yv, "Gt": xv > yv, "Ge": xv >= yv, "Eq": xv == yv, "Ne": xv != yv}[op_]
                    raise U(rule, f"guard on the dispatch is not a condition on the count: {P.show(t_)[:80]}", fn)
                codes, _cf = code_table(F, RANK)
                for n_ in (1, 2, 3, 4):
                    if not all(cond_holds(t_, lab_, oth_, n_) for (_b, t_, lab_, _ty, oth_) in p.conds):
                        continue
                    if not (0 <= n_ - k_ < len(cv["array"])):
                        raise U(rule, f"count {n_} selects plane {n_ - k_} outside {cname}", fn)
                    plane = cv["array"][n_ - k_]
                    for rname, code in codes.items():
                        if code >= len(plane):
                            raise U(rule, f"rank code {code} of {rname} is outside {cname}[{n_ - k_}]", fn)
                        table[(n_, rname)] = ("rows", f"{cname}[{n_ - k_}][{code}]", plane[code])
                continue
        if ln is None or rk is None:
            raise U(rule, "a returning path is not selected by (len, rank)", fn)
        t = dtree.last_assign(fn, p, 0, pr)
        if not (t and t[0] == "index" and t[1][0] == "named"):
            raise U(rule, f"leaf is not ROW[remaining]: {P.show(t) if t else t}", fn)
        idx = t[2]
        if idx[0] == "cast" and idx[1] == "IntToInt":
            idx = idx[2]
        if P.strip(idx) != ("param", 3):
            raise U(rule, f"row index is {P.show(idx)}, not the remaining-cards argument", fn)
        table[(ln, rk)] = t[1][1]
    return table


def analyse_rainbow_hash(ctx, F, fn):
    rule = "C01.order-shape.rainbow-hash"
    pr = P.Prov(fn)
    fl = L.for_loops(fn, pr)
    if len(fl) != 2 or len(fn.cfg.loops()) != 2:
        raise U(rule, f"expected two for-loops (count, walk), found {len(fl)}", fn)
    # order loops: first reaches second
    a, b = fl
    if b.header in fn.cfg.reach_from(a.exit_block) and a.header not in fn.cfg.reach_from(b.exit_block):
        count_loop, walk_loop = a, b
    elif a.header in fn.cfg.reach_from(b.exit_block):
        count_loop, walk_loop = b, a
    else:
        raise U(rule, "loops are not sequential", fn)
    ok, why = whole_param_loop(fn, count_loop)
    if not ok:
        ctx.violation(rule, f"{fn.path}|loop-domain", why, fn=fn.path, file=fn.file, line=count_loop.line)
        return None
    src, chain = walk_loop.chain()
    src = P.strip(src)
    zipped_counts = None
    if src[0] == "named" and [c.rsplit("::", 1)[-1] for c in chain if c.rsplit("::", 1)[-1] != "into_iter"] == ["iter", "zip"]:
        # `for (rank, &len) in RANKS.iter().zip(counts.iter().rev())`: the walk table in lockstep with the count table read
        # backwards -- the same walk provided code(RANKS[i]) == slots - 1 - i for every i (checked on the constants below)
        zc = [x for x in P.walk(walk_loop.iter_term) if x[0] == "call" and x[1].rsplit("::", 1)[-1] == "zip" and len(x[2]) == 2]
        if len(zc) == 1:
            b_src, b_chain = L.iterator_chain(zc[0][2][1])
            if [c.rsplit("::", 1)[-1] for c in b_chain if c.rsplit("::", 1)[-1] != "into_iter"] == ["iter", "rev"]:
                zipped_counts = P.strip(b_src)
                chain = [c for c in chain if c.rsplit("::", 1)[-1] not in ("zip",)]
    if src[0] != "named" or any(c not in WHOLE_ARRAY_ITER_CALLS for c in chain):
        raise U(rule, f"second loop does not walk a constant rank table directly: {P.show(src)} via {chain}", fn)
    walk_const = src[1]
    walk = F.const_value(walk_const)
    if not walk or "array" not in walk:
        raise U(rule, f"walk table {walk_const} not evaluated", fn)
    walk = walk["array"]

    dp = [None]

    def allowed(p, t):
        if L.is_next_call(t) or p in WHOLE_ARRAY_ITER_CALLS or card_getter(F, p, RANK) or is_code_call(F, p, RANK) \
                or P.is_widening_from(p) or p == SLICE_LEN:
            return True
        if zipped_counts is not None and p in ("std::iter::Iterator::rev", "std::iter::Iterator::zip"):
            return True         # the two adaptors of the lockstep walk recognised above
        f2 = F.fns.get(p)
        if f2 is not None and f2.arg_count == 3 and not f2.impl and dp[0] in (None, p):
            dp[0] = p
            return True
        return False
    check_calls_whitelisted(F, fn, allowed, rule)
    if dp[0] is None:
        raise U(rule, "no dispatch (dp_ref) call", fn)
    dp_fn = F.fns[dp[0]]

    def is_rank_of_count_item(t):
        return is_getter_of_item(F, t, count_loop, RANK)

    def is_walk_item(t):
        if zipped_counts is not None:
            s_ = P.strip(t)
            return s_[0] == "field" and s_[2] == 0 and item_of_loop(s_[1], walk_loop)
        return item_of_loop(t, walk_loop)

    # stores: the per-rank counter array only
    if len(pr.stores) != 1:
        raise U(rule, f"expected one counter array, stores to {sorted(pr.stores)}", fn)
    C = list(pr.stores)[0]
    c_term = pr.local(C)
    if not (c_term[0] == "repeat" and P.const_int(c_term[1]) == 0):
        raise U(rule, "rank counter array not initialised to zeros", fn)
    n_slots = int(c_term[2])
    if len(pr.stores[C]) != 1:
        raise U(rule, "several stores into the rank counter array", fn)
    (sb, si, pl, rv) = pr.stores[C][0]
    idx_t = pr.local(pl["proj"][0]["idx"]) if pl["proj"] and "idx" in pl["proj"][0] else None
    if idx_t is None or not is_code_of(F, idx_t, is_rank_of_count_item, RANK) or sb not in count_loop.body:
        raise U(rule, "counter index is not the rank code of the current card (first loop)", fn)
    st = pr.rvalue(rv)
    if not (st[0] == "bin" and st[1] == "Add" and st[2] == ("index", c_term, idx_t) and P.const_int(st[3]) == 1):
        raise U(rule, f"counter update is not count[rank] += 1: {P.show(st)}", fn)
    # scalar state: remaining R and hash H
    ret_t = pr.local(0)
    multi = [l for l, ds in pr.defs.items() if len(ds) >= 2 and l != 0 and fn.local_ty(l) in ("u8", "u16", "usize", "u32")]
    H = [l for l in multi if pr.local(l) == ret_t]
    if len(H) != 1:
        raise U(rule, "hash accumulator not found", fn)
    H = H[0]
    Rs = [l for l in multi if l != H]
    if len(Rs) != 1:
        raise U(rule, f"expected one remaining-cards counter, found locals {Rs}", fn)
    R = Rs[0]
    r_alts = P.alts(pr.local(R))
    r_init = [x for x in r_alts if P.const_int(x) is not None]
    r_inc = [x for x in r_alts if x[0] == "bin" and x[1] == "Add"]
    r_dec = [x for x in r_alts if x[0] == "bin" and x[1] == "Sub"]
    def is_whole_len(t):
        # `cards.len()` of the card array parameter: the number of cards the counting loop visits
        u = P.unwiden(t)
        if u[0] == "call" and u[1] == SLICE_LEN and len(u[2]) == 1:
            a0 = P.strip(u[2][0], calls=False)
            while a0[0] == "cast" and a0[1] == "PointerCoercion":
                a0 = P.strip(a0[2], calls=False)
            return a0 == ("param", 1)
        return False
    r_len = [x for x in r_alts if is_whole_len(x)]
    if not r_len:
        # .. or a constant equal to the length of the card array parameter (`const HAND_LEN: u8 = 7`)
        m_ = re.match(r"^&?\[.*; (\d+)\]$", fn.local_ty(1))
        r_len = [x for x in r_alts if m_ and P.const_int(x) == int(m_.group(1))]
    if len(r_alts) == 2 and len(r_len) == 1 and len(r_dec) == 1:
        pass        # remaining = cards.len(); -= len   (the counting loop visits every card once: same number)
    else:
        if len(r_alts) != 3 or len(r_init) != 1 or P.const_int(r_init[0]) != 0 or len(r_inc) != 1 or len(r_dec) != 1:
            raise U(rule, f"remaining counter is not `0; += 1 per card; -= len` or `cards.len(); -= len`: {P.show(pr.local(R))}", fn)
        if r_inc[0][2] != ("self", R) or P.const_int(r_inc[0][3]) != 1:
            raise U(rule, "remaining counter increment is not += 1", fn)
    # len read
    def is_len(t):
        s = P.strip(t)
        if zipped_counts is not None:
            return s[0] == "field" and s[2] == 1 and item_of_loop(s[1], walk_loop)
        return s[0] == "index" and s[1] == c_term and is_code_of(F, s[2], is_walk_item, RANK)
    if zipped_counts is not None:
        codes_z, _cfz = code_table(F, RANK)
        if zipped_counts != c_term or len(walk) != n_slots or any(codes_z.get(nm_) != n_slots - 1 - i_ for i_, nm_ in enumerate(walk)):
            raise U(rule, "the walk table zipped with the reversed count table does not pair every rank with its own count "
                          "(code(RANKS[i]) must be slots - 1 - i)", fn)
    if r_dec[0][2] != ("self", R) or not is_len(r_dec[0][3]):
        raise U(rule, f"remaining counter decrement is not -= count[rank]: {P.show(r_dec[0])}", fn)
    for (bi, si, kind, payload) in pr.defs[R]:
        t = pr.rvalue(payload) if kind == "rv" else None
        if t is not None and t[0] == "bin" and t[1] == "Add" and bi not in count_loop.body:
            raise U(rule, "remaining += 1 outside the counting loop", fn)
    h_alts = P.alts(pr.local(H))
    h_init = [x for x in h_alts if P.const_int(x) is not None]
    h_add = [x for x in h_alts if x[0] == "bin"]
    if len(h_alts) != 2 or len(h_init) != 1 or P.const_int(h_init[0]) != 0 or len(h_add) != 1 or \
            h_add[0][1] != "Add" or h_add[0][2] != ("self", H):
        raise U(rule, f"hash accumulator is not `0` then `+= dp(..)`: {P.show(pr.local(H))}", fn)
    call = h_add[0][3]
    if not (call[0] == "call" and call[1] == dp_fn.path):
        raise U(rule, f"hash addend is not the dispatch call: {P.show(call)}", fn)
    a_len, a_rank, a_rem = call[2]
    rule6 = "C01.dp-args"
    if not is_len(a_len) or not is_walk_item(a_rank) or P.strip(a_rem) != pr.local(R) and P.strip(a_rem) != ("self", R):
        ctx.violation(rule6, f"{fn.path}|dp-call-arguments",
                      f"dispatch is called with ({P.show(a_len)}, {P.show(a_rank)}, {P.show(a_rem)}); expected "
                      f"(count[rank], &rank, remaining)", fn=fn.path, file=fn.file, line=fn.blocks[call[3]]["line"])
        return None
    call_block = call[3]
    dec_blocks = [bi for (bi, si, kind, payload) in pr.defs[R] if bi in walk_loop.body]
    if len(dec_blocks) != 1:
        raise U(rule, "remaining decrement not found in the walk loop", fn)
    dec_block = dec_blocks[0]
    # order: the call reads `remaining` before it is decremented in the same iteration
    reach_wo_header = I.reachable_avoiding(fn, [], start=dec_block, removed_blocks=[walk_loop.header])
    if not fn.cfg.dominates(call_block, dec_block) or call_block in reach_wo_header:
        ctx.violation(rule6, f"{fn.path}|dp-call-order", "remaining is decremented before the dispatch call reads it",
                      fn=fn.path, file=fn.file, line=fn.blocks[call_block]["line"])
        return None
    # switches in the walk loop: len == 0 -> continue ; remaining == 0 -> break
    loop_switches = {fn.blocks[l.next_block]["term"]["to"] for l in fl}
    skip_zero = False
    for b in sorted(fn.cfg.reachable):
        t = fn.blocks[b]["term"]
        if t["k"] != "switch" or b in loop_switches:
            continue
        if t["ty"] == "bool" and b not in walk_loop.body and (is_assert_switch(fn, b) or pr.operand(t["on"])[0] == "bool"):
            continue        # e.g. a debug_assert after the walk (`if cfg!(debug_assertions)` is a constant switch)
        if t["ty"] != "bool" or b not in walk_loop.body:
            raise U(rule, f"unexplained switch at line {fn.blocks[b]['line']}", fn)
        term = pr.operand(t["on"])
        for lab, tgt in fn.cfg.succ_edges[b]:
            truth = I.edge_truth(term, lab, [v for v, _ in t["arms"]])
            rel = I.norm_rel(term, truth)
            if rel is None:
                raise U(rule, f"unexplained condition {P.show(term)}", fn)
            op, x, y = rel
            c = P.const_int(y)
            if is_len(x) and c is not None:
                # `len == 0` must skip the call; everything else must reach it
                zero = (op, c) in (("Eq", 0), ("Le", 0), ("Lt", 1))
                nonzero = (op, c) in (("Ne", 0), ("Gt", 0), ("Ge", 1))
                if not (zero or nonzero):
                    raise U(rule, f"unexplained test on the rank count: {op} {c}", fn)
                reach = I.reachable_avoiding(fn, [], start=tgt, removed_blocks=[walk_loop.header])
                if zero and call_block in reach:
                    raise U(rule, "zero-count ranks reach the dispatch call", fn)
                if zero:
                    if dec_block in reach or any(bi in reach for (bi, *_r) in pr.defs[H] if bi in walk_loop.body):
                        raise U(rule, "zero-count branch has effects", fn)
                    skip_zero = True
                if nonzero and call_block not in reach:
                    raise U(rule, "non-zero-count ranks skip the dispatch call", fn)
            elif (P.strip(x) == pr.local(R) or P.strip(x) == ("self", R) or P.strip(x)[0] == "bin") and c is not None:
                # break test on remaining (after the decrement): must be equivalent to remaining == 0
                exhausted = (op, c) in (("Eq", 0), ("Le", 0), ("Lt", 1))
                going = (op, c) in (("Ne", 0), ("Gt", 0), ("Ge", 1))
                if not (exhausted or going):
                    ctx.violation(rule, f"{fn.path}|early-break",
                                  f"the rank walk stops under `remaining {op} {c}`, which is not `remaining == 0`: "
                                  f"ranks still holding cards are dropped from the hash",
                                  fn=fn.path, file=fn.file, line=fn.blocks[b]["line"])
                    return None
                # (wherever the test sits in the iteration: `remaining` never undercounts the cards of the ranks not yet
                # subtracted, so leaving only under remaining == 0 drops nothing)
                if going and tgt not in walk_loop.body:
                    raise U(rule, "loop left while cards remain", fn)
            else:
                raise U(rule, f"unexplained condition {P.show(term)}", fn)
    if not skip_zero:
        # without the skip dp_ref(0, ..) would be called: it must then be total for len 0 (it is not)
        raise U(rule, "no `count == 0 → continue` test before the dispatch call", fn)
    ctx.ok(rule, {"fn": fn.path, "count_loop": "count[code(rank)] += 1; remaining += 1 over all 7 cards",
                  "walk": walk_const, "dispatch": dp_fn.path,
                  "summary": "h = Σ_{rank in walk order, count>0} ROW(count, rank)[remaining]; remaining -= count"},
           sample=True)
    ctx.ok(rule6, {"call": f"{dp_fn.path}(count[code(rank)], &rank, remaining)", "then": "remaining -= count"},
           sample=True)
    return dict(walk=walk, walk_const=walk_const, dp_fn=dp_fn, n_slots=n_slots)


# ---------------------------------------------------------------------------------------------
def check_flush_table(ctx, F, table_path, weights, anchor):
    rule = "C01.flush-table"
    ctx.rule(rule, "AS_FLUSH[Σ weight] == oracle class of the best five suited ranks, all 4719 subsets")
    tv = F.const_value(table_path)
    if not tv or "array" not in tv:
        raise U(rule, f"table {table_path} not evaluated")
    tab = tv["array"]
    names = list(STRENGTH)
    ws = [weights[n] for n in names]
    if len(set(ws)) != 13:
        dup = sorted(n for n in names if ws.count(weights[n]) > 1)
        ctx.violation(rule, f"{table_path}|duplicate-weight", f"flush weights of {dup} coincide: masks collide",
                      fn=anchor.path, file=anchor.file, line=anchor.line)
    good = 0
    bad = []
    for k in (5, 6, 7):
        for S in combinations(range(13), k):
            idx = sum(ws[i] for i in S)
            want = poker.best_flush([STRENGTH[names[i]] for i in S])
            got = tab[idx] if 0 <= idx < len(tab) and idx <= 65535 else None
            if got == want:
                good += 1
            else:
                bad.append((idx, [names[i] for i in S], got, want))
    ctx.ok(rule, {"ranks": ["Ace", "King", "Queen", "Jack", "Ten"], "index": sum(weights[n] for n in
           ["Ace", "King", "Queen", "Jack", "Ten"]), "class": 1}, n=good, sample=True)
    ctx.count_nontrivial(rule, good)
    for (idx, S, got, want) in bad[:12]:
        ctx.violation(rule, f"{table_path}|slot-{idx}",
                      f"flush ranks {S} hash to slot {idx} holding {got}; the best five-card class is {want}",
                      fn=anchor.path, file=F.consts[table_path]["span"]["file"],
                      line=F.consts[table_path]["span"]["line"], construct=f"{table_path}[{idx}]")
    if len(bad) > 12:
        ctx.violation(rule, f"{table_path}|many-slots", f"{len(bad)} flush subsets disagree with the oracle",
                      fn=anchor.path)
    return good, len(bad)


def check_rainbow_table(ctx, F, table_path, model, dp_table, codes, anchor):
    rule = "C01.rainbow-table"
    ctx.rule(rule, "AS_RAINBOW[h(q)] == oracle class for all 49205 rank multiplicity vectors; h injective, in bounds")
    tv = F.const_value(table_path)
    if not tv or "array" not in tv:
        raise U(rule, f"table {table_path} not evaluated")
    tab = tv["array"]
    walk = model["walk"]
    if sorted(walk) != sorted(STRENGTH):
        ctx.violation(rule, f"{model['walk_const']}|walk-order", f"walk table is not a permutation of the 13 ranks: {walk}",
                      fn=anchor.path)
        return 0, 1
    rows = {}
    for (ln, rk), rp in dp_table.items():
        if rp is None:
            continue
        if isinstance(rp, tuple) and rp[0] == "rows":
            rows[(ln, rk)] = (rp[1], rp[2])
            continue
        v = F.const_value(rp)
        if not v or "array" not in v:
            raise U(rule, f"row {rp} not evaluated")
        rows[(ln, rk)] = (rp, v["array"])
    for ln in (1, 2, 3, 4):
        for rk in STRENGTH:
            if (ln, rk) not in rows:
                ctx.violation("C01.extract.dp_ref", f"{model['dp_fn'].path}|missing-arm-{ln}-{rk}",
                              f"dispatch has no row for (count {ln}, {rk}): evaluation would panic",
                              fn=model["dp_fn"].path, file=model["dp_fn"].file, line=model["dp_fn"].line)
                return 0, 1
    if max(codes.values()) >= model["n_slots"]:
        ctx.violation(rule, f"{anchor.path}|rank-counter-too-small", "rank codes exceed the counter array", fn=anchor.path)
    names = list(STRENGTH)  # index i -> name, strength 12-i
    vecs = poker.multiplicity_vectors()
    seen = {}
    good = 0
    bad = []
    oob = []
    for q in vecs:
        # q[i] = multiplicity of names[i]
        mult = {names[i]: q[i] for i in range(13) if q[i]}
        rem = 7
        h = 0
        fail = None
        for rk in walk:
            m = mult.get(rk, 0)
            if m == 0:
                continue
            rp, row = rows[(m, rk)]
            if rem >= len(row):
                fail = f"row index {rem} out of bounds of {rp}"
                break
            h += row[rem]
            if h > 65535:
                fail = "u16 overflow of the hash"
                break
            rem -= m
        if fail or h >= len(tab):
            oob.append((q, fail or f"hash {h} beyond table length {len(tab)}"))
            continue
        ranks7 = []
        for i in range(13):
            ranks7 += [12 - i] * q[i]
        want = poker.best_rainbow(ranks7)
        if h in seen:
            bad.append((h, mult, tab[h], want, f"collides with {seen[h]}"))
            continue
        seen[h] = mult
        if tab[h] == want:
            good += 1
        else:
            bad.append((h, mult, tab[h], want, ""))
    ctx.ok(rule, {"multiplicities": {"Ace": 4, "King": 3}, "class": 11}, n=good, sample=True)
    ctx.count_nontrivial(rule, good)
    for (h, mult, got, want, extra) in bad[:12]:
        ctx.violation(rule, f"{table_path}|slot-{h}",
                      f"rank multiset {mult} hashes to slot {h} holding {got}; the best five-card class is {want} {extra}",
                      fn=anchor.path, file=F.consts[table_path]["span"]["file"],
                      line=F.consts[table_path]["span"]["line"], construct=f"{table_path}[{h}]")
    if len(bad) > 12:
        ctx.violation(rule, f"{table_path}|many-slots", f"{len(bad)} multiplicity vectors disagree with the oracle",
                      fn=anchor.path)
    for (q, why) in oob[:5]:
        ctx.violation(rule, f"{table_path}|bounds", f"multiplicity vector {q}: {why}", fn=anchor.path)
    # value range (used by C07: indexes 0 and >7462 are unreachable)
    used = set(seen)
    rng_bad = [h for h in used if not (1 <= tab[h] <= poker.TOTAL)]
    if not rng_bad:
        ctx.ok("C01.value-range", f"all {len(used)} reachable no-flush slots hold 1..=7462", nontrivial=True)
    return good, len(bad) + len(oob)


def check_ordering(ctx, F):
    rule = "C01.ordering"
    ctx.rule(rule, "MadeHand equality/ordering is equality/ordering of the single u16 index")
    adt = F.adts.get(MADE_HAND)
    if adt is None:
        raise U(rule, "MadeHand ADT not found")
    fields = adt["variants"][0]["fields"]
    if len(fields) != 1 or fields[0]["ty"] != "u16":
        raise U(rule, f"MadeHand is not a single-u16 newtype: {fields}")
    impls = {i["trait"]: i["derived"] for i in adt["impls"]}
    for tr in ("std::cmp::PartialEq", "std::cmp::Eq", "std::cmp::Ord"):
        if tr not in impls:
            raise U(rule, f"MadeHand does not implement {tr}")
        if impls[tr]:
            ctx.ok(rule, f"{tr} derived on the single u16 field")
        else:
            # hand-written: must compare field 0 of self with field 0 of other, in that order
            name = {"std::cmp::PartialEq": "eq", "std::cmp::Eq": None, "std::cmp::Ord": "cmp"}[tr]
            if name:
                fn = F.impl_fn(tr, MADE_HAND, name)
                check_cmp_fn(ctx, F, fn, rule)
    if "std::cmp::PartialOrd" not in impls:
        raise U(rule, "MadeHand does not implement PartialOrd")
    if impls["std::cmp::PartialOrd"]:
        ctx.ok(rule, "PartialOrd derived on the single u16 field")
    else:
        fn = F.impl_fn("std::cmp::PartialOrd", MADE_HAND, "partial_cmp")
        others = [f for f in F.fns.values() if f.impl and f.impl.get("impl_path") == fn.impl["impl_path"]
                  and f.kind == "AssocFn" and f.path != fn.path]
        for o in others:
            check_cmp_fn(ctx, F, o, rule)
        check_cmp_fn(ctx, F, fn, rule)


def check_cmp_fn(ctx, F, fn, rule):
    """the function's result is `u16 op`(index of self, index of other), in that order."""
    pr = P.Prov(fn)
    if fn.cfg.has_loops() or any(b["term"]["k"] == "switch" for i, b in enumerate(fn.blocks) if i in fn.cfg.reachable):
        raise U(rule, f"{fn.path} is not a straight-line comparison", fn)
    t = pr.local(0)

    def idx_of(t, param):
        s = P.strip(t)
        if s == ("field", ("deref", ("param", param)), 0) or s == ("field", ("param", param), 0):
            return True
        if s[0] == "call" and len(s[2]) == 1 and P.strip(s[2][0]) == ("param", param):
            g = F.fns.get(s[1])
            return g is not None and g.impl and g.impl.get("self_ty") == MADE_HAND and I.getter_field(g) is not None \
                and I.getter_field(g)[0] == 0
        return False
    if t[0] == "agg" and t[1] == "adt:std::option::Option::Some" and len(t[2]) == 1 and fn.path.endswith("::partial_cmp"):
        # canonical `Some(self.cmp(other))`: the order is the one of `Ord for MadeHand` (derived on the single field, or
        # hand-written and checked by this same rule)
        c = P.strip(t[2][0], calls=False)
        if c[0] == "call" and c[1] == f"<{MADE_HAND} as std::cmp::Ord>::cmp" and \
                [P.strip(x) for x in c[2]] == [("param", 1), ("param", 2)]:
            ctx.ok(rule, f"{fn.path}: Some(Ord::cmp(self, other))")
            return
        raise U(rule, f"{fn.path}: result is not a comparison: {P.show(t)}", fn)
    if t[0] == "call" and len(t[2]) == 2:
        callee = t[1]
        ok_callee = ("for u16>::" in callee) and callee.rsplit("::", 1)[-1] == fn.path.rsplit("::", 1)[-1]
        a, b = t[2]
    elif t[0] == "bin":
        ok_callee = True
        a, b = t[2], t[3]
    else:
        raise U(rule, f"{fn.path}: result is not a comparison: {P.show(t)}", fn)
    key = f"{fn.path}|operands"
    if not ok_callee:
        ctx.violation(rule, key, f"{fn.path} delegates to {t[1]}, not to the same comparison on u16",
                      fn=fn.path, file=fn.file, line=fn.line)
    elif idx_of(a, 1) and idx_of(b, 2):
        ctx.ok(rule, f"{fn.path}: compares index(self) with index(other)", sample=True)
    else:
        ctx.violation(rule, key, f"{fn.path} compares ({P.show(a)}, {P.show(b)}); expected (index of self, index of other)",
                      fn=fn.path, file=fn.file, line=fn.line, construct="comparison operands")


# ---------------------------------------------------------------------------------------------
def run(ctx):
    ctx.explanation = (
        "static: evaluator tables and index constants are extracted from the type-checked program (const "
        "evaluation + MIR decision trees) and compared slot by slot with an independent construction of the 7462 "
        "classes (4719 flush rank subsets + 49205 rank multiplicity vectors = every table slot any 7-card hand "
        "can reach); the three loops that apply them are matched against fold / threshold / sequential-walk "
        "templates accounting for every call, branch and store, which gives order independence; ordering impls are "
        "checked by argument provenance")
    ctx.exhaustive = True
    F = ctx.facts("lib")
    # (the by-value conversion may only forward to a by-reference impl that does the work)
    anchor = I.resolve_forwarding(F, F.impl_fn(f"std::convert::From<[{CARD}; 7]>", MADE_HAND, "from"))
    ctx.rule("C01.extract", "tables, hash functions, dispatch tree and walk order found from the From<[Card;7]> anchor")
    arms, finder_path = extract_from(F, anchor)
    finder = F.fn(finder_path)
    flush_fn = F.fn(arms["Some"]["hash_fn"])
    rainbow_fn = F.fn(arms["None"]["hash_fn"])
    ctx.analysed([anchor, finder, flush_fn, rainbow_fn])
    ctx.ok("C01.extract", {"flush_table": arms["Some"]["table"], "rainbow_table": arms["None"]["table"],
                           "finder": finder.path, "flush_hash": flush_fn.path, "rainbow_hash": rainbow_fn.path},
           sample=True)
    ctx.rule("C01.order-shape.finder", "flush finder: commutative per-suit counting over all 7 cards, threshold 5")
    ctx.rule("C01.order-shape.flush-hash", "flush hash: commutative sum over all 7 cards filtered by the detected suit")
    ctx.rule("C01.order-shape.rainbow-hash", "no-flush hash: count per rank, then sequential walk of a constant rank order")
    ctx.rule("C01.dp-args", "dispatch called with (count, rank, remaining) before remaining is decremented")
    def attempt(f, *a):
        try:
            return f(*a)
        except Unrecognised as e:
            ctx.unrecognised(e.rule, e.msg, e.fn, e.line)
            return None
    if arms["Some"].get("fused"):
        weights = attempt(analyse_fused_flush, ctx, F, flush_fn)
    else:
        attempt(analyse_finder, ctx, F, finder)
        weights = attempt(analyse_flush_hash, ctx, F, flush_fn)
    model = attempt(analyse_rainbow_hash, ctx, F, rainbow_fn)
    codes, code_fn = code_table(F, RANK)
    ctx.analysed([code_fn])
    if weights is not None:
        check_flush_table(ctx, F, arms["Some"]["table"], weights, anchor)
    dp_table = attempt(dp_tree, F, model["dp_fn"]) if model is not None else None
    if model is not None and dp_table is not None:
        ctx.analysed([model["dp_fn"]])
        ctx.ok("C01.extract", {"dispatch_arms": len([v for v in dp_table.values() if v]),
                               "walk_order": model["walk"]}, sample=True)
        check_rainbow_table(ctx, F, arms["None"]["table"], model, dp_table, codes, anchor)
    # flush table values in range on reachable slots is implied by agreement with the oracle
    attempt(check_ordering, ctx, F)
    ctx.assume("with >= 5 of 7 cards in one suit no quads or full house exists, so the best flush class is the hand's class (counting argument, not checked)")
    ctx.assume("loop-summary templates: a loop body whose every call, branch and store is accounted for has the summarised meaning; the matcher and rustc's MIR lowering are trusted")
    ctx.assume("the seven input cards are distinct (property precondition)")
