"""C14 — a hole-card pair is an unordered pair with one canonical form.

 1. who-may-construct: the CardPair tuple constructor is used only inside CardPair::new
 2. new's decision tree puts the smaller card (derived Card order) first on every path
 3. Eq/Hash of CardPair and Eq/Hash/Ord of Card, Rank, Suit are derived
 4. FromStr builds through new from bytes [0..2],[2..4] under len == 4; Display writes field 0 then 1;
    Index 0/1 return fields 0/1"""
from sa import dtree, fmt, idioms as I, prov as P
from sa.report import Unrecognised

CARD_PAIR = "hand_range::card_pair::CardPair"
CARD = "card::card::Card"


def U(rule, msg, fn=None):
    return Unrecognised(rule, msg, fn.path if fn else None, fn.line if fn else None)


def rule_construct(ctx, F, label="lib", prefix="C14"):
    rule = prefix + ".who-may-construct"
    ctx.rule(rule, "CardPair(..) tuple construction occurs only inside CardPair::new")
    new = F.fn(CARD_PAIR + "::new")
    n = 0
    for p, fn in sorted(F.fns.items()):
        for bi in sorted(fn.cfg.reachable):
            for s in fn.blocks[bi]["stmts"]:
                if s["k"] != "assign" or "agg" not in s["rv"]:
                    continue
                k = s["rv"]["agg"]
                if isinstance(k, dict) and k.get("adt") == CARD_PAIR:
                    n += 1
                    if fn.path == new.path:
                        ctx.ok(rule, f"construction in {fn.path} line {s['line']}", sample=(n == 1))
                    else:
                        ctx.violation(rule, f"{fn.path}|raw-construction",
                                      f"CardPair is built with the raw tuple constructor in {fn.path}: the pair is not "
                                      f"normalised, so the same combo can appear as two different keys",
                                      fn=fn.path, file=fn.file, line=s["line"], construct="CardPair(a, b) outside CardPair::new")
        # constructor function reified as a value (e.g. `.map(CardPair)`) would appear as a fn const
        for bi, t in fn.calls():
            if I.callee_path(t) == CARD_PAIR + "::CardPair" or t["callee"].get("path") == CARD_PAIR + "::CardPair":
                if fn.path != new.path:
                    ctx.violation(rule, f"{fn.path}|raw-ctor-call", "CardPair tuple constructor called as a function",
                                  fn=fn.path, file=fn.file, line=fn.blocks[bi]["line"])
    adt = F.adts[CARD_PAIR]
    vis = [f["vis"] for f in adt["variants"][0]["fields"]]
    if any(v == "pub" for v in vis):
        ctx.violation(rule, f"{CARD_PAIR}|public-field", "a field of CardPair is public: code outside the crate can build or mutate un-normalised pairs")
    else:
        ctx.ok(rule, "both fields of CardPair are private")
    ctx.floor("CardPair constructions", n, 1)


def rule_new(ctx, F, prefix="C14"):
    rule = prefix + ".canonical-order"
    ctx.rule(rule, "CardPair::new returns (smaller, larger) under the derived Card order on every path")
    fn = F.fn(CARD_PAIR + "::new")
    ctx.analysed([fn])
    try:
        paths, pr = dtree.enumerate_paths(fn)
    except dtree.NotLoopFree:
        raise U(rule, "CardPair::new contains a loop", fn)
    n = 0
    rpaths = [p for p in paths if p.end == "return"]
    if len(rpaths) == 1 and not rpaths[0].conds:
        # branch-free form: CardPair(left.min(right), left.max(right)) under Card's (derived, total) order
        leaf = dtree.last_assign(fn, rpaths[0], 0, pr)
        if leaf and leaf[0] == "agg" and leaf[1] == f"adt:{CARD_PAIR}::CardPair" and len(leaf[2]) == 2:
            a, b = [P.strip(x, calls=False) for x in leaf[2]]

            def mm(t, name):
                return t[0] == "call" and t[1] == "std::cmp::Ord::" + name and len(t[2]) == 2 and \
                    {P.strip(t[2][0]), P.strip(t[2][1])} == {("param", 1), ("param", 2)}
            if mm(a, "min") and mm(b, "max"):
                # resolved through Card's Ord (no override of min/max: the impl is derived, C14.derived-impls)
                ctx.ok(rule, "(min(left, right), max(left, right))", sample=True, n=2)
                return
            if mm(a, "max") and mm(b, "min"):
                ctx.violation(rule, f"{fn.path}|order-minmax", "the pair is stored as (max, min): the larger card comes first",
                              fn=fn.path, file=fn.file, line=fn.line, construct="leaf of CardPair::new")
                return
    for p in paths:
        if p.end != "return":
            continue
        rels = []
        for (b, t, lab, ty, others) in p.conds:
            if ty != "bool":
                raise U(rule, f"unexpected switch {P.show(t)}", fn)
            truth = (others == [0]) if lab == "otherwise" else bool(lab)
            r = I.norm_rel(t, truth)
            if r is None:
                raise U(rule, f"unexpected condition {P.show(t)}", fn)
            op, x, y = r
            sx, sy = P.strip(x), P.strip(y)
            if (sx, sy) == (("param", 1), ("param", 2)):
                rels.append(op)
            elif (sx, sy) == (("param", 2), ("param", 1)):
                rels.append(I.FLIP[op])
            else:
                raise U(rule, f"comparison of something else than the two cards: {P.show(t)}", fn)
            # comparator must be Card's (derived) order
            if t[0] == "call" and not (t[1].startswith("std::cmp::PartialOrd::") or t[1].startswith("std::cmp::Ord::")
                                       or "PartialOrd" in t[1]):
                raise U(rule, f"comparison through {t[1]}", fn)
        leaf = dtree.last_assign(fn, p, 0, pr)
        if not (leaf and leaf[0] == "agg" and leaf[1] == f"adt:{CARD_PAIR}::CardPair"):
            raise U(rule, f"leaf {P.show(leaf) if leaf else leaf}", fn)
        a, b = [P.strip(x) for x in leaf[2]]
        if {a, b} != {("param", 1), ("param", 2)}:
            ctx.violation(rule, f"{fn.path}|leaf-cards", f"a path returns CardPair({P.show(a)}, {P.show(b)}): not the two given cards",
                          fn=fn.path, file=fn.file, line=fn.line)
            continue
        first_is_left = a == ("param", 1)
        # relation known on this path between left(p1) and right(p2)
        if not rels:
            ctx.violation(rule, f"{fn.path}|unconditional", "CardPair::new does not compare the two cards", fn=fn.path, file=fn.file, line=fn.line)
            continue
        rel = rels[-1] if len(rels) == 1 else None
        if rel is None:
            raise U(rule, "several comparisons on one path", fn)
        need_left_first = rel in ("Lt", "Le")
        need_right_first = rel in ("Gt", "Ge")
        eq_only = rel == "Eq"
        okp = eq_only or (need_left_first and first_is_left) or (need_right_first and not first_is_left)
        if rel == "Ne":
            okp = False
        n += 1
        if okp:
            ctx.ok(rule, f"under left {rel} right: ({'left,right' if first_is_left else 'right,left'})", sample=True)
        else:
            ctx.violation(rule, f"{fn.path}|order-{rel}", f"under `left {rel} right` the pair is stored as "
                          f"({'left, right' if first_is_left else 'right, left'}): the larger card comes first, so (a,b) and (b,a) "
                          f"are different keys or the first element is not the smaller card", fn=fn.path, file=fn.file, line=fn.line,
                          construct="leaf of CardPair::new")
    if n < 2:
        raise U(rule, f"only {n} returning paths", fn)


def rule_derives(ctx, F):
    rule = "C14.derived-impls"
    ctx.rule(rule, "Eq/Hash of CardPair and Eq/Hash/Ord of Card, Rank, Suit are derived (mutually consistent, total)")
    want = {
        CARD_PAIR: ["std::cmp::PartialEq", "std::cmp::Eq", "std::hash::Hash"],
        CARD: ["std::cmp::PartialEq", "std::cmp::Eq", "std::hash::Hash", "std::cmp::PartialOrd", "std::cmp::Ord"],
        "card::rank::Rank": ["std::cmp::PartialEq", "std::cmp::Eq", "std::hash::Hash", "std::cmp::PartialOrd", "std::cmp::Ord"],
        "card::suit::Suit": ["std::cmp::PartialEq", "std::cmp::Eq", "std::hash::Hash", "std::cmp::PartialOrd", "std::cmp::Ord"],
    }
    for adt, trs in want.items():
        impls = {i["trait"]: i["derived"] for i in F.adts[adt]["impls"]}
        for tr in trs:
            if impls.get(tr) is True:
                ctx.ok(rule, f"{adt}: {tr} derived")
            else:
                ctx.violation(rule, f"{adt}|{tr}", f"{tr} for {adt} is {'hand-written' if tr in impls else 'missing'}: equal pairs "
                              f"might hash or compare differently")


def selff(t):
    """index k if t is (a reference to) field k of self (by value or by reference)"""
    s = P.strip(t)
    if s[0] == "field" and P.strip(s[1]) == ("param", 1):
        return s[2]
    return None


def rule_text(ctx, F):
    rule = "C14.text-and-index"
    ctx.rule(rule, "FromStr = new(card(v[0..2]), card(v[2..4])) under len == 4; Display = the two cards, nothing else; Index 0/1 = fields 0/1")
    fs = F.impl_fn("std::str::FromStr", CARD_PAIR, "from_str")
    ctx.analysed([fs])
    pr = P.Prov(fs)
    oks = []
    for b in sorted(fs.cfg.reachable):
        for s in fs.blocks[b]["stmts"]:
            if s["k"] == "assign" and s["place"]["l"] == 0 and not s["place"]["proj"]:
                t = pr.rvalue(s["rv"])
                if t[0] == "agg" and t[1].endswith("Result::Ok"):
                    oks.append((b, t))
    good = len(oks) == 1
    if good:
        ob, ot = oks[0]
        c = P.strip(ot[2][0])
        good = c[0] == "call" and c[1] == CARD_PAIR + "::new" and len(c[2]) == 2

        def parsed(t, lo, hi):
            s = P.strip(P.narrow_variants(P.strip(t)))      # looks through `?` on a literal Ok(..)/Err(..) value
            if not (s[0] == "field" and s[1][0] == "variant" and s[1][2] == "Ok"):
                return False
            cc = P.strip(s[1][1])
            is_parse = cc[0] == "call" and cc[1] == "core::str::<impl str>::parse" and len(cc) > 3 and \
                CARD in (fs.blocks[cc[3]]["term"]["callee"].get("generic_args") or [])      # str::parse::<Card>() forwards to FromStr
            if not (cc[0] == "call" and (cc[1] == f"<{CARD} as std::str::FromStr>::from_str" or is_parse)):
                return False
            sl = P.strip(cc[2][0])
            if sl[0] == "field" and P.strip(sl[1], calls=False)[0] == "call" and P.strip(sl[1], calls=False)[1].endswith("<impl str>::split_at"):
                # value.split_at(2) under len == 4: .0 = value[0..2], .1 = value[2..4]
                sa = P.strip(sl[1], calls=False)
                return P.strip(sa[2][0]) == ("param", 1) and P.const_int(sa[2][1]) == 2 and (lo, hi) == ((0, 2) if sl[2] == 0 else (2, 4))
            if not (sl[0] == "call" and sl[1].endswith("::index") and P.strip(sl[2][0]) == ("param", 1)):
                return False
            r = P.strip(sl[2][1])
            return r[0] == "agg" and r[1].endswith("Range::Range") and P.const_int(r[2][0]) == lo and P.const_int(r[2][1]) == hi
        if good:
            a, b_ = c[2]
            good = (parsed(a, 0, 2) and parsed(b_, 2, 4)) or (parsed(a, 2, 4) and parsed(b_, 0, 2))
        edges = I.edges_implying(fs, pr, "Eq", lambda t: t[0] == "call" and t[1].rsplit("::", 1)[-1] == "len" and P.strip(t[2][0]) == ("param", 1),
                                 lambda t: P.const_int(t) == 4)
        good = good and bool(edges) and I.guarded_by(fs, ob, edges)
    if good:
        ctx.ok(rule, "FromStr: Ok(CardPair::new(card(v[0..2]), card(v[2..4]))) only under len == 4", sample=True)
    else:
        ctx.violation(rule, f"{fs.path}|shape", "CardPair::from_str does not build its result through CardPair::new from the two 2-byte "
                      "cards under len == 4", fn=fs.path, file=fs.file, line=fs.line)
    d = F.impl_fn("std::fmt::Display", CARD_PAIR, "fmt")
    ctx.analysed([d])
    try:
        fcs = fmt.format_calls(d)
    except fmt.BadTemplate as e:
        raise U(rule, str(e), d)
    okd = False
    if len(fcs) == 1:
        bi, pieces, vals = fcs[0]
        okd = pieces == [("arg", 0, None, None, None), ("arg", 1, None, None, None)] and \
            [v[0] for v in vals] == ["new_display"] * 2 and \
            sorted(selff(v[1]) if selff(v[1]) is not None else -1 for v in vals) == [0, 1]
    if okd:
        ctx.ok(rule, "Display: two default placeholders, one per card of the pair, no literal text (re-parses through new)", sample=True)
    else:
        ctx.violation(rule, f"{d.path}|template", f"Display for CardPair is not exactly the two cards of the pair: {fcs}", fn=d.path, file=d.file, line=d.line)
    ix = F.impl_fn("std::ops::Index<usize>", CARD_PAIR, "index")
    ctx.analysed([ix])
    parts, pri = dtree.int_partition(ix, lambda t: t == ("param", 2), 0, 2 ** 64 - 1)
    got = {}
    for ivs, path, _ in parts:
        if path.end != "return":
            continue
        leaf = dtree.path_term(ix, path, 0)
        for a, b in ivs:
            if b - a > 4:
                raise U(rule, "Index arm covering many values", ix)
            for v in range(a, b + 1):
                got[v] = selff(leaf)
    want = {0: 0, 1: 1}
    if got == want:
        ctx.ok(rule, "Index: [0] -> field 0, [1] -> field 1, everything else panics", sample=True)
    else:
        ctx.violation(rule, f"{ix.path}|arms", f"Index<usize> for CardPair maps {got} (index -> field)",
                      fn=ix.path, file=ix.file, line=ix.line)


def run(ctx):
    ctx.level = "other"
    ctx.explanation = ("static: who-may-construct over every body of the crate (the tuple constructor is private to the module "
                       "and used only in CardPair::new), decision tree of new (smaller card first on each path under the "
                       "derived total order of Card), derived Eq/Hash, and text/index plumbing. With a derived total order "
                       "on Card these give: new(a,b) == new(b,a), equal hashes, pair[0] <= pair[1], one key per combo.")
    F = ctx.facts("lib")
    for f in (rule_construct, rule_new, rule_derives, rule_text):
        try:
            f(ctx, F)
        except Unrecognised as e:
            ctx.unrecognised(e.rule, e.msg, e.fn, e.line)
    if ctx.tier == "thorough":
        Fa = ctx.facts("all")
        try:
            rule_construct(ctx, Fa, "all")
        except Unrecognised as e:
            ctx.unrecognised(e.rule, e.msg, e.fn, e.line)
        from rules import witness
        witness.run_witness(ctx, "C14")
    ctx.assume("Card's two-character texts are distinct and re-parse to the same card (C13)")
