"""C05 — range notation parses to its standard poker meaning (layout agreement + expansion tables).

 1. per token shape: regex fixed-prefix layout ↔ slice offsets ↔ token fields ↔ weight offset
 2. expansion: RankRange::inclusive arguments and the rank pair built per step, per token kind
 3. combo tables 6 / 4 / 12
 4. HandRange::from_str: spaces removed, split on ',', expansions inserted into one map in token order
Not decided: the end-to-end relation string -> combo set over all token lists."""
from sa import dtree, idioms as I, loops as L, prov as P, regexlang
from sa.report import Unrecognised
from rules import tokmodel, combos

RANK = "card::rank::Rank"
SUIT = "card::suit::Suit"
HR = "hand_range::hand_range::HandRange"
TOKEN = tokmodel.TOKEN

R, S, K = "R", "S", "K"   # rank char, suit char, kind char (s/o)
# (kind, pair) -> (layout, rank positions in constructor order, required equal byte pairs, kind position, weight offset)
SPEC = {
    ("DoubleClosedRankPairRange", "Pocket"): ([R, R, "-", R, R], [0, 3], [(0, 1), (3, 4)], None, 5),
    ("DoubleClosedRankPairRange", "Suited"): ([R, R, K, "-", R, R, K], [0, 1, 5], [(0, 4), (2, 6)], 2, 7),
    ("DoubleClosedRankPairRange", "Ofsuit"): ([R, R, K, "-", R, R, K], [0, 1, 5], [(0, 4), (2, 6)], 2, 7),
    ("BottomClosedRankPairRange", "Pocket"): ([R, R, "+"], [0], [(0, 1)], None, 3),
    ("BottomClosedRankPairRange", "Suited"): ([R, R, K, "+"], [0, 1], [], 2, 4),
    ("BottomClosedRankPairRange", "Ofsuit"): ([R, R, K, "+"], [0, 1], [], 2, 4),
    ("SingleRankPair", "Pocket"): ([R, R], [0], [(0, 1)], None, 2),
    ("SingleRankPair", "Suited"): ([R, R, K], [0, 1], [], 2, 3),
    ("SingleRankPair", "Ofsuit"): ([R, R, K], [0, 1], [], 2, 3),
    ("SingleCardPair", None): ([R, S, R, S], [], [], None, 4),
}


def char_set(F, adt):
    fn = F.impl_fn(f"std::convert::From<&{adt}>", "char", "from")
    tab = I.enum_match_table(F, fn, adt)
    return frozenset(chr(I.int_leaf(v)) for v in tab.values())


# order tests the notation itself implies, as (op, index into the constructor's ranks, index): high/top/bottom
ALLOWED_ORDER = {
    ("DoubleClosedRankPairRange", "Pocket"): {("Le", 0, 1), ("Lt", 0, 1)},
    ("DoubleClosedRankPairRange", "Suited"): {("Lt", 0, 1), ("Lt", 1, 2), ("Le", 1, 2), ("Lt", 0, 2)},
    ("DoubleClosedRankPairRange", "Ofsuit"): {("Lt", 0, 1), ("Lt", 1, 2), ("Le", 1, 2), ("Lt", 0, 2)},
    ("BottomClosedRankPairRange", "Suited"): {("Lt", 0, 1)},
    ("BottomClosedRankPairRange", "Ofsuit"): {("Lt", 0, 1)},
}


def unexplained(key, f, rpos, eqs, kpos):
    """why fact f (a condition dominating the Ok of shape `key`) is not explained by the notation, or None"""
    kind = f[0]
    if kind == "re":
        return None
    if kind == "slices":
        op, a, b = f[1], f[2], f[3]
        pair = frozenset([a, b])
        if op == "Eq" and any(pair == frozenset([(x, x + 1), (y, y + 1)]) for x, y in eqs):
            return None
        if op == "Ne" and key[1] in ("Suited", "Ofsuit"):
            # two different ranks: the two rank letters of XY.. differ, or the two kickers of a span differ
            ok_pairs = [frozenset([(rpos[0], rpos[0] + 1), (rpos[1], rpos[1] + 1)])]
            if len(rpos) == 3:
                ok_pairs.append(frozenset([(rpos[1], rpos[1] + 1), (rpos[2], rpos[2] + 1)]))
            if pair in ok_pairs:
                return None
        return f"tokens are additionally required to have bytes {sorted(a)} {op} {sorted(b)}"
    if kind == "slice-lit":
        if kpos is not None and f[2] == (kpos, kpos + 1) and f[3] in ("s", "o"):
            return None
        return f"tokens are additionally required to have byte {f[2][0]} {f[1]} {f[3]!r}"
    if kind == "ranks":
        op, pa, pb = f[1], f[2], f[3]
        if pa in rpos and pb in rpos:
            ia, ib = rpos.index(pa), rpos.index(pb)
            allowed = ALLOWED_ORDER.get(key, set())
            flip = {"Lt": "Gt", "Le": "Ge", "Gt": "Lt", "Ge": "Le", "Eq": "Eq", "Ne": "Ne"}
            if (op, ia, ib) in allowed or (flip[op], ib, ia) in allowed:
                return None
            if op == "Ne" and key[1] in ("Suited", "Ofsuit"):
                return None
        return f"tokens are additionally required to satisfy rank@{pa} {op} rank@{pb}, which standard notation does not demand"
    if kind == "rel":
        if key[0] == "SingleCardPair" and f[1] == "Ne" and all(t[0] == "call" and t[1].endswith("Index<usize>>::index") for t in (f[2], f[3])):
            return None   # the two cards of a card-pair token must differ (C10)
        return f"an extra condition {f[1]}({P.show(f[2])[:30]}, {P.show(f[3])[:30]}) guards this shape"
    if kind == "other":
        return f"an extra condition `{f[1]}` guards this shape"
    return None


def rule_layout(ctx, F, TM):
    rule = "C05.layout"
    ctx.rule(rule, "per token shape the regex layout, the slice offsets feeding each field and the weight offset agree with standard notation")
    rank_chars, suit_chars = char_set(F, RANK), char_set(F, SUIT)
    fn = TM.fn
    seen = set()
    for st in TM.sites:
        key = (st.kind, st.pair_variant)
        spec = SPEC.get(key)
        tag = f"{st.kind}({st.pair_variant})"
        if spec is None:
            ctx.violation(rule, f"{fn.path}|unknown-shape|{tag}", f"the parser returns a token shape the notation does not have: {tag}",
                          fn=fn.path, file=fn.file, line=st.line)
            continue
        seen.add(key)
        layout, rpos, eqs, kpos, woff = spec
        problems = []
        if len(st.regexes) != 1 or st.regexes[0] is None:
            problems.append(f"guarded by {len(st.regexes)} regex matches")
        else:
            try:
                r = regexlang.parse(st.regexes[0])
                pre, rest = r.prefix_classes()
            except regexlang.Unsupported as e:
                problems.append(f"regex outside the analysed subset: {e}")
                pre = None
            if pre is not None:
                want = [rank_chars if c == R else suit_chars if c == S else frozenset("so") if c == K else frozenset(c) for c in layout]
                if not r.anchored_start:
                    problems.append("regex not anchored at the start")
                if [frozenset(p) for p in pre] != want:
                    got = ["".join(sorted(p)) for p in pre]
                    problems.append(f"regex prefix classes {got} differ from the notation's layout {[''.join(sorted(w)) for w in want]}")
        if st.kind != "SingleCardPair":
            if st.ranks != rpos:
                problems.append(f"rank fields are parsed from bytes {st.ranks}; notation puts them at {rpos}")
        else:
            if not (st.card_pair and st.card_pair[1:] == (0, 4)):
                problems.append(f"the card pair is parsed from {st.card_pair[1:] if st.card_pair else None}, not from s[0..4]")
        have_eq = {frozenset([f[2], f[3]]) for f in st.facts if f[0] == "slices" and f[1] == "Eq"}
        for (a, b) in eqs:
            if frozenset([(a, a + 1), (b, b + 1)]) not in have_eq:
                problems.append(f"bytes {a} and {b} are not required to be equal")
        if kpos is not None:
            lits = [(f[1], f[3]) for f in st.facts if f[0] == "slice-lit" and f[2] == (kpos, kpos + 1)]
            want_lit = ("Eq", "s") if st.pair_variant == "Suited" else ("Ne", "s")
            alt_lit = ("Ne", "o") if st.pair_variant == "Suited" else ("Eq", "o")
            if want_lit not in lits and alt_lit not in lits:
                problems.append(f"{st.pair_variant} is not selected by the kind letter at byte {kpos} ({lits})")
        if st.prob_from != woff:
            problems.append(f"the weight is parsed from s[{st.prob_from}..], the shape ends at byte {woff}")
        # acceptance: every condition on the way to this Ok must be one the notation explains, otherwise some
        # well-formed tokens of the shape are rejected (and silently dropped by the range parser)
        for f in st.facts:
            why = unexplained(key, f, rpos, eqs, kpos)
            if why:
                problems.append(why)
        if problems:
            ctx.violation(rule, f"{fn.path}|{tag}", f"{tag}: " + "; ".join(problems), fn=fn.path, file=fn.file, line=st.line,
                          construct=f"parser branch returning {tag}")
        else:
            ctx.ok(rule, {"token": tag, "layout": "".join(layout), "ranks_at": rpos, "weight_at": woff}, sample=True)
    missing = [k for k in SPEC if k not in seen]
    for k in missing:
        ctx.violation(rule, f"{fn.path}|missing-shape|{k[0]}-{k[1]}", f"no parser branch produces {k[0]}({k[1]})", fn=fn.path, file=fn.file, line=fn.line)


def _env_subst(s, clo_ops):
    """a place read inside a closure, rebuilt in the enclosing function: `(*env.k).f as V ..` -> (captured operand k).f as V .."""
    s = P.strip(s)
    if s[0] == "field" and P.strip(s[1]) == ("param", 1) and isinstance(s[2], int) and s[2] < len(clo_ops):
        return P.strip(clo_ops[s[2]])
    if s[0] == "field":
        return ("field", _env_subst(s[1], clo_ops), s[2])
    if s[0] == "variant":
        return ("variant", _env_subst(s[1], clo_ops), s[2])
    return s


def closure_spec(F, clo_term, parent_spec_of, variants=None):
    """analyse a flat_map closure |r| RankPair::V(captured.., r).into_iter().map(|cp| (cp, prob)).  `variants` ({spec of an
    enum-valued place of the enclosing function: variant name} on the enclosing path) selects the arm of a `match` on a captured
    rank pair inside the closure (one closure shared by arms that were merged)."""
    while clo_term[0] == "cast" and clo_term[1] == "Subtype":
        clo_term = clo_term[2]          # (an opaque `impl Iterator` return type in the closure's signature being revealed)
    if not (clo_term[0] == "agg" and clo_term[1].startswith("closure:")):
        return None
    path = clo_term[1][len("closure:"):]
    fn = F.fns.get(path)
    if fn is None:
        return None
    pr = P.Prov(fn)
    if variants is not None and any(b_["term"]["k"] == "switch" for i_, b_ in enumerate(fn.blocks) if i_ in fn.cfg.reachable):
        try:
            cpaths, cpr = dtree.enumerate_paths(fn, max_paths=64)
        except dtree.NotLoopFree:
            return None
        keep = []
        for cp_ in cpaths:
            if cp_.end != "return":
                continue
            ok_ = True
            for (b_, t_, lab_, ty_, others_) in cp_.conds:
                if t_[0] != "discr":
                    return None
                subj = parent_spec_of(_env_subst(t_[1], clo_term[2]))
                have = variants.get(subj)
                if have is None:
                    return None
                if lab_ == "otherwise":
                    if have in {I.variant_by_discr(F, tokmodel.RANK_PAIR, v_) for v_ in others_}:
                        ok_ = False
                elif I.variant_by_discr(F, tokmodel.RANK_PAIR, lab_) != have:
                    ok_ = False
            if ok_:
                keep.append(cp_)
        if len(keep) != 1:
            return None
        pr = dtree.PathProv(fn, keep[0])
    ret = P.strip(pr.local(0), calls=False)
    bare = False
    if ret[0] == "call" and ret[1].rsplit("::", 1)[-1] == "map" and len(ret[2]) == 2:
        src = P.strip(ret[2][0], calls=False)
        if not (src[0] == "call" and src[1] == f"<{tokmodel.RANK_PAIR} as std::iter::IntoIterator>::into_iter"):
            return None
        rp = P.strip(src[2][0])
    elif fn.local_ty(0) == tokmodel.RANK_PAIR:
        # |r| RankPair::V(.., r): flat_map iterates the pair itself; the weight is attached by a `.map(|cp| (cp, w))` that follows
        rp, bare = P.strip(ret), True
    else:
        return None

    def cap(t):
        s = P.strip(t)
        if s == ("param", 2):
            return "item"
        if s[0] == "field" and P.strip(s[1]) == ("param", 1):
            return parent_spec_of(clo_term[2][s[2]])
        if s[0] == "field":
            return parent_spec_of(_env_subst(s, clo_term[2]))
        return "?" + P.show_key(s, 30)
    if rp[0] == "call" and rp[1] in ("std::ops::Fn::call", "std::ops::FnMut::call_mut", "std::ops::FnOnce::call_once") and len(rp[2]) == 2:
        # the rank pair is built by a callable handed to a helper (`expand(range, |r| RankPair::Suited(high, r), w)`): look at
        # the captured callable in the enclosing function
        callee = P.strip(rp[2][0])
        argt = P.strip(rp[2][1], calls=False)
        if not (callee[0] == "field" and P.strip(callee[1]) == ("param", 1) and argt[0] == "agg" and argt[1] == "tuple"
                and len(argt[2]) == 1 and P.strip(argt[2][0]) == ("param", 2)):
            return None
        outer = P.strip(clo_term[2][callee[2]])
        if outer[0] == "fn":
            adt_, _, var_ = outer[1].rpartition("::")
            if adt_ != tokmodel.RANK_PAIR:
                return None
            variant, ops = var_, ["item"]
        elif outer[0] == "agg" and outer[1].startswith("closure:") and outer[1][len("closure:"):] in F.fns:
            g = F.fns[outer[1][len("closure:"):]]
            if g.cfg.has_loops() or any(b_["term"]["k"] in ("switch", "call") for i_, b_ in enumerate(g.blocks) if i_ in g.cfg.reachable):
                return None
            gr = P.strip(P.Prov(g).local(0))
            if not (gr[0] == "agg" and gr[1].startswith("adt:" + tokmodel.RANK_PAIR + "::")):
                return None
            variant = gr[1].rsplit("::", 1)[-1]
            ops = []
            for o in gr[2]:
                so = P.strip(o)
                if so == ("param", 2):
                    ops.append("item")
                elif so[0] == "field" and P.strip(so[1]) == ("param", 1):
                    ops.append(parent_spec_of(outer[2][so[2]]))
                else:
                    ops.append("?" + P.show_key(so, 30))
        else:
            return None
    elif rp[0] == "agg" and rp[1].startswith("adt:" + tokmodel.RANK_PAIR + "::"):
        variant = rp[1].rsplit("::", 1)[-1]
        ops = [cap(o) for o in rp[2]]
    else:
        return None
    if bare:
        return variant, ops, ("follows",)
    inner = ret[2][1]
    prob = None
    if inner[0] == "agg" and inner[1].startswith("closure:"):
        ifn = F.fns.get(inner[1][len("closure:"):])
        if ifn is not None:
            ipr = P.Prov(ifn)
            it = ipr.local(0)
            if it[0] == "agg" and it[1] == "tuple" and len(it[2]) == 2 and P.strip(it[2][0]) == ("param", 2):
                w = P.strip(it[2][1])
                if w[0] == "field" and P.strip(w[1]) == ("param", 1):
                    outer_cap = P.strip(inner[2][w[2]])
                    if outer_cap[0] == "field" and P.strip(outer_cap[1]) == ("param", 1):
                        prob = parent_spec_of(clo_term[2][outer_cap[2]])
    return variant, ops, prob


def rule_expansion(ctx, F):
    rule = "C05.expansion"
    ctx.rule(rule, "token expansion walks the inclusive rank range standard notation prescribes and builds the right rank pair per step, with the token's weight")
    it = F.impl_fn("std::iter::IntoIterator", TOKEN, "into_iter")
    pr = P.Prov(it)
    ctx.analysed([it])
    tok = F.adts[TOKEN]["variants"][0]["fields"]
    f_kind = [i for i, f in enumerate(tok) if tokmodel.KIND in f["ty"]][0]
    f_prob = [i for i, f in enumerate(tok) if f["ty"] == "f32"][0]

    def spec(t):
        s = P.strip(t)
        if s[0] == "enumc":
            return s[2]
        if s[0] == "agg" and not s[2] and s[1].startswith("adt:" + RANK + "::"):
            return s[1].rsplit("::", 1)[-1]
        if s[0] == "call" and s[1].rsplit("::", 1)[-1] in ("unwrap", "expect") and s[2]:
            inner = P.strip(s[2][0])
            if inner[0] == "call" and inner[1] == RANK + "::next":
                return "next(" + spec(inner[2][0]) + ")"
        path = []
        while s[0] in ("field", "variant"):
            path.append(str(s[2]) if s[0] == "field" else f"<{s[2]}>")
            s = s[1]
        if s == ("param", 1):
            path = list(reversed(path))
            if path and path[0] == str(f_prob):
                return "weight"
            if path and path[0] == str(f_kind):
                return ".".join(path[1:])
        return "?" + P.show_key(P.strip(t), 40)
    want = {
        ("<BottomClosedRankPairRange>", "Pocket"): ("Ace", "<BottomClosedRankPairRange>.0.<Pocket>.0", ["item"]),
        ("<BottomClosedRankPairRange>", "Suited"): ("next(<BottomClosedRankPairRange>.0.<Suited>.0)", "<BottomClosedRankPairRange>.0.<Suited>.1", ["<BottomClosedRankPairRange>.0.<Suited>.0", "item"]),
        ("<BottomClosedRankPairRange>", "Ofsuit"): ("next(<BottomClosedRankPairRange>.0.<Ofsuit>.0)", "<BottomClosedRankPairRange>.0.<Ofsuit>.1", ["<BottomClosedRankPairRange>.0.<Ofsuit>.0", "item"]),
        ("<DoubleClosedRankPairRange>", "Pocket"): ("<DoubleClosedRankPairRange>.0.<Pocket>.0", "<DoubleClosedRankPairRange>.1", ["item"]),
        ("<DoubleClosedRankPairRange>", "Suited"): ("<DoubleClosedRankPairRange>.0.<Suited>.1", "<DoubleClosedRankPairRange>.1", ["<DoubleClosedRankPairRange>.0.<Suited>.0", "item"]),
        ("<DoubleClosedRankPairRange>", "Ofsuit"): ("<DoubleClosedRankPairRange>.0.<Ofsuit>.1", "<DoubleClosedRankPairRange>.1", ["<DoubleClosedRankPairRange>.0.<Ofsuit>.0", "item"]),
    }
    found = {}
    cands = []      # (line, ctor, a, b, variant, ops, prob)
    # the flat_map sites, each with the provenance of one path through the function when it is loop-free (arms that were merged
    # behind a `match` computing (pair, start, end) are then told apart by the path), else flow-insensitively
    sites = []
    try:
        paths_, _pr0 = dtree.enumerate_paths(it, max_paths=400)
    except dtree.NotLoopFree:
        paths_ = None
    if paths_ is None:
        sites = [(bi, t, pr, None) for bi, t in it.calls() if bi in it.cfg.reachable and t["callee"].get("name") in ("flat_map", "flatten")]
    else:
        for p_ in paths_:
            if p_.end != "return":
                continue
            pp_ = None
            for bi in p_.blocks:
                t = it.blocks[bi]["term"]
                if t["k"] == "call" and t["callee"].get("name") in ("flat_map", "flatten"):
                    pp_ = pp_ or dtree.PathProv(it, p_)
                    vs_ = {}
                    for (b_, t_, lab_, ty_, others_) in p_.conds:
                        if t_[0] == "discr" and lab_ != "otherwise":
                            sp_ = spec(t_[1])
                            if sp_.endswith(">.0"):
                                vs_[sp_] = I.variant_by_discr(F, tokmodel.RANK_PAIR, lab_)
                    sites.append((bi, t, pp_, vs_))
    seen_ = set()
    list_singles = 0

    def tail_weight(clo):
        """spec of w when clo is |rp| rp.into_iter().map(move |cp| (cp, w)) (the combos of each listed rank pair, weighted), else None"""
        clo = P.strip(clo, calls=False)
        if not (clo[0] == "agg" and clo[1].startswith("closure:") and clo[1][len("closure:"):] in F.fns):
            return None
        cf = F.fns[clo[1][len("closure:"):]]
        if cf.cfg.has_loops() or any(b_["term"]["k"] == "switch" for i_, b_ in enumerate(cf.blocks) if i_ in cf.cfg.reachable):
            return None
        r = P.strip(P.Prov(cf).local(0), calls=False)
        if not (r[0] == "call" and r[1].rsplit("::", 1)[-1] == "map" and len(r[2]) == 2):
            return None
        s0 = P.strip(r[2][0], calls=False)
        if not (s0[0] == "call" and s0[1] == f"<{tokmodel.RANK_PAIR} as std::iter::IntoIterator>::into_iter" and P.strip(s0[2][0]) == ("param", 2)):
            return None
        inner = P.strip(r[2][1], calls=False)
        if not (inner[0] == "agg" and inner[1].startswith("closure:") and inner[1][len("closure:"):] in F.fns):
            return None
        it_ = P.Prov(F.fns[inner[1][len("closure:"):]]).local(0)
        if not (it_[0] == "agg" and it_[1] == "tuple" and len(it_[2]) == 2 and P.strip(it_[2][0]) == ("param", 2)):
            return None
        w = P.strip(it_[2][1])
        if not (w[0] == "field" and P.strip(w[1]) == ("param", 1) and w[2] < len(inner[2])):
            return None
        oc = P.strip(inner[2][w[2]])
        if not (oc[0] == "field" and P.strip(oc[1]) == ("param", 1) and oc[2] < len(clo[2])):
            return None
        return spec(clo[2][oc[2]])
    def following_map_weight(pr_x, t_x, b_x):
        """spec of w when the only use of this call's result is `.map(|cp| (cp, w))`, else None"""
        me = pr_x.call_term(t_x, b_x)
        for b2, t2 in it.calls():
            if b2 in it.cfg.reachable and t2["callee"].get("name") == "map" and len(t2["args"]) == 2 and \
                    P.strip(pr_x.operand(t2["args"][0]), calls=False) == me:
                mc = P.strip(pr_x.operand(t2["args"][1]), calls=False)
                if mc[0] == "agg" and mc[1].startswith("closure:") and mc[1][len("closure:"):] in F.fns:
                    mt = P.Prov(F.fns[mc[1][len("closure:"):]]).local(0)
                    if mt[0] == "agg" and mt[1] == "tuple" and len(mt[2]) == 2 and P.strip(mt[2][0]) == ("param", 2):
                        w_ = P.strip(mt[2][1])
                        if w_[0] == "field" and P.strip(w_[1]) == ("param", 1) and w_[2] < len(mc[2]):
                            return spec(mc[2][w_[2]])
        return None
    for bi, t, pr_s, vs_ in sites:
        pr_site = pr_s
        is_flatten = t["callee"].get("name") == "flatten"
        src = P.strip(pr_site.operand(t["args"][0]), calls=False)
        # the expansion through a list of rank pairs: each arm collects `RankRange::ctor(a, b).into_iter().map(pair_of)` into a
        # Vec<RankPair> (one pair for a single-rank-pair token), one shared tail turns every listed pair into its weighted combos
        lst = P.strip(src[2][0], calls=False) if src[0] == "call" and src[1].endswith("IntoIterator>::into_iter") and src[2] else None
        if lst is not None and lst[0] == "call" and lst[1].rsplit("::", 1)[-1] == "collect" and len(lst[2]) == 1 and pr_s is not pr:
            mp_ = P.strip(lst[2][0], calls=False)
            rr_ = P.strip(mp_[2][0], calls=False) if mp_[0] == "call" and mp_[1].rsplit("::", 1)[-1] == "map" and len(mp_[2]) == 2 else None
            if rr_ is not None and rr_[0] == "call" and rr_[1].endswith("IntoIterator>::into_iter") and rr_[2]:
                rr_ = P.strip(rr_[2][0], calls=False)
            if rr_ is not None and rr_[0] == "call" and rr_[1].startswith("card::rank_range::RankRange::") and len(rr_[2]) == 2:
                ctor_t = P.strip(mp_[2][1], calls=False)
                if ctor_t[0] == "fn" and ctor_t[1].rpartition("::")[0] == tokmodel.RANK_PAIR:
                    cs_ = (ctor_t[1].rsplit("::", 1)[-1], ["item"], None)
                else:
                    cs_ = closure_spec(F, ctor_t, spec, vs_)
                w_ = following_map_weight(pr_site, t, bi) if is_flatten else tail_weight(pr_site.operand(t["args"][1]))
                if cs_ is None or (cs_[2] is not None and cs_[2] != ("follows",)) or w_ is None:
                    raise Unrecognised(rule, "rank pairs listed by something else than RankRange::ctor(a, b).map(|r| RankPair::V(.., r)), or the tail "
                                       "is not |rp| rp.into_iter().map(|cp| (cp, weight))", it.path, it.blocks[bi]["line"])
                cand_ = (it.blocks[bi]["line"], rr_[1].rsplit("::", 1)[-1], spec(rr_[2][0]), spec(rr_[2][1]), cs_[0], tuple(cs_[1]), w_)
                if cand_ not in seen_:
                    seen_.add(cand_)
                    cands.append(cand_[:5] + (list(cs_[1]), w_))
                continue
        if lst is not None and lst[0] == "call" and lst[1].rsplit("::", 1)[-1] == "box_assume_init_into_vec_unsafe" and pr_s is not pr:
            # `vec![rank_pair]` handed to the same tail: the single-rank-pair token
            one_ = []
            for b_ in sorted(set(pr_site.fn.cfg.reachable) & set(getattr(pr_site, "on_path", set()) or pr_site.fn.cfg.reachable)):
                for s_ in it.blocks[b_]["stmts"]:
                    if s_["k"] == "assign" and "agg" in s_["rv"] and isinstance(s_["rv"]["agg"], dict) and "array" in s_["rv"]["agg"] \
                            and s_["rv"]["agg"]["array"].startswith(tokmodel.RANK_PAIR) and len(s_["rv"]["ops"]) == 1:
                        one_.append(spec(pr_site.operand(s_["rv"]["ops"][0])))
            w_ = following_map_weight(pr_site, t, bi) if is_flatten else tail_weight(pr_site.operand(t["args"][1]))
            if one_ == ["<SingleRankPair>.0"] or (len(set(one_)) == 1 and one_[0] == "<SingleRankPair>.0"):
                list_singles += 1 if ("single", bi) not in seen_ else 0
                if ("single", bi) not in seen_:
                    seen_.add(("single", bi))
                    if w_ == "weight":
                        ctx.ok(rule, {"token": "SingleRankPair", "pair": "as given", "weight": "weight", "form": "listed"}, sample=True)
                    else:
                        ctx.violation(rule, f"{it.path}|SingleRankPair", "a single rank pair does not expand to its combos with the token's weight",
                                      fn=it.path, file=it.file, line=it.blocks[bi]["line"])
                continue
        # RankRange::<ctor>(a, b).into_iter()
        if src[0] == "call" and src[1].endswith("IntoIterator>::into_iter") and src[2]:
            src = P.strip(src[2][0], calls=False)
        if is_flatten:
            raise Unrecognised(rule, "flatten() over something else than a list of rank pairs", it.path, it.blocks[bi]["line"])
        if not (src[0] == "call" and src[1].startswith("card::rank_range::RankRange::")):
            raise Unrecognised(rule, f"flat_map over something else than a RankRange: {P.show(src)[:80]}", it.path, it.blocks[bi]["line"])
        ctor = src[1].rsplit("::", 1)[-1]
        a, b = spec(src[2][0]), spec(src[2][1])
        cs = closure_spec(F, pr_site.operand(t["args"][1]), spec, vs_)
        if cs is None:
            raise Unrecognised(rule, "flat_map closure is not |r| RankPair::V(.., r).into_iter().map(|cp| (cp, weight))", it.path, it.blocks[bi]["line"])
        variant, ops, prob = cs
        if prob == ("follows",):
            # `.flat_map(|r| pair(r)).map(|cp| (cp, weight))`: the only consumer of the flat_map result is that map
            prob = None
            me = pr.call_term(t, bi)
            for b2, t2 in it.calls():
                if b2 in it.cfg.reachable and t2["callee"].get("name") == "map" and len(t2["args"]) == 2 and \
                        P.strip(pr.operand(t2["args"][0]), calls=False) == me:
                    mc = P.strip(pr.operand(t2["args"][1]), calls=False)
                    if mc[0] == "agg" and mc[1].startswith("closure:") and mc[1][len("closure:"):] in F.fns:
                        mfn = F.fns[mc[1][len("closure:"):]]
                        mt = P.Prov(mfn).local(0)
                        if mt[0] == "agg" and mt[1] == "tuple" and len(mt[2]) == 2 and P.strip(mt[2][0]) == ("param", 2):
                            w_ = P.strip(mt[2][1])
                            if w_[0] == "field" and P.strip(w_[1]) == ("param", 1):
                                prob = spec(mc[2][w_[2]])
        cand_ = (it.blocks[bi]["line"], ctor, a, b, variant, tuple(ops), prob)
        if cand_ not in seen_:
            seen_.add(cand_)
            cands.append((it.blocks[bi]["line"], ctor, a, b, variant, ops, prob))
    # the same expansion written as loops: for r in RankRange::ctor(a, b) { for cp in RankPair::V(.., r) { v.push((cp, w)) } }
    from rules import runpass
    fl_ = L.for_loops(it, pr)
    loop_singles = []
    for inner in fl_:
        isrc, ich = inner.chain()
        if any(c_.rsplit("::", 1)[-1] != "into_iter" for c_ in ich):
            continue
        s_in = P.strip(isrc)
        pushes_ = [bi for bi, t in it.calls() if bi in inner.body and t["callee"].get("name") == "push"]
        if len(pushes_) != 1:
            continue
        tup = P.strip(pr.operand(it.blocks[pushes_[0]]["term"]["args"][1]))
        if not (tup[0] == "agg" and tup[1] == "tuple" and len(tup[2]) == 2 and P.strip(tup[2][0]) == P.strip(inner.item_term)):
            continue
        sound = L.in_every_iteration(it, inner, pushes_[0]) and not runpass.early_exits(it, inner)
        outers = [lp for lp in fl_ if lp is not inner and inner.header in lp.body]
        if s_in[0] == "agg" and s_in[1].startswith("adt:" + tokmodel.RANK_PAIR + "::") and len(outers) == 1:
            outer = outers[0]
            osrc, och = outer.chain()
            so = P.strip(osrc, calls=False)
            if not (so[0] == "call" and so[1].startswith("card::rank_range::RankRange::") and all(c_.rsplit("::", 1)[-1] == "into_iter" for c_ in och)):
                continue
            sound = sound and not runpass.early_exits(it, outer) and L.in_every_iteration(it, outer, inner.header)
            ops = ["item" if P.strip(o) == P.strip(outer.item_term) else spec(o) for o in s_in[2]]
            prob = spec(tup[2][1]) if sound else "conditional"
            cands.append((inner.line, so[1].rsplit("::", 1)[-1], spec(so[2][0]), spec(so[2][1]), s_in[1].rsplit("::", 1)[-1], ops, prob))
        elif not outers and spec(isrc) == "<SingleRankPair>.0":
            loop_singles.append((inner.line, spec(tup[2][1]) == "weight" and sound))
    for (line_, ctor, a, b, variant, ops, prob) in cands:
        kind = next((k for (k, v) in want if (b or "").startswith(k) or (a or "").startswith(k) or (a or "").startswith("next(" + k)), None)
        key = (kind, variant)
        w = want.get(key)
        got = (a, b, ops)
        if w is None or ctor != "inclusive" or got != w or prob != "weight":
            ctx.violation(rule, f"{it.path}|{kind}-{variant}",
                          f"expansion of {kind}({variant}) walks RankRange::{ctor}({a}, {b}) building {variant}({', '.join(ops)}) with weight "
                          f"{prob}; notation prescribes inclusive{w[:2] if w else '?'} building {variant}({', '.join(w[2]) if w else '?'}) with the token's weight",
                          fn=it.path, file=it.file, line=line_, construct=f"expansion arm {kind}({variant})")
        else:
            found[key] = True
            ctx.ok(rule, {"token": f"{kind}({variant})", "range": f"inclusive({a}, {b})", "pair": f"{variant}({', '.join(ops)})", "weight": prob}, sample=True)
    for key in want:
        if key not in found and not any(v["key"].endswith(f"{key[0]}-{key[1]}") for v in ctx.violations):
            ctx.violation(rule, f"{it.path}|missing|{key[0]}-{key[1]}", f"no expansion arm for {key[0]}({key[1]})", fn=it.path, file=it.file, line=it.line)
    # single rank pair / single card pair arms: the weight is the token's
    singles = 0
    for (line_, ok_) in loop_singles:
        singles += 1
        if ok_:
            ctx.ok(rule, {"token": "SingleRankPair", "pair": "as given", "weight": "weight", "form": "loop"}, sample=True)
        else:
            ctx.violation(rule, f"{it.path}|SingleRankPair", "a single rank pair does not expand to its combos with the token's weight",
                          fn=it.path, file=it.file, line=line_)
    for bi, t in it.calls():
        if bi not in it.cfg.reachable:
            continue
        nm = t["callee"].get("name")
        if nm == "map":
            src = P.strip(pr.operand(t["args"][0]), calls=False)
            if src[0] == "call" and src[1] == f"<{tokmodel.RANK_PAIR} as std::iter::IntoIterator>::into_iter" and spec(src[2][0]) == "<SingleRankPair>.0":
                clo = pr.operand(t["args"][1])
                ok = False
                if clo[0] == "agg" and clo[1].startswith("closure:"):
                    ifn = F.fns[clo[1][len("closure:"):]]
                    itp = P.Prov(ifn).local(0)
                    if itp[0] == "agg" and itp[1] == "tuple" and P.strip(itp[2][0]) == ("param", 2):
                        w_ = P.strip(itp[2][1])
                        if w_[0] == "field" and P.strip(w_[1]) == ("param", 1) and spec(clo[2][w_[2]]) == "weight":
                            ok = True
                singles += 1
                if ok:
                    ctx.ok(rule, {"token": "SingleRankPair", "pair": "as given", "weight": "weight"}, sample=True)
                else:
                    ctx.violation(rule, f"{it.path}|SingleRankPair", "a single rank pair does not expand to its combos with the token's weight",
                                  fn=it.path, file=it.file, line=it.blocks[bi]["line"])
        if nm == "once":
            tup = P.strip(pr.operand(t["args"][0]))
            singles += 1
            if tup[0] == "agg" and tup[1] == "tuple" and spec(tup[2][0]) == "<SingleCardPair>.0" and spec(tup[2][1]) == "weight":
                ctx.ok(rule, {"token": "SingleCardPair", "combo": "as given", "weight": "weight"}, sample=True)
            else:
                ctx.violation(rule, f"{it.path}|SingleCardPair", "a card-pair token does not expand to (that pair, the token's weight)",
                              fn=it.path, file=it.file, line=it.blocks[bi]["line"])
    # `vec![(card_pair, weight)]` instead of `iter::once(..).collect()`
    for bi in sorted(it.cfg.reachable):
        if it.blocks[bi]["term"]["k"] != "call" or it.blocks[bi]["term"]["callee"].get("name") != "box_assume_init_into_vec_unsafe":
            continue
        for s_ in it.blocks[bi]["stmts"]:
            if s_["k"] == "assign" and "agg" in s_["rv"] and isinstance(s_["rv"]["agg"], dict) and "array" in s_["rv"]["agg"] \
                    and f"({tokmodel.CARD_PAIR}, f32)" in s_["rv"]["agg"]["array"] and len(s_["rv"]["ops"]) == 1:
                tup = P.strip(pr.operand(s_["rv"]["ops"][0]))
                singles += 1
                if tup[0] == "agg" and tup[1] == "tuple" and spec(tup[2][0]) == "<SingleCardPair>.0" and spec(tup[2][1]) == "weight":
                    ctx.ok(rule, {"token": "SingleCardPair", "combo": "as given", "weight": "weight", "form": "vec![..]"}, sample=True)
                else:
                    ctx.violation(rule, f"{it.path}|SingleCardPair", "a card-pair token does not expand to (that pair, the token's weight)",
                                  fn=it.path, file=it.file, line=s_["line"])
    singles += list_singles
    if singles != 2:
        raise Unrecognised(rule, f"{singles} single-token arms recognised, expected 2", it.path, it.line)
    # the expansion must not look at the weight except to copy it: a branch on the weight drops or alters combos of
    # tokens with particular weights (e.g. ':0' tokens that must still overwrite earlier ones)
    for b in sorted(it.cfg.reachable):
        t = it.blocks[b]["term"]
        if t["k"] == "switch":
            on = pr.operand(t["on"])
            if any(spec(x) == "weight" for x in P.walk(on) if x[0] == "field"):
                ctx.violation(rule, f"{it.path}|branch-on-weight", "token expansion branches on the token's weight: tokens with some weights "
                              "expand differently (or not at all)", fn=it.path, file=it.file, line=it.blocks[b]["line"],
                              construct="condition on self.probability in HandRangeToken::into_iter")


def rule_weight_notation(ctx, TM):
    """every token shape accepts every weight literal of the notation: ':' + 0 | 1 | 0.d+ | 1.0+ (compared as finite sets of
    words up to six characters, generated from the regex literal's syntax tree), and the weight may be omitted"""
    from sa import regexlang
    rule = "C05.weight-notation"
    ctx.rule(rule, "each token shape's optional tail accepts ':' followed by any of 0, 1, 0.d+, 1.0+ (all words up to 6 characters compared)")
    fn = TM.fn
    want = regexlang.canonical_weights_upto(6)
    seen = set()
    for st in TM.sites:
        for lit in st.regexes:
            if lit is None or lit in seen:
                continue
            seen.add(lit)
            try:
                r = regexlang.parse(lit)
                tail = r.optional_tail()
            except regexlang.Unsupported:
                continue      # reported by C10.weight-language
            if tail is None:
                ctx.violation(rule, f"{fn.path}|no-weight-tail|{st.kind}-{st.pair_variant}", f"regex {lit!r} has no optional ':weight' tail: a "
                              f"weighted {st.kind}({st.pair_variant}) token is not parsed", fn=fn.path, file=fn.file, line=st.line)
                continue
            items = tail[1] if tail[0] == "seq" else [tail]
            if not items or items[0] != ("class", frozenset([":"])):
                continue      # reported by C10.weight-language
            num = ("seq", items[1:]) if len(items) != 2 else items[1]
            got = regexlang.words_upto(num, 6)
            missing = sorted(want - got, key=lambda w: (len(w), w))
            if missing:
                ctx.violation(rule, f"{fn.path}|weight-rejected|{st.kind}-{st.pair_variant}",
                              f"the weight tail of {lit!r} rejects the weight literal(s) {missing[:4]}: a token carrying such a weight is "
                              f"dropped from the range", fn=fn.path, file=fn.file, line=st.line, construct="weight tail of the regex literal")
            else:
                ctx.ok(rule, {"regex": lit, "accepts": f"all {len(want)} canonical weight literals up to 6 characters"}, sample=(len(seen) == 1))
    ctx.floor("token shapes with a weight tail (C05)", len(seen), 7)


def _is_token_parse(fn_, call_term):
    """call_term is HandRangeToken::from_str(x) or x.parse::<HandRangeToken>() (which forwards to it)"""
    if call_term[0] != "call":
        return False
    if call_term[1] == f"<{TOKEN} as std::str::FromStr>::from_str":
        return True
    if call_term[1] == "core::str::<impl str>::parse" and len(call_term) > 3:
        try:
            ga = fn_.blocks[call_term[3]]["term"]["callee"].get("generic_args") or []
        except (IndexError, KeyError, TypeError):
            ga = []
        return TOKEN in ga
    return False


def rule_range_parser(ctx, F):
    rule = "C05.range-parser"
    ctx.rule(rule, "HandRange::from_str removes spaces, splits on ',', and inserts every expansion into one map in token order (later wins); empty text = empty range")
    fn = F.impl_fn("std::str::FromStr", HR, "from_str")
    pr = P.Prov(fn)
    ctx.analysed([fn])
    fl = L.for_loops(fn, pr)
    outer = [lp for lp in fl if any(c.rsplit("::", 1)[-1] == "split" for c in lp.chain()[1])]
    if len(outer) != 1:
        raise Unrecognised(rule, "no single loop over a split of the text", fn.path, fn.line)
    outer = outer[0]
    src, chain = outer.chain()
    problems = []
    names = [c.rsplit("::", 1)[-1] for c in chain]
    pipeline = "filter_map" in names and "flatten" in names
    lazy_tokens = "filter_map" in names and "flatten" not in names      # for token in pieces.filter_map(parse ok) { for .. in token {..} }
    if any(n in ("rev", "skip", "take", "filter", "step_by", "rsplit", "splitn", "rsplitn", "take_while", "skip_while", "map_while") for n in names):
        problems.append(f"token iteration goes through {names}")
    elif pipeline and [n for n in names if n not in ("deref", "into_iter", "as_str")] != ["split", "filter_map", "flatten"]:
        problems.append(f"token iteration goes through {names}")
    elif lazy_tokens and [n for n in names if n not in ("deref", "into_iter", "as_str")] != ["split", "filter_map"]:
        problems.append(f"token iteration goes through {names}")
    # split(",") of replace(" ", "") of the parameter
    split_call = None
    t = outer.iter_term
    for s in P.walk(t):
        if s[0] == "call" and s[1].rsplit("::", 1)[-1] == "split":
            split_call = s
    if split_call is None or P.strip(split_call[2][1]) not in (("str", ","), ("char", ord(","))):
        problems.append("the text is not split on ','")
    else:
        base = P.strip(split_call[2][0])

        def is_replace(b_):
            return (b_[0] == "call" and b_[1].rsplit("::", 1)[-1] == "replace" and P.strip(b_[2][0]) == ("param", 1)
                    and P.strip(b_[2][1]) in (("str", " "), ("char", 32)) and P.strip(b_[2][2]) == ("str", ""))

        def is_despaced(b_):
            """s.replace(' ', ""), or `if s.contains(' ') { Cow::Owned(s.replace(' ', "")) } else { Cow::Borrowed(s) }` (the text
            itself only where it has no space to remove)"""
            if is_replace(b_):
                return True
            alts_ = [P.strip(a_) for a_ in P.alts(b_)]
            if len(alts_) != 2 or not all(a_[0] == "agg" and a_[1].startswith("adt:std::borrow::Cow::") and len(a_[2]) == 1 for a_ in alts_):
                return False
            owned = [a_ for a_ in alts_ if a_[1].endswith("::Owned")]
            borrowed = [a_ for a_ in alts_ if a_[1].endswith("::Borrowed")]
            if len(owned) != 1 or len(borrowed) != 1 or not is_replace(P.strip(owned[0][2][0])) or P.strip(borrowed[0][2][0]) != ("param", 1):
                return False
            no_space = []
            for b2, lab2, truth2, term2 in I.bool_edges(fn, pr):
                tt2, tr2 = term2, truth2
                while tt2[0] == "un" and tt2[1] == "Not":
                    tt2, tr2 = tt2[2], not tr2
                if tt2[0] == "call" and tt2[1].rsplit("::", 1)[-1] == "contains" and len(tt2[2]) == 2 and P.strip(tt2[2][0]) == ("param", 1) \
                        and P.strip(tt2[2][1]) in (("str", " "), ("char", 32)) and not tr2:
                    no_space.append((b2, lab2))
            for bi2 in sorted(fn.cfg.reachable):
                for st2 in fn.blocks[bi2]["stmts"]:
                    if st2["k"] == "assign" and "agg" in st2["rv"] and isinstance(st2["rv"]["agg"], dict) and \
                            st2["rv"]["agg"].get("adt") == "std::borrow::Cow" and st2["rv"]["agg"].get("variant") == "Borrowed":
                        if not no_space or not I.guarded_by(fn, bi2, no_space):
                            return False
            return True
        if not is_despaced(base):
            problems.append(f"the split text is not `s.replace(\" \", \"\")`: {P.show(base)[:80]}")
    parse_calls = [bi for bi, t_ in fn.calls() if bi in outer.body and _is_token_parse(fn, pr.call_term(t_, bi))]
    if pipeline or lazy_tokens:
        # split(',').filter_map(|piece| Token::from_str(piece).ok()).flatten(): every piece is parsed, the failing ones
        # are dropped, each token is expanded in place (flatten = its IntoIterator), in order
        fm = [s_ for s_ in P.walk(outer.iter_term) if s_[0] == "call" and s_[1].rsplit("::", 1)[-1] == "filter_map" and len(s_[2]) == 2]
        okc = False
        if len(fm) == 1:
            clo = P.strip(fm[0][2][1], calls=False)
            if clo[0] == "agg" and clo[1].startswith("closure:") and clo[1][len("closure:"):] in F.fns:
                cf = F.fns[clo[1][len("closure:"):]]
                if not cf.cfg.has_loops():
                    subj = I.result_ok_subject(P.Prov(cf).local(0))
                    if subj is not None:
                        pc = P.strip(subj, calls=False)
                        okc = _is_token_parse(cf, pc) and P.strip(pc[2][0]) == ("param", 2)
        if not okc:
            problems.append("the filter_map closure is not |piece| HandRangeToken::from_str(piece).ok()")
    elif len(parse_calls) != 1 or not L.in_every_iteration(fn, outer, parse_calls[0]):
        problems.append("a piece of the text can be skipped before it is parsed as a token (a later duplicate/overlapping token would not apply)")
    # inner: token parse of the item, expansion loop, insert into the map that is returned
    ins = [(bi, t_) for bi, t_ in fn.calls() if t_["callee"].get("name") == "insert" and I.callee_path(t_).startswith("std::collections::HashMap") and bi in fn.cfg.reachable]
    if len(ins) != 1:
        problems.append(f"{len(ins)} map inserts")
    else:
        bi, t_ = ins[0]
        if bi not in outer.body:
            problems.append("the insert is outside the token loop")
        inner = [lp for lp in fl if lp is not outer and bi in lp.body]
        if pipeline:
            k, v = P.strip(pr.operand(t_["args"][1])), P.strip(pr.operand(t_["args"][2]))
            if inner:
                problems.append("the insert is inside a further loop")
            if k != ("field", outer.item_term, 0) or v != ("field", outer.item_term, 1):
                problems.append("the inserted (key, value) is not the expansion's (combo, weight)")
            if not L.in_every_iteration(fn, outer, bi):
                problems.append("the insert is conditional")
        elif len(inner) != 1:
            problems.append("the insert is not inside an expansion loop")
        else:
            isrc, ich = inner[0].chain()
            s_ = P.strip(isrc)
            if s_[0] == "field" and s_[1][0] == "variant" and s_[1][2] == "Some":
                s_ = P.strip(P.narrow_deep(s_))        # `.ok()` / `?`-style wrappers around the parsed token
            okp = s_[0] == "field" and s_[1][0] == "variant" and s_[1][2] == "Ok" and _is_token_parse(fn, P.strip(s_[1][1])) and \
                P.strip(P.strip(s_[1][1])[2][0]) == P.strip(outer.item_term)
            if lazy_tokens:
                okp = s_ == P.strip(outer.item_term)      # the tokens were parsed by the filter_map stage
            if not okp:
                problems.append(f"the expansion loop does not iterate the token parsed from the current piece: {P.show(s_)[:80]}")
            if any(c.rsplit("::", 1)[-1] in ("rev", "skip", "take", "filter") for c in ich):
                problems.append("expansion goes through an adaptor")
            k, v = P.strip(pr.operand(t_["args"][1])), P.strip(pr.operand(t_["args"][2]))
            if k != ("field", inner[0].item_term, 0) or v != ("field", inner[0].item_term, 1):
                problems.append("the inserted (key, value) is not the expansion's (combo, weight)")
            if not L.in_every_iteration(fn, inner[0], bi):
                problems.append("the insert is conditional")
        m = P.strip(pr.operand(t_["args"][0]))
        # returned range wraps that map
        rets = [pr.rvalue(s["rv"]) for b in fn.cfg.reachable for s in fn.blocks[b]["stmts"]
                if s["k"] == "assign" and s["place"]["l"] == 0 and not s["place"]["proj"]]
        oks = [r for r in rets if r[0] == "agg" and r[1].endswith("Result::Ok")]
        wraps = [r for r in oks if P.strip(r[2][0])[0] == "agg" and P.strip(P.strip(r[2][0])[2][0]) == m]
        # .. or the inserts go into the map of a range that starts as HandRange::empty() and is returned
        for r in oks:
            rv_ = P.strip(r[2][0], calls=False)
            if rv_[0] == "call" and rv_[1] in F.fns and not rv_[2] and m == ("field", rv_, 0):
                e_ = P.strip(P.Prov(F.fns[rv_[1]]).local(0))
                for _hop in range(3):
                    # `empty()` may forward to `Default::default()` (derived or hand-written) and so on
                    if e_[0] == "call" and e_[1] in F.fns and not e_[2]:
                        e_ = P.strip(P.Prov(F.fns[e_[1]]).local(0))
                    else:
                        break
                if e_[0] == "agg" and e_[1].startswith("adt:" + HR) and len(e_[2]) == 1:
                    mk = P.strip(e_[2][0], calls=False)
                    if mk[0] == "call" and (mk[1].startswith("std::collections::HashMap") or mk[1].startswith("<std::collections::HashMap<")) and \
                            mk[1].rsplit("::", 1)[-1] in ("with_hasher", "new", "default", "with_capacity_and_hasher"):
                        wraps.append(r)
        if not wraps:
            problems.append("the returned range does not wrap the map that receives the inserts")
        errs = [r for r in rets if r[0] == "agg" and r[1].endswith("Result::Err")]
        if errs:
            problems.append("from_str can return Err")
    if problems:
        ctx.violation(rule, f"{fn.path}|shape", "; ".join(problems), fn=fn.path, file=fn.file, line=fn.line)
    else:
        ctx.ok(rule, {"fn": fn.path, "pipeline": "replace(' ', '') -> split(',') -> token -> expansion -> map.insert (in order)"}, sample=True)


def run(ctx):
    ctx.explanation = ("static: the parser's layout agreement (regex fixed prefix per position = exactly the rank / suit / kind "
                       "characters of the char tables; every field parsed from the byte standard notation prescribes; equalities "
                       "and weight offset), the expansion's range arguments, rank pair construction and weight per token kind, the "
                       "6/4/12 combo tables, and the range parser's pipeline. The end-to-end string -> combo-set relation over all "
                       "token lists is NOT decided.")
    F = ctx.facts("lib")
    TM = tokmodel.get(F)
    ctx.analysed([TM.fn])
    for f in (lambda: rule_layout(ctx, F, TM), lambda: rule_expansion(ctx, F), lambda: combos.check(ctx, F, "C05.combo-tables"),
              lambda: rule_range_parser(ctx, F), lambda: rule_weight_notation(ctx, TM)):
        try:
            f()
        except Unrecognised as e:
            ctx.unrecognised(e.rule if e.rule.startswith("C05") else "C05." + e.rule, e.msg, e.fn, e.line)
    # 'AsKs that single combo in either card order': card-pair tokens must go through the normalising constructor (C14's rules)
    try:
        from rules import c14
        from sa.report import FilterCtx
        fc = FilterCtx(ctx, ["who-may-construct", "canonical-order"])
        c14.rule_construct(fc, F, prefix="C05")
        c14.rule_new(fc, F, prefix="C05")
    except Unrecognised as e:
        ctx.unrecognised("C05." + e.rule.split(".", 1)[-1], e.msg, e.fn, e.line)
    # "each carrying the token's ':weight', or 1 when omitted": the weight parser's shape (C10's rule, re-evaluated here)
    try:
        from rules import c10
        from sa.report import PrefixCtx
        c10.rule_weight(PrefixCtx(ctx, "C10", "C05", allowed=["weight-language"]), TM)
    except Unrecognised as e:
        ctx.unrecognised("C05.weight-language", e.msg, e.fn, e.line)
    ctx.assume("RankRange::inclusive(a, b) yields the ranks from a to b inclusive in ace-to-deuce order (C13)")
    ctx.assume("the weight parser returns the tail's value or 1 (C10); regex::Regex::is_match implements the regex semantics")
