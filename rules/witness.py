"""Type-level witnesses: the crate under /verif/witness is type-checked against the analysed tree
(`cargo +nightly test --doc`: compile_fail snippets with error codes, `no_run` compiling twins, and the
Send+Sync instantiations in the library).  Nothing of espada is executed."""
import os
import re
import shutil
import subprocess

from sa import facts as FX


def run_witness(ctx, prop):
    rule = f"{prop}.type-witness"
    ctx.rule(rule, "compile_fail witnesses fail with the stated error code, their twins and the Send+Sync instantiations compile")
    src = os.path.join(FX.VERIF, "witness")
    work = os.path.join(FX.BUILD, "witness-work")
    shutil.rmtree(work, ignore_errors=True)
    os.makedirs(os.path.join(work, "src"))
    os.makedirs(os.path.join(work, ".cargo"))
    toml = open(os.path.join(src, "Cargo.toml")).read().replace('path = "/repo"', f'path = "{FX.REPO}"')
    open(os.path.join(work, "Cargo.toml"), "w").write(toml)
    shutil.copy(os.path.join(src, "src", "lib.rs"), os.path.join(work, "src", "lib.rs"))
    open(os.path.join(work, ".cargo", "config.toml"), "w").write("[net]\noffline = true\n")
    lock = os.path.join(FX.REPO, "Cargo.lock")
    if os.path.exists(lock):
        shutil.copy(lock, os.path.join(work, "Cargo.lock"))
    env = dict(os.environ, CARGO_TARGET_DIR=os.path.join(FX.BUILD, "target-witness"), CARGO_NET_OFFLINE="true")
    r = subprocess.run(["cargo", "+nightly", "test", "--doc", "--offline"], cwd=work, env=env,
                       stdout=subprocess.PIPE, stderr=subprocess.STDOUT, text=True)
    out = r.stdout
    tests = re.findall(r"^test (src/lib\.rs - \(line (\d+)\)( - [a-z ]+)?) \.\.\. (\w+)", out, re.M)
    if not tests:
        # the library part (Send + Sync instantiations) or a twin failed to compile
        m = re.search(r"error(\[E\d+\])?: [^\n]*", out)
        ctx.violation(rule, "witness-crate|does-not-compile",
                      "the witness crate does not type-check against the current tree: " + (m.group(0) if m else out[-300:]),
                      file="/verif/witness/src/lib.rs", construct="Send + Sync / 'static instantiations of the public types")
        shutil.rmtree(work, ignore_errors=True)
        return
    ctx.ok(rule, "library: assert_send_sync::<T>() type-checks for 11 public types (incl. the evaluator's IntoIter)", sample=True)
    for name, line, kind, res in tests:
        if res == "ok":
            ctx.ok(rule, f"doctest at line {line}{kind or ''}", sample=True)
        else:
            ctx.violation(rule, f"witness-doctest|{(kind or '').strip(' -')}|line-{line}",
                          f"witness doctest at /verif/witness/src/lib.rs:{line}{kind or ''} did not behave as stated "
                          f"(a compile_fail snippet compiled, or failed with another error, or a twin stopped compiling)",
                          file="/verif/witness/src/lib.rs", line=int(line))
    ctx.floor("witness doctests", len(tests), 5)
    shutil.rmtree(work, ignore_errors=True)
