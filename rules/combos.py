"""Combo tables of `RankPair::into_iter` (shared by C05, C12, C10)."""
from sa import idioms as I, prov as P
from sa.report import Unrecognised

RANK_PAIR = "hand_range::rank_pair::RankPair"
CARD_PAIR = "hand_range::card_pair::CardPair"
CARD = "card::card::Card"
SUITS = ["Spade", "Heart", "Diamond", "Club"]


def extract(F):
    """{variant: [((rank field k, suit), (rank field k, suit)) ...]} in source order, plus the fn"""
    fn = F.impl_fn("std::iter::IntoIterator", RANK_PAIR, "into_iter")
    pr = P.Prov(fn)
    new_path = CARD_PAIR + "::new"
    card_new = CARD + "::new"
    tables = {}
    for bi, t in fn.calls():
        if bi not in fn.cfg.reachable or I.callee_path(t) != new_path:
            continue
        # arm: dominating discriminant edge on the parameter
        arm = None
        for (src, lab, dst) in fn.cfg.dominating_edges(bi):
            tt = fn.blocks[src]["term"]
            if tt["k"] == "switch":
                on = pr.operand(tt["on"])
                if on[0] == "discr" and P.strip(on[1]) == ("param", 1) and lab != "otherwise":
                    arm = I.variant_by_discr(F, RANK_PAIR, lab)
        if arm is None:
            raise Unrecognised("combos", "a CardPair::new call is not inside a variant arm", fn.path, fn.line)
        cards = []
        for a in t["args"]:
            c = P.strip(pr.operand(a))
            if not (c[0] == "call" and c[1] == card_new and len(c[2]) == 2):
                raise Unrecognised("combos", f"combo card is not Card::new(rank, suit): {P.show(c)[:60]}", fn.path, fn.line)
            rk, su = P.strip(c[2][0]), c[2][1]
            if not (rk[0] == "field" and rk[1][0] == "variant" and P.strip(rk[1][1]) == ("param", 1) and rk[1][2] == arm):
                raise Unrecognised("combos", f"combo rank is not a field of the {arm} variant: {P.show(rk)[:60]}", fn.path, fn.line)
            sname = su[2] if su[0] == "enumc" else (su[1].rsplit("::", 1)[-1] if su[0] == "agg" and not su[2] else None)
            if sname not in SUITS:
                raise Unrecognised("combos", f"combo suit is not a constant: {P.show(su)[:60]}", fn.path, fn.line)
            cards.append((rk[2], sname))
        tables.setdefault(arm, []).append((tuple(cards), bi))
    # each arm's combos must be exactly the elements of one array literal (vec![..]) in that arm
    arrays = {}
    for bi in sorted(fn.cfg.reachable):
        for s in fn.blocks[bi]["stmts"]:
            if s["k"] == "assign" and "agg" in s["rv"] and isinstance(s["rv"]["agg"], dict) and "array" in s["rv"]["agg"] \
                    and CARD_PAIR in s["rv"]["agg"]["array"]:
                t = pr.rvalue(s["rv"])
                arrays.setdefault(bi, []).append(t)
    n_arr = sum(len(v) for v in arrays.values())
    elems = [o for v in arrays.values() for t in v for o in t[2]]
    n_calls = sum(len(v) for v in tables.values())
    if n_arr != len(tables) or len(elems) != n_calls or any(not (o[0] == "call" and o[1] == new_path) for o in elems):
        raise Unrecognised("combos", f"combos are not the elements of one array literal per arm ({n_arr} arrays, {len(elems)} elements, {n_calls} calls)",
                           fn.path, fn.line)
    return fn, {k: [c for c, _ in v] for k, v in tables.items()}


def expected():
    pocket = [((0, a), (0, b)) for i, a in enumerate(SUITS) for b in SUITS[i + 1:]]
    suited = [((0, s), (1, s)) for s in SUITS]
    ofsuit = [((0, a), (1, b)) for a in SUITS for b in SUITS if a != b]
    return {"Pocket": pocket, "Suited": suited, "Ofsuit": ofsuit}


def check(ctx, F, rule):
    """rule instance per combo: table complete, duplicate-free; returns tables or None"""
    ctx.rule(rule, "RankPair::into_iter lists exactly the 6 / 4 / 12 combos of a pocket / suited / offsuit rank pair")
    fn, tables = extract(F)
    ctx.analysed([fn])
    exp = expected()
    ok = True
    for v in ("Pocket", "Suited", "Ofsuit"):
        got = tables.get(v, [])
        if v == "Pocket":
            norm = lambda c: tuple(sorted(c))
        else:
            norm = lambda c: c
        gs = [norm(c) for c in got]
        es = [norm(c) for c in exp[v]]
        dup = sorted({c for c in gs if gs.count(c) > 1})
        missing = [c for c in es if c not in gs]
        extra = [c for c in gs if c not in es]
        if dup or missing or extra:
            ok = False
            ctx.violation(rule, f"{fn.path}|{v}", f"{v} combos: missing {missing}, extra {extra}, duplicated {dup} (cards written as (rank field, suit))",
                          fn=fn.path, file=fn.file, line=fn.line, construct=f"combo list of RankPair::{v}")
        else:
            ctx.ok(rule, {"variant": v, "combos": len(gs)}, n=len(gs), sample=True)
            ctx.count_nontrivial(rule + v, len(gs))
    return tables if ok else None
