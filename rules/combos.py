"""Combo tables of `RankPair::into_iter` (shared by C05, C12, C10)."""
from sa import dtree, idioms as I, loops as L, prov as P
from sa.report import Unrecognised

RANK_PAIR = "hand_range::rank_pair::RankPair"
CARD_PAIR = "hand_range::card_pair::CardPair"
CARD = "card::card::Card"
SUITS = ["Spade", "Heart", "Diamond", "Club"]


def extract(F):
    """{variant: [((rank field k, suit), (rank field k, suit)) ...]} in source order, plus the fn"""
    fn = F.impl_fn("std::iter::IntoIterator", RANK_PAIR, "into_iter")
    pr = P.Prov(fn)
    new_path = CARD_PAIR + "::new"
    card_new = CARD + "::new"
    tables = {}
    fl = L.for_loops(fn, pr)
    comprehension_arms = set()
    for bi, t in fn.calls():
        if bi not in fn.cfg.reachable or I.callee_path(t) != new_path:
            continue
        # arm: dominating discriminant edge on the parameter
        arm = None
        for (src, lab, dst) in fn.cfg.dominating_edges(bi):
            tt = fn.blocks[src]["term"]
            if tt["k"] == "switch":
                on = pr.operand(tt["on"])
                if on[0] == "discr" and P.strip(on[1]) == ("param", 1) and lab != "otherwise":
                    arm = I.variant_by_discr(F, RANK_PAIR, lab)
        if arm is None:
            sel = selected_table_form(F, fn, pr, fl, bi, t) or selected_predicate_form(F, fn, pr, fl, bi, t) or \
                variant_comprehension(F, fn, pr, fl, bi, t)
            if sel is None:
                raise Unrecognised("combos", "a CardPair::new call is not inside a variant arm", fn.path, fn.line)
            for v_, combos_ in sel.items():
                for combo in combos_:
                    tables.setdefault(v_, []).append((combo, bi))
                comprehension_arms.add(v_)
            continue
        cards = []
        for a in t["args"]:
            c = P.strip(pr.operand(a))
            if not (c[0] == "call" and c[1] == card_new and len(c[2]) == 2):
                raise Unrecognised("combos", f"combo card is not Card::new(rank, suit): {P.show(c)[:60]}", fn.path, fn.line)
            rk, su = P.strip(c[2][0]), c[2][1]
            if not (rk[0] == "field" and rk[1][0] == "variant" and P.strip(rk[1][1]) == ("param", 1) and rk[1][2] == arm):
                raise Unrecognised("combos", f"combo rank is not a field of the {arm} variant: {P.show(rk)[:60]}", fn.path, fn.line)
            sname = su[2] if su[0] == "enumc" else (su[1].rsplit("::", 1)[-1] if su[0] == "agg" and not su[2] else None)
            if sname not in SUITS:
                # comprehension form: the suit is the item of an enclosing loop over all four suits
                lp = suit_loop(F, fn, pr, fl, bi, su)
                if lp is None:
                    raise Unrecognised("combos", f"combo suit is neither a constant nor the item of a loop over all suits: {P.show(su)[:60]}", fn.path, fn.line)
                sname = ("var", lp.header)
            cards.append((rk[2], sname))
        if any(isinstance(sn, tuple) for _k, sn in cards):
            for combo in expand_comprehension(F, fn, pr, fl, bi, t, cards):
                tables.setdefault(arm, []).append((combo, bi))
            comprehension_arms.add(arm)
            continue
        tables.setdefault(arm, []).append((tuple(cards), bi))
    # each arm's combos must be exactly the elements of one array literal (vec![..]) in that arm
    arrays = {}
    for bi in sorted(fn.cfg.reachable):
        for s in fn.blocks[bi]["stmts"]:
            if s["k"] == "assign" and "agg" in s["rv"] and isinstance(s["rv"]["agg"], dict) and "array" in s["rv"]["agg"] \
                    and CARD_PAIR in s["rv"]["agg"]["array"]:
                t = pr.rvalue(s["rv"])
                arrays.setdefault(bi, []).append(t)
    n_arr = sum(len(v) for v in arrays.values())
    elems = [o for v in arrays.values() for t in v for o in t[2]]
    n_calls = sum(len(v) for k, v in tables.items() if k not in comprehension_arms)
    if n_arr != len([k for k in tables if k not in comprehension_arms]) or len(elems) != n_calls or any(not (o[0] == "call" and o[1] == new_path) for o in elems):
        raise Unrecognised("combos", f"combos are not the elements of one array literal per arm ({n_arr} arrays, {len(elems)} elements, {n_calls} calls)",
                           fn.path, fn.line)
    return fn, {k: [c for c, _ in v] for k, v in tables.items()}


def _same_vec(vec, arg):
    """the vector receiving the pushes is (one of) the vector(s) whose into_iter is returned: every alternative of `vec` (one
    local filled in several arms reads as a φ of the arms' `Vec::new()`) is an alternative of the returned one"""
    av = {P.strip(x, calls=False) for x in P.alts(P.strip(vec, calls=False))}
    aa = {P.strip(x, calls=False) for x in P.alts(P.strip(arg, calls=False))}
    return bool(av) and av <= aa


def _all_suits_domain(F, fn, lp):
    """the loop runs over all four suits, each once: SuitRange::all() or a constant array of the four suits, not adapted"""
    src, chain = lp.chain()
    if any(c.rsplit("::", 1)[-1] not in ("into_iter", "iter") for c in chain):
        return False
    s = P.strip(src, calls=False)
    if s[0] == "call" and s[1] == "card::suit_range::SuitRange::all" and not s[2]:
        return True
    vals = None
    if s[0] == "named":
        v = F.const_value(s[1])
        if v and "array" in v:
            vals = [(e.get("variant") if isinstance(e, dict) else e) for e in v["array"]]
    if s[0] == "agg" and s[1] == "array":
        vals = []
        for e in s[2]:
            e = P.strip(e)
            vals.append(e[2] if e[0] == "enumc" else (e[1].rsplit("::", 1)[-1] if e[0] == "agg" and not e[2] else None))
    return vals is not None and sorted(str(v) for v in vals) == sorted(SUITS)


def _suits_table_order(F, src):
    """the suits of a constant table / literal array in their order, else None"""
    s = P.strip(src, calls=False)
    while s[0] == "cast" and s[1] == "PointerCoercion":
        s = P.strip(s[2], calls=False)
    if s[0] == "named":
        v = F.const_value(s[1])
        if v and "array" in v and all(isinstance(e, str) for e in v["array"]):
            return list(v["array"])
    return None


_AFTER = {}     # inner loop header -> (outer loop header, table order): the inner loop walks TABLE[i + 1..], i the outer position


def suit_loop(F, fn, pr, fl, bi, su):
    st = P.strip(su)
    for lp in fl:
        if bi not in lp.body:
            continue
        item = P.strip(lp.item_term)
        src, chain = lp.chain()
        names = [c.rsplit("::", 1)[-1] for c in chain if c.rsplit("::", 1)[-1] != "into_iter"]
        if st == item and _all_suits_domain(F, fn, lp):
            return lp
        # `for (i, &left) in SUITS.iter().enumerate()`: the item's second component over all suits
        if names == ["iter", "enumerate"] and st == ("field", item, 1) and sorted(_suits_table_order(F, src) or []) == sorted(SUITS):
            return lp
        # `for &right in &SUITS[i + 1..]`, i the position of an enclosing enumerate loop over the same table: the suits after it
        if st == item and names in ([], ["iter"]):
            s0 = P.strip(src, calls=False)
            if s0[0] == "call" and s0[1].endswith("::index") and len(s0[2]) == 2:
                order = _suits_table_order(F, s0[2][0])
                rng = P.strip(s0[2][1], calls=False)
                if order and sorted(order) == sorted(SUITS) and rng[0] == "agg" and rng[1].endswith("RangeFrom::RangeFrom") and len(rng[2]) == 1:
                    stt = P.strip(rng[2][0])
                    if stt[0] == "bin" and stt[1] == "Add" and P.const_int(stt[3]) == 1:
                        for outer in fl:
                            if outer is not lp and lp.header in outer.body and P.strip(stt[2]) == ("field", P.strip(outer.item_term), 0):
                                o_src, o_chain = outer.chain()
                                o_names = [c.rsplit("::", 1)[-1] for c in o_chain if c.rsplit("::", 1)[-1] != "into_iter"]
                                if o_names == ["iter", "enumerate"] and _suits_table_order(F, o_src) == order:
                                    _AFTER[(fn.path, lp.header)] = (outer.header, order)
                                    return lp
    return None


def _pushed_into_returned_vec(fn, pr, loop, bi, t, every=True):
    call_t = pr.call_term(t, bi)
    pushed = [pb for pb, ptm in fn.calls() if ptm["callee"].get("name") == "push" and pb in loop.body and len(ptm["args"]) == 2
              and P.strip(pr.operand(ptm["args"][1]), calls=False) == call_t]
    if len(pushed) != 1 or not fn.cfg.dominates(bi, pushed[0]) or (every and not L.in_every_iteration(fn, loop, pushed[0])):
        return False
    vec = P.strip(pr.operand(fn.blocks[pushed[0]]["term"]["args"][0]), calls=False)
    rets = [P.strip(a, calls=False) for a in P.alts(pr.local(0))]
    return any(r[0] == "call" and r[1].rsplit("::", 1)[-1] == "into_iter" and r[2] and
               _same_vec(vec, r[2][0]) for r in rets)


def _arm_tuples(F, fn, pr):
    """the per-variant 3-tuples built in the arms of a match on self: {variant: [operand terms]}, else None"""
    arms = {}
    for b2 in sorted(fn.cfg.reachable):
        for st in fn.blocks[b2]["stmts"]:
            if st["k"] == "assign" and st["rv"].get("agg") == "tuple" and len(st["rv"]["ops"]) == 3:
                arm = None
                for (s0, lab, dst) in fn.cfg.dominating_edges(b2):
                    tt = fn.blocks[s0]["term"]
                    if tt["k"] == "switch":
                        on = pr.operand(tt["on"])
                        if on[0] == "discr" and P.strip(on[1]) == ("param", 1) and lab != "otherwise":
                            arm = I.variant_by_discr(F, RANK_PAIR, lab)
                if arm is None or arm in arms:
                    return None
                arms[arm] = [pr.operand(o) for o in st["rv"]["ops"]]
    if set(arms) != {"Pocket", "Suited", "Ofsuit"}:
        return None
    return arms


def _component(arms, term):
    """index i with {alternatives of term} == {component i of each arm's tuple}"""
    alts_ = {P.strip(a) for a in P.alts(term)}
    for i in range(3):
        if {P.strip(ops[i]) for ops in arms.values()} == alts_ and len(alts_) >= 1:
            return i
    return None


_REL = {"Eq": lambda a, b: a == b, "Ne": lambda a, b: a != b, "Lt": lambda a, b: a < b, "Le": lambda a, b: a <= b,
        "Gt": lambda a, b: a > b, "Ge": lambda a, b: a >= b}


def selected_predicate_form(F, fn, pr, fl, bi, t):
    """`for a in ALL { for b in ALL { if pred(a, b) { v.push(CardPair::new(Card::new(high, a), Card::new(kicker, b))) } } }` after a
    match that picks (high, kicker, pred) per variant, pred being a capture-free closure or fn that compares its two suits with
    one of == != < <= > >= (Suit's derived order is its declaration order): {variant: combos}, the finite comprehension written
    out per variant — else None"""
    card_new = CARD + "::new"
    suit_adt = CARD.rsplit("::", 2)[0] + "::suit::Suit"
    loops = sorted([lp for lp in fl if bi in lp.body], key=lambda lp: -len(lp.body))
    if len(loops) != 2 or not all(_all_suits_domain(F, fn, lp) for lp in loops):
        return None
    outer, inner = loops
    if inner.header not in outer.body:
        return None
    items = [P.strip(outer.item_term), P.strip(inner.item_term)]
    arms = _arm_tuples(F, fn, pr)
    if arms is None:
        return None
    cards = []
    for a in t["args"]:
        c = P.strip(pr.operand(a))
        if not (c[0] == "call" and c[1] == card_new and len(c[2]) == 2):
            return None
        su = P.strip(c[2][1])
        if su not in items:
            return None
        ci = _component(arms, P.strip(c[2][0]))
        if ci is None:
            return None
        cards.append((ci, items.index(su)))
    # the one condition between the loops and the push: an indirect call of the selected predicate on the two loop items
    loop_sw = {fn.blocks[lp.next_block]["term"]["to"] for lp in fl}
    conds = [(src, lab) for (src, lab, dst) in fn.cfg.dominating_edges(bi)
             if src in outer.body and src not in loop_sw and fn.blocks[src]["term"]["k"] == "switch"]
    if len(conds) != 1:
        return None
    src, lab = conds[0]
    sw = fn.blocks[src]["term"]
    if sw.get("ty") != "bool":
        return None
    others = [l for l, _ in fn.cfg.succ_edges[src] if l != "otherwise"]
    truth = (others == [0]) if lab == "otherwise" else bool(lab)
    on = P.strip(pr.operand(sw["on"]), calls=False)
    if not truth or not (on[0] == "call" and on[1] == "<indirect>" and len(on[2]) == 2):
        return None
    xs = [P.strip(x) for x in on[2]]
    if sorted(xs, key=str) != sorted(items, key=str) or xs[0] == xs[1]:
        return None
    callee = fn.blocks[on[3]]["term"]["callee"].get("indirect")
    pi = _component(arms, pr.operand(callee)) if callee else None
    if pi is None or pi in [c for c, _ in cards]:
        return None
    if not _pushed_into_returned_vec(fn, pr, inner, bi, t, every=False) or not L.in_every_iteration(fn, outer, inner.header):
        return None
    # .. pushed under that condition only, and neither loop is left early
    call_t = pr.call_term(t, bi)
    pb = [b_ for b_, ptm in fn.calls() if ptm["callee"].get("name") == "push" and b_ in inner.body and len(ptm["args"]) == 2
          and P.strip(pr.operand(ptm["args"][1]), calls=False) == call_t][0]
    if [(s_, l_) for (s_, l_, _d) in fn.cfg.dominating_edges(pb) if s_ in outer.body and s_ not in loop_sw
            and fn.blocks[s_]["term"]["k"] == "switch"] != conds:
        return None
    from rules import runpass
    if runpass.early_exits(fn, inner) or runpass.early_exits(fn, outer):
        return None
    # Suit's comparisons are the derived ones: order = declaration order
    a_s = F.adts.get(suit_adt)
    if a_s is None or not all(any(im["trait"] == tr and im.get("derived") for im in a_s["impls"]) for tr in ("std::cmp::PartialEq", "std::cmp::PartialOrd")):
        return None
    pos = {v["name"]: v["discr"] for v in a_s["variants"]}
    out = {}
    for arm, ops in arms.items():
        pt = P.strip(ops[pi])
        while pt[0] == "cast" and pt[1] == "PointerCoercion":
            pt = P.strip(pt[2])
        if pt[0] == "agg" and pt[1].startswith("closure:") and not pt[2]:
            g, first = F.fns.get(pt[1][len("closure:"):]), 2
        elif pt[0] == "fn":
            g, first = F.fns.get(pt[1]), 1
        else:
            return None
        if g is None or g.cfg.has_loops() or any(b_["term"]["k"] == "switch" for i_, b_ in enumerate(g.blocks) if i_ in g.cfg.reachable):
            return None
        n = I.norm_rel(P.strip(P.Prov(g).local(0), calls=False), True)
        if n is None or n[0] not in _REL:
            return None
        px = [P.strip(n[1]), P.strip(n[2])]
        if sorted(px) != [("param", first), ("param", first + 1)]:
            return None
        ranks = []
        for ci, _li in cards:
            rk = P.strip(ops[ci])
            if not (rk[0] == "field" and rk[1][0] == "variant" and P.strip(rk[1][1]) == ("param", 1) and rk[1][2] == arm):
                return None
            ranks.append(rk[2])
        combos = []
        for a_ in SUITS:
            for b_ in SUITS:
                env = {0: a_, 1: b_}                       # loop index -> suit of this iteration
                arg = [env[items.index(x)] for x in xs]    # the predicate's arguments, in call order
                par = {("param", first): arg[0], ("param", first + 1): arg[1]}
                if _REL[n[0]](pos[par[px[0]]], pos[par[px[1]]]):
                    combos.append(tuple((ranks[k], env[cards[k][1]]) for k in range(2)))
        out[arm] = combos
    return out


def variant_comprehension(F, fn, pr, fl, bi, t):
    """one shared `for a in ALL { for b in ALL { if <membership> { v.push(CardPair::new(Card::new(high, a), Card::new(kicker, b))) } } }`
    where high, kicker and the membership test depend on the variant of self in any way (a tuple picked by a `match` before the
    loops, a `match self` inside them, a comparison closure selected per variant): for each variant the function is read with
    the switches on self's discriminant fixed to that variant, and one iteration of the inner loop is folded for each of the
    16 suit pairs (branch conditions must be == != < <= > >= between the two loop suits, Suit's derived order) to see whether it
    pushes.  {variant: combos in push order}, else None"""
    card_new = CARD + "::new"
    suit_adt = CARD.rsplit("::", 2)[0] + "::suit::Suit"
    loops = sorted([lp for lp in fl if bi in lp.body], key=lambda lp: -len(lp.body))
    if len(loops) != 2 or not all(_all_suits_domain(F, fn, lp) for lp in loops):
        return None
    outer, inner = loops
    if inner.header not in outer.body or not L.in_every_iteration(fn, outer, inner.header):
        return None
    from rules import runpass
    if runpass.early_exits(fn, inner) or runpass.early_exits(fn, outer):
        return None
    items = [P.strip(outer.item_term), P.strip(inner.item_term)]
    if items[0] == items[1]:
        return None
    a_s = F.adts.get(suit_adt)
    if a_s is None or not all(any(im["trait"] == tr and im.get("derived") for im in a_s["impls"]) for tr in ("std::cmp::PartialEq", "std::cmp::PartialOrd")):
        return None
    pos = {v["name"]: v["discr"] for v in a_s["variants"]}
    sw_inner = fn.blocks[inner.next_block]["term"]["to"]
    entry = [tgt for lab, tgt in fn.cfg.succ_edges[sw_inner] if tgt in inner.body and tgt != inner.header]
    if len(entry) != 1:
        return None
    entry = entry[0]
    rets = [P.strip(a, calls=False) for a in P.alts(pr.local(0))]
    out = {}
    for var in F.adts[RANK_PAIR]["variants"]:
        V, want = var["name"], var["discr"]
        removed = []
        for b2 in sorted(fn.cfg.reachable):
            t2 = fn.blocks[b2]["term"]
            if t2["k"] != "switch":
                continue
            on = P.strip(pr.operand(t2["on"]))
            if on[0] == "discr" and P.strip(on[1]) == ("param", 1):
                labs = [l for l, _ in fn.cfg.succ_edges[b2]]
                keep = want if want in labs else "otherwise"
                removed += [(b2, l) for l in labs if l != keep]
        if not removed:
            return None
        reach = I.reachable_avoiding(fn, removed)
        if bi not in reach:
            return None

        class _Pth:
            blocks = sorted(reach)
        rp = dtree.PathProv(fn, _Pth)
        cards = []
        for a in t["args"]:
            c = P.strip(rp.operand(a))
            if not (c[0] == "call" and c[1] == card_new and len(c[2]) == 2):
                return None
            su, rk = P.strip(c[2][1]), P.strip(c[2][0])
            if su not in items:
                return None
            if not (rk[0] == "field" and rk[1][0] == "variant" and P.strip(rk[1][1]) == ("param", 1) and rk[1][2] == V):
                return None
            cards.append((rk[2], items.index(su)))
        call_t = rp.call_term(t, bi)
        try:
            paths = dtree.region_paths(fn, entry, {inner.header}, removed)
        except dtree.Unanalysable:
            return None
        folded = []      # (predicates [(op, i, j)], pushes the combo?)
        for p_ in paths:
            if p_.end != "stop":
                return None
            preds = []
            for (b_, _t, lab, ty, others) in p_.conds:
                on = P.strip(rp.operand(fn.blocks[b_]["term"]["on"]), calls=False)
                if on[0] == "discr" and P.strip(on[1]) == ("param", 1):
                    continue
                if ty != "bool":
                    return None
                truth = (others == [0]) if lab == "otherwise" else bool(lab)
                if on[0] == "call" and on[1] == "<indirect>" and len(on[2]) == 2:
                    callee = fn.blocks[on[3]]["term"]["callee"].get("indirect")
                    pt = P.strip(rp.operand(callee)) if callee else ("?",)
                    while pt[0] == "cast" and pt[1] == "PointerCoercion":
                        pt = P.strip(pt[2])
                    if pt[0] == "agg" and pt[1].startswith("closure:") and not pt[2]:
                        g, first = F.fns.get(pt[1][len("closure:"):]), 2
                    elif pt[0] == "fn":
                        g, first = F.fns.get(pt[1]), 1
                    else:
                        return None
                    if g is None or g.cfg.has_loops() or any(b3["term"]["k"] == "switch" for i3, b3 in enumerate(g.blocks) if i3 in g.cfg.reachable):
                        return None
                    n = I.norm_rel(P.strip(P.Prov(g).local(0), calls=False), truth)
                    if n is None or n[0] not in _REL:
                        return None
                    par = {("param", first): P.strip(on[2][0]), ("param", first + 1): P.strip(on[2][1])}
                    x, y = par.get(P.strip(n[1])), par.get(P.strip(n[2]))
                else:
                    n = I.norm_rel(on, truth)
                    if n is None or n[0] not in _REL:
                        return None
                    x, y = P.strip(n[1]), P.strip(n[2])
                if x not in items or y not in items:
                    return None
                preds.append((n[0], items.index(x), items.index(y)))
            pushes = [b_ for b_ in p_.blocks if fn.blocks[b_]["term"]["k"] == "call" and fn.blocks[b_]["term"]["callee"].get("name") == "push"]
            if bi in p_.blocks:
                if len(pushes) != 1 or len(fn.blocks[pushes[0]]["term"]["args"]) != 2 or \
                        P.strip(rp.operand(fn.blocks[pushes[0]]["term"]["args"][1]), calls=False) != call_t:
                    return None
                vec = P.strip(rp.operand(fn.blocks[pushes[0]]["term"]["args"][0]), calls=False)
                rets_v = [P.strip(a, calls=False) for a in P.alts(rp.local(0))]
                if not any(r[0] == "call" and r[1].rsplit("::", 1)[-1] == "into_iter" and r[2] and
                           _same_vec(vec, r[2][0]) for r in rets_v):
                    return None
            elif pushes:
                return None
            folded.append((preds, bi in p_.blocks))
        combos = []
        for a_ in SUITS:
            for b_ in SUITS:
                env = (pos[a_], pos[b_])
                sat = [pushes_ for preds, pushes_ in folded if all(_REL[op](env[i], env[j]) for op, i, j in preds)]
                if len(sat) != 1:
                    return None
                if sat[0]:
                    suit_of = (a_, b_)
                    combos.append(tuple((k, suit_of[li]) for k, li in cards))
        out[V] = combos
    return out


def selected_table_form(F, fn, pr, fl, bi, t):
    """one shared `table.iter().map(|&(a, b)| CardPair::new(Card::new(high, a), Card::new(kicker, b)))` after a match that picks
    (high, kicker, table) per variant, the tables being constant arrays of suit pairs: {variant: combos}, else None"""
    card_new = CARD + "::new"
    loops = [lp for lp in fl if bi in lp.body]
    if len(loops) != 1:
        return None
    lp = loops[0]
    src, chain = lp.chain()
    if any(c.rsplit("::", 1)[-1] not in ("iter", "into_iter", "copied") for c in chain):
        return None
    item = P.strip(lp.item_term)

    def unref(u):
        u = P.strip(u)
        return ("field", unref(u[1]), u[2]) if u[0] == "field" else u
    cards = []
    for a in t["args"]:
        c = P.strip(pr.operand(a))
        if not (c[0] == "call" and c[1] == card_new and len(c[2]) == 2):
            return None
        su = unref(c[2][1])
        if not (su[0] == "field" and su[1] == item and su[2] in (0, 1)):
            return None
        cards.append((P.strip(c[2][0]), su[2]))
    arms = _arm_tuples(F, fn, pr)
    if arms is None:
        return None

    def component(term):
        return _component(arms, term)
    ci = [component(rk) for rk, _k in cards]
    si = component(P.strip(src))
    if None in ci or si is None or si in ci:
        return None
    if not _pushed_into_returned_vec(fn, pr, lp, bi, t):
        return None
    out = {}
    for arm, ops in arms.items():
        tb = P.strip(ops[si])
        while tb[0] == "cast" and tb[1] == "PointerCoercion":
            tb = P.strip(tb[2])
        if tb[0] != "named":
            return None
        tv = F.const_value(tb[1])
        if not tv or "array" not in tv or not all(isinstance(e, list) and len(e) == 2 and all(x in SUITS for x in e) for e in tv["array"]):
            return None
        ranks = []
        for i in ci:
            rk = P.strip(ops[i])
            if not (rk[0] == "field" and rk[1][0] == "variant" and P.strip(rk[1][1]) == ("param", 1) and rk[1][2] == arm):
                return None
            ranks.append(rk[2])
        out[arm] = [tuple((ranks[k], e[cards[k][1]]) for k in range(2)) for e in tv["array"]]
    return out


def expand_comprehension(F, fn, pr, fl, bi, t, cards):
    """combos pushed by `for a in SUITS { for b in SUITS { if a REL b { v.push(CardPair::new(Card::new(r, a), Card::new(k, b))) } } }`:
    the set {(a, b) : REL} written out (a finite comprehension over the four suits, no execution)"""
    loops = {sn[1]: [lp for lp in fl if lp.header == sn[1]][0] for _k, sn in cards if isinstance(sn, tuple)}
    # every loop around the call is one of the variable loops (nothing else repeats the push)
    for lp in fl:
        if bi in lp.body and lp.header not in loops:
            raise Unrecognised("combos", "a combo is pushed inside a loop that does not supply one of its suits", fn.path, fn.line)
    items = {h: P.strip(lp.item_term) for h, lp in loops.items()}
    # the conditions under which the call runs: relations between the loop items only
    rels = []
    inner = min(loops.values(), key=lambda lp: len(lp.body))
    outer = max(loops.values(), key=lambda lp: len(lp.body))
    loop_sw = {fn.blocks[lp.next_block]["term"]["to"] for lp in fl}
    rel_by_edge = {}
    for (b, lab, op, x, y) in I.rel_edges(fn, pr, F):
        rel_by_edge[(b, lab)] = (op, P.strip(x), P.strip(y))
    for (src, lab, dst) in fn.cfg.dominating_edges(bi):
        if src not in outer.body or src in loop_sw:
            continue
        tt = fn.blocks[src]["term"]
        if tt["k"] != "switch":
            continue
        r = rel_by_edge.get((src, lab))
        hx = [h for h, it in items.items() if r and r[1] == it]
        hy = [h for h, it in items.items() if r and r[2] == it]
        if r is None or r[0] not in ("Eq", "Ne") or not hx or not hy:
            raise Unrecognised("combos", f"a combo is pushed under a condition that is not ==/!= between the loop suits (line {fn.blocks[src]['line']})", fn.path, fn.line)
        rels.append((r[0], hx[0], hy[0]))
    # the pair is pushed (once per iteration) onto the vector the arm returns
    call_t = pr.call_term(t, bi)
    pushed = [pb for pb, ptm in fn.calls() if ptm["callee"].get("name") == "push" and pb in inner.body and len(ptm["args"]) == 2
              and P.strip(pr.operand(ptm["args"][1]), calls=False) == call_t]
    if len(pushed) != 1 or not fn.cfg.dominates(bi, pushed[0]):
        raise Unrecognised("combos", "the combo built in the loop is not pushed exactly once per iteration", fn.path, fn.line)
    vec = P.strip(pr.operand(fn.blocks[pushed[0]]["term"]["args"][0]), calls=False)
    rets = [P.strip(a, calls=False) for a in P.alts(pr.local(0))]
    if not any(r[0] == "call" and r[1].rsplit("::", 1)[-1] == "into_iter" and r[2] and
               _same_vec(vec, r[2][0]) for r in rets):
        raise Unrecognised("combos", "the vector the loop fills is not the one the arm iterates", fn.path, fn.line)
    hs = sorted(loops)
    out = []
    import itertools
    after = {h: _AFTER[(fn.path, h)] for h in hs if (fn.path, h) in _AFTER}
    for h, (oh, order) in after.items():
        if oh not in loops:
            raise Unrecognised("combos", "a suit loop over the suits after another loop's position, whose suit is not part of the combo", fn.path, fn.line)
    for assign in itertools.product(SUITS, repeat=len(hs)):
        env = dict(zip(hs, assign))
        if any(order.index(env[h]) <= order.index(env[oh]) for h, (oh, order) in after.items()):
            continue
        if all((env[a] == env[b_]) == (op == "Eq") for op, a, b_ in rels):
            out.append(tuple((k, env[sn[1]] if isinstance(sn, tuple) else sn) for k, sn in cards))
    return out


def expected():
    pocket = [((0, a), (0, b)) for i, a in enumerate(SUITS) for b in SUITS[i + 1:]]
    suited = [((0, s), (1, s)) for s in SUITS]
    ofsuit = [((0, a), (1, b)) for a in SUITS for b in SUITS if a != b]
    return {"Pocket": pocket, "Suited": suited, "Ofsuit": ofsuit}


def check(ctx, F, rule):
    """rule instance per combo: table complete, duplicate-free; returns tables or None"""
    ctx.rule(rule, "RankPair::into_iter lists exactly the 6 / 4 / 12 combos of a pocket / suited / offsuit rank pair")
    fn, tables = extract(F)
    ctx.analysed([fn])
    exp = expected()
    ok = True
    for v in ("Pocket", "Suited", "Ofsuit"):
        got = tables.get(v, [])
        if v == "Pocket":
            norm = lambda c: tuple(sorted(c))
        else:
            norm = lambda c: c
        gs = [norm(c) for c in got]
        es = [norm(c) for c in exp[v]]
        dup = sorted({c for c in gs if gs.count(c) > 1})
        missing = [c for c in es if c not in gs]
        extra = [c for c in gs if c not in es]
        if not got:
            ok = False
            ctx.violation(rule, f"{fn.path}|{v}", f"fail closed: no CardPair::new(Card::new(rank, suit), Card::new(rank, suit)) found for {v} in "
                          f"{fn.path} (the combos are built somewhere this rule does not look: a closure handed to a std adaptor, "
                          f"a generic helper)", fn=fn.path, file=fn.file, line=fn.line, construct=f"combo list of RankPair::{v}")
        elif dup or missing or extra:
            ok = False
            ctx.violation(rule, f"{fn.path}|{v}", f"{v} combos: missing {missing}, extra {extra}, duplicated {dup} (cards written as (rank field, suit))",
                          fn=fn.path, file=fn.file, line=fn.line, construct=f"combo list of RankPair::{v}")
        else:
            ctx.ok(rule, {"variant": v, "combos": len(gs)}, n=len(gs), sample=True)
            ctx.count_nontrivial(rule + v, len(gs))
    return tables if ok else None
