"""C11 — equities are invariant under suit relabelling and follow player reordering (mechanisms).

 1. suit genericity of evaluation: in the bodies reachable from MadeHand::from, Showdown::new and
    winner_len a Suit value is only copied, compared for (in)equality with another non-constant
    suit, or turned into its injective code that is used solely as an index of a local array
 2. position genericity of players (C03's rule, re-evaluated here)
 3. one pot: min-selection discipline and flag counting (C03's rules, re-evaluated here)
Not decided: the metamorphic relation itself (two runs of the pipeline on related inputs)."""
from sa import callgraph, idioms as I, prov as P
from sa.report import Unrecognised
from rules import c03

SUIT = "card::suit::Suit"
MADE_HAND = "evaluator::made_hand::MadeHand"
SHOWDOWN = "evaluator::showdown::Showdown"


def is_suit_ty(ty):
    return ty.replace("&", "").replace("mut ", "").strip() == SUIT


def place_ty(fn, pl):
    ty = fn.local_ty(pl["l"])
    for e in pl["proj"]:
        if e == "deref":
            ty = ty.lstrip("&").replace("mut ", "", 1).strip() if ty.startswith("&") else ty
        elif isinstance(e, dict) and "ty" in e:
            ty = e["ty"]
        elif isinstance(e, dict) and ("idx" in e or "cidx" in e):
            if ty.startswith("[") and ";" in ty:
                ty = ty[1:ty.rindex(";")].strip()
    return ty


def op_ty(fn, op):
    if "const" in op:
        c = op["const"]
        return c.get("adt") or c.get("ty") or ""
    return place_ty(fn, op.get("copy") or op.get("move"))


def run(ctx):
    ctx.explanation = ("static mechanisms behind the invariance: (1) use-site audit of every Suit-typed value in the bodies "
                       "reachable from the evaluation entry points — no suit constant, no match/ordering on a suit, the suit code "
                       "only indexes a local counter array — so evaluation depends on suits only through equality, hence is "
                       "invariant under any relabelling of the four suits; (2) the seat index only enters the winner set; (3) the "
                       "winner flags/count discipline. The metamorphic relation over whole enumerations is NOT decided.")
    F = ctx.facts("lib")
    cg = callgraph.build(F)
    anchors = [F.impl_fn("std::convert::From<[card::card::Card; 7]>", MADE_HAND, "from").path,
               F.fn(SHOWDOWN + "::new").path, F.fn(SHOWDOWN + "::winner_len").path]
    reach = cg.reach(anchors)
    ctx.analysed(reach)
    ctx.floor("bodies reachable from the evaluation anchors", len(reach), 10)
    rule = "C11.suit-generic"
    ctx.rule(rule, "Suit values reachable from evaluation are only copied, ==/!= compared with non-constant suits, or coded into an index of a local array")
    code_fns = set()
    n_sites = 0
    bad = 0
    for p in sorted(reach):
        fn = F.fns[p]
        im = fn.impl or {}
        # the conversions and derived impls of Suit itself are where variants are legitimately named
        if im.get("self_ty") == SUIT or SUIT in (im.get("trait") or "") and im.get("self_ty") in ("u8", "char"):
            code_fns.add(p)
            continue
        if im.get("derived"):
            continue
        pr = P.Prov(fn)
        for pb in fn.d.get("promoted", []):
            for blk in pb["blocks"]:
                for s in blk["stmts"]:
                    if s["k"] == "assign" and "agg" in s["rv"] and isinstance(s["rv"]["agg"], dict) and s["rv"]["agg"].get("adt") == SUIT:
                        bad += 1
                        ctx.violation(rule, f"{p}|suit-constant|{s['rv']['agg']['variant']}",
                                      f"{p} names the constant suit {s['rv']['agg']['variant']} (in a promoted constant): evaluation treats one suit specially",
                                      fn=p, file=fn.file, line=s["line"], construct=f"&Suit::{s['rv']['agg']['variant']}")
        for bi in sorted(fn.cfg.reachable):
            blk = fn.blocks[bi]
            for s in blk["stmts"]:
                if s["k"] != "assign":
                    continue
                rv = s["rv"]
                if "agg" in rv and isinstance(rv["agg"], dict) and rv["agg"].get("adt") == SUIT:
                    bad += 1
                    ctx.violation(rule, f"{p}|suit-constant|{rv['agg']['variant']}",
                                  f"{p} names the constant suit {rv['agg']['variant']}: evaluation treats one suit specially",
                                  fn=p, file=fn.file, line=s["line"], construct=f"Suit::{rv['agg']['variant']}")
                for k in ("use", "a", "b"):
                    o = rv.get(k)
                    if isinstance(o, dict) and "const" in o and o["const"].get("adt") == SUIT:
                        bad += 1
                        ctx.violation(rule, f"{p}|suit-constant|{o['const'].get('variant')}", f"{p} uses the constant suit {o['const'].get('variant')}",
                                      fn=p, file=fn.file, line=s["line"])
                if "discr" in rv and is_suit_ty(place_ty(fn, rv["discr"])):
                    bad += 1
                    ctx.violation(rule, f"{p}|suit-match", f"{p} matches on a suit value", fn=p, file=fn.file, line=s["line"],
                                  construct="discriminant read of a Suit")
                if "bin" in rv and any(is_suit_ty(op_ty(fn, rv[k])) for k in ("a", "b")):
                    bad += 1
                    ctx.violation(rule, f"{p}|suit-binop", f"{p} applies {rv['bin']} to a suit", fn=p, file=fn.file, line=s["line"])
                if "cast" in rv and is_suit_ty(rv["from"]):
                    bad += 1
                    ctx.violation(rule, f"{p}|suit-cast", f"{p} casts a suit to {rv['to']} (its declaration position)", fn=p, file=fn.file, line=s["line"])
            t = blk["term"]
            if t["k"] == "call":
                tys = [op_ty(fn, a) for a in t["args"]]
                if any(is_suit_ty(x) for x in tys):
                    n_sites += 1
                    cp = I.callee_path(t)
                    nm = t["callee"].get("name")
                    tr = t["callee"].get("trait") or ""
                    if nm in ("eq", "ne") and "PartialEq" in tr:
                        # both operands must be non-constant suits
                        def has_suit_const(a):
                            for sub in P.walk(pr.operand(a)):
                                if sub[0] == "enumc" and sub[1] == SUIT:
                                    return True
                                if sub[0] == "agg" and sub[1].startswith("adt:" + SUIT + "::"):
                                    return True
                            return False
                        if any(has_suit_const(a) for a in t["args"]):
                            bad += 1
                            ctx.violation(rule, f"{p}|suit-eq-constant", f"{p} compares a suit with a constant", fn=p, file=fn.file, line=blk["line"])
                        continue
                    if cp in F.fns and ((F.fns[cp].impl or {}).get("self_ty") in ("u8",) and SUIT in ((F.fns[cp].impl or {}).get("trait") or "")):
                        continue   # the injective code; its uses are audited below
                    if nm in ("clone", "borrow", "deref", "as_ref") or cp.startswith("std::option::Option") or cp.startswith("core::fmt"):
                        continue
                    if cp in F.fns and cp in reach:
                        # crate-local callee taking a suit (e.g. the flush hash taking the detected suit): analysed itself
                        continue
                    bad += 1
                    ctx.violation(rule, f"{p}|suit-passed-to|{cp.rsplit('::', 2)[-2]}::{nm}",
                                  f"{p} passes a suit to {cp}: not an (in)equality test, the code conversion or a copy",
                                  fn=p, file=fn.file, line=blk["line"])
            if t["k"] == "switch":
                tt = pr.operand(t["on"])
                if tt[0] == "discr":
                    pass  # handled at the discriminant read
        # uses of the suit code: only as (a widening cast feeding) an index of a local array
        for bi, t in fn.calls():
            cp = I.callee_path(t)
            if not (cp in F.fns and (F.fns[cp].impl or {}).get("self_ty") == "u8" and SUIT in ((F.fns[cp].impl or {}).get("trait") or "")):
                continue
            code_term = pr.call_term(t, bi)
            for bj in sorted(fn.cfg.reachable):
                blk2 = fn.blocks[bj]
                for s in blk2["stmts"]:
                    if s["k"] != "assign":
                        continue
                    rv = s["rv"]
                    if "bin" in rv:
                        for k in ("a", "b"):
                            tt = pr.operand(rv[k])
                            w = tt
                            while w[0] == "cast":
                                w = w[2]
                            if w == code_term:
                                # bounds-check comparison `Lt(idx, len)` is generated for the array access itself
                                other = pr.operand(rv["b" if k == "a" else "a"])
                                if rv["bin"] == "Lt" and k == "a" and P.const_int(other) is not None and any(
                                        b2["term"]["k"] == "assert" and b2["term"]["msg"]["kind"] == "BoundsCheck" for b2 in [blk2]):
                                    continue
                                bad += 1
                                ctx.violation(rule, f"{p}|suit-code-arithmetic", f"{p} computes with the suit's numeric code ({rv['bin']}): "
                                              f"the result depends on which suit it is", fn=p, file=fn.file, line=s["line"])
                t2 = blk2["term"]
                if t2["k"] == "switch":
                    w = pr.operand(t2["on"])
                    while w[0] == "cast":
                        w = w[2]
                    if w == code_term:
                        bad += 1
                        ctx.violation(rule, f"{p}|suit-code-branch", f"{p} branches on the suit's numeric code", fn=p, file=fn.file, line=blk2["line"])
            # arrays indexed by the code must not also be indexed by constants
            for l, sts in list(pr.stores.items()):
                if not fn.local_ty(l).startswith("["):
                    continue
                code_indexed = False
                const_indexed = False
                for (sb, si, pl, rv) in sts:
                    for e in pl["proj"]:
                        if isinstance(e, dict) and "idx" in e:
                            it = pr.local(e["idx"])
                            w = it
                            while w[0] == "cast":
                                w = w[2]
                            if w == code_term:
                                code_indexed = True
                            elif P.const_int(it) is not None:
                                const_indexed = True
                        if isinstance(e, dict) and "cidx" in e:
                            const_indexed = True
                if code_indexed:
                    # reads with a constant index
                    for bj in sorted(fn.cfg.reachable):
                        for s in fn.blocks[bj]["stmts"]:
                            if s["k"] == "assign":
                                txt = s["rv"]
                                for key in ("use", "a", "b"):
                                    o = txt.get(key)
                                    if isinstance(o, dict) and ("copy" in o or "move" in o):
                                        plc = o.get("copy") or o.get("move")
                                        if plc["l"] == l:
                                            for e in plc["proj"]:
                                                if isinstance(e, dict) and "idx" in e and P.const_int(pr.local(e["idx"])) is not None:
                                                    const_indexed = True
                                                if isinstance(e, dict) and "cidx" in e:
                                                    const_indexed = True
                    if const_indexed:
                        bad += 1
                        ctx.violation(rule, f"{p}|per-suit-array-constant-index", f"{p} reads or writes one fixed slot of the per-suit array",
                                      fn=p, file=fn.file, line=fn.line)
    if not bad:
        ctx.ok(rule, {"bodies_audited": len(reach) - len(code_fns), "calls_with_suit_arguments": n_sites,
                      "excluded": "Suit's own conversions and derived impls"}, sample=True)
    # 2 + 3: C03's rules under this property's name
    try:
        c03.run(ctx, prefix="C11", set_explanation=False)
    except Unrecognised as e:
        ctx.unrecognised(e.rule, e.msg, e.fn, e.line)
    # the invariance is a statement about the *whole* enumeration: an unscoped evaluator must cover the whole position
    # line (a truncated walk drops deals that are not closed under suit relabelling) — C04's plumbing / successor rules
    try:
        from rules import c04, evalmodel
        M = evalmodel.get(F)
        c04.rule_plumbing(ctx, M, prefix="C11")
        c04.rule_successor(ctx, M, prefix="C11")
    except Unrecognised as e:
        ctx.unrecognised(e.rule, e.msg, e.fn, e.line)
    # following a player reordering needs blocking between players to be symmetric: every hole card is tested against and
    # recorded in one common used-card set (C02's rule)
    try:
        from rules import c02
        from sa.report import PrefixCtx
        M2 = evalmodel.get(F)
        pl2 = M2.plumbing()
        c02.rule_used_set(PrefixCtx(ctx, "C02", "C11"), M2, M2.deal, P.Prov(M2.deal), pl2["turn_from"][1], pl2["river_from"][1])
    except Unrecognised as e:
        ctx.unrecognised("C11.R-used-set", e.msg, e.fn, e.line)
    # .. and following a suit relabelling (or a reordering of the flop as given) needs the deck to be exactly the complement of
    # the board, whichever cards the board holds and in whichever order (C02's deck rule)
    try:
        c02.rule_deck(PrefixCtx(ctx, "C02", "C11"), evalmodel.get(F))
    except Unrecognised as e:
        ctx.unrecognised("C11.deck", e.msg, e.fn, e.line)
    # .. and following a reordering of the players needs every combination of the players' combos to be dealt whatever the
    # seat order: the odometer advances the rightmost player with room and resets the later ones (C02's odometer rule; one
    # that advances the leftmost one deals a seat-order-dependent subset)
    try:
        c02.rule_odometer_any(PrefixCtx(ctx, "C02", "C11"), evalmodel.get(F), evalmodel.get(F).deal)
    except Unrecognised as e:
        ctx.unrecognised("C11.R-odometer", e.msg, e.fn, e.line)
    ctx.assume("the deck / odometer order only permutes the multiset of deals (C02 decides necessary conditions of the enumeration, not this)")
    ctx.assume("relabelling suits maps ranges to ranges (HandRange is keyed by normalised pairs, C14)")
