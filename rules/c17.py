"""C17 — range text is canonical (one clause: no hash-iteration order reaches the text).

In every body reachable from the Display impls of HandRange / HandRangeToken / RankPair / CardPair / Card,
a loop or adaptor chain that consumes a hash-ordered iterator may only feed order-insensitive sinks
(hash map/set insert/remove/lookups, all/any/count/min/max, nested loops over fixed tables feeding
the same) and may only exit on exhaustion.  Not decided: maximal run merging."""
from sa import callgraph, idioms as I, loops as L, prov as P
from sa.report import Unrecognised

HR = "hand_range::hand_range::HandRange"
HASHY = ("hash_map::", "hash_set::", "hashbrown::")
ORDER_FREE_CONSUMERS = {"all", "any", "count", "min", "max", "sum", "product", "len", "is_empty", "contains", "contains_key", "get"}
UNORDERED_TARGETS = ("std::collections::HashMap", "std::collections::HashSet", "std::collections::BTreeMap", "std::collections::BTreeSet")
ORDER_SINKS = {"push", "push_str", "push_back", "push_front", "extend", "extend_from_slice", "write_str", "write_fmt", "write_char",
               "fmt", "append", "collect", "for_each", "fold", "try_fold", "reduce", "last", "nth", "find", "find_map", "position",
               "next", "unzip", "join", "concat", "to_string", "format"}


def hashy(s):
    return any(h in s for h in HASHY)


def hash_order_audit(F, fn):
    """-> ([(loop line, source, [(line, problem)])], [(line, consumer, full callee, ok)]) for one body"""
    p = fn.path
    pr = P.Prov(fn)
    fls = L.for_loops(fn, pr)
    loop_next_blocks = {lp.next_block for lp in fls}
    loops_out, chains_out = [], []
    for lp in fls:
        full = fn.blocks[lp.next_block]["term"]["callee"].get("full", "") + " " + lp.next_path
        src, chain = lp.chain()
        local_hash_src = False
        for c in chain:
            g = F.fns.get(c)
            if g is not None and hashy(g.local_ty(0)):
                local_hash_src = True
        if not (hashy(full) or any(hashy(c) for c in chain) or local_hash_src):
            continue
        problems = []
        for b in sorted(lp.body):
            for lab, tgt in fn.cfg.succ_edges[b]:
                if tgt not in lp.body and not (b == fn.blocks[lp.next_block]["term"]["to"] and tgt == lp.exit_block):
                    t2 = fn.blocks[tgt]["term"]
                    if t2["k"] in ("unreachable",):
                        continue
                    problems.append((fn.blocks[b]["line"], "early exit from a hash-ordered loop (the first match depends on iteration order)"))
        for b in sorted(lp.body):
            t = fn.blocks[b]["term"]
            if t["k"] != "call" or b in loop_next_blocks:
                continue
            nm = t["callee"].get("name")
            cp = I.callee_path(t)
            if cp.startswith("std::collections::HashMap") or cp.startswith("std::collections::HashSet") or \
                    cp.startswith("std::collections::BTreeMap") or cp.startswith("std::collections::BTreeSet"):
                if nm in ("insert", "remove", "get", "contains_key", "contains", "len", "entry", "get_mut", "clear"):
                    continue
            if nm in ORDER_SINKS and not (nm == "collect" and any(x in (t["callee"].get("full") or "") for x in UNORDERED_TARGETS)):
                problems.append((fn.blocks[b]["line"], f"order-sensitive sink {cp} inside a hash-ordered loop"))
                continue
            if cp in F.fns:
                g = F.fns[cp]
                if any(g.local_ty(i).startswith("&mut") for i in range(1, g.arg_count + 1)):
                    problems.append((fn.blocks[b]["line"], f"call of {cp} with a mutable argument inside a hash-ordered loop"))
        for l, ds in pr.defs.items():
            inside = [d for d in ds if d[0] in lp.body]
            if inside and len(ds) > len(inside):
                tt = pr.local(l)
                commut = all(a[0] in ("int", "bool", "float") or (a[0] == "bin" and a[1] in ("Add", "Mul", "BitOr", "BitAnd", "BitXor") and a[2] == ("self", l))
                             or a[0] in ("self",) for a in P.alts(tt))
                item_dep = any(any(sub == lp.item_term or (sub[0] == "call" and sub[1] == lp.next_path) for sub in P.walk(a)) for a in P.alts(tt))
                if item_dep and not commut and fn.local_name(l) is not None:
                    problems.append((fn.line, f"variable `{fn.local_name(l)}` keeps a value that depends on which item came last/first"))
        loops_out.append((lp.line, lp.next_path, problems))
    for bi, t in fn.calls():
        if bi not in fn.cfg.reachable or bi in loop_next_blocks:
            continue
        full = t["callee"].get("full") or ""
        nm = t["callee"].get("name")
        if not hashy(full) and not any(hashy(a) for a in (t["callee"].get("generic_args") or [])):
            continue
        if not (t["callee"].get("trait") or "").endswith("iter::Iterator") and nm not in ("collect", "extend", "from_iter"):
            continue
        if nm in ORDER_FREE_CONSUMERS:
            chains_out.append((fn.blocks[bi]["line"], nm, full, True))
            continue
        if nm in ("collect", "from_iter", "extend") and any(x in full for x in UNORDERED_TARGETS):
            chains_out.append((fn.blocks[bi]["line"], nm, full, True))
            continue
        if nm in ("map", "filter", "filter_map", "flat_map", "flatten", "cloned", "copied", "enumerate", "zip", "chain", "inspect",
                  "peekable", "fuse", "into_iter", "iter", "by_ref", "rev", "size_hint"):
            # lazy adaptors: the verdict is the consumer's (a for loop or a consuming call); skip/take/step_by select by
            # position and are not in this list
            continue
        chains_out.append((fn.blocks[bi]["line"], nm, full, False))
    return loops_out, chains_out


def run(ctx):
    ctx.explanation = ("static: effect audit of every loop / iterator chain that consumes a hash-ordered iterator in the bodies "
                       "reachable from the Display impls: such iteration may only feed order-insensitive sinks and exit on "
                       "exhaustion, so the emitted token sequence is a function of the range's contents, not of the map's "
                       "insertion history or capacity. Tokens are emitted from loops over the fixed rank/suit tables only. "
                       "Maximal run merging (the run-length state machine) is NOT decided.")
    F = ctx.facts("lib")
    cg = callgraph.build(F)
    anchors = [F.impl_fn("std::fmt::Display", HR, "fmt").path,
               F.impl_fn("std::fmt::Display", "hand_range::hand_range_token::HandRangeToken", "fmt").path]
    reach = cg.reach(anchors)
    ctx.analysed(reach)
    ctx.floor("bodies reachable from the range Display impl", len(reach), 15)
    rule = "C17.no-hash-order-in-text"
    ctx.rule(rule, "hash-ordered iteration under Display feeds only order-insensitive sinks and exits only on exhaustion")
    n_hash_loops = 0
    n_chains = 0
    for p in sorted(reach):
        fn = F.fns[p]
        loops_, chains_ = hash_order_audit(F, fn)
        n_hash_loops += len(loops_)
        n_chains += len(chains_)
        for (lp_line, src, problems) in loops_:
            if problems:
                line, what = problems[0]
                ctx.violation(rule, f"{p}|hash-loop|{what.split(' ')[0]}-{what.split(' ')[1]}", f"{p}: {what}; the range text would depend on the map's "
                              f"iteration order (insertion history / capacity)", fn=p, file=fn.file, line=line,
                              construct="loop over a hash-ordered iterator")
            else:
                ctx.ok(rule, {"fn": p, "loop_line": lp_line, "source": src, "sinks": "order-insensitive"}, sample=True)
        for (line, nm, full, okc) in chains_:
            if okc:
                ctx.ok(rule, {"fn": p, "consumer": nm, "line": line})
            else:
                ctx.violation(rule, f"{p}|hash-chain|{nm}", f"{p}: `{nm}` consumes a hash-ordered iterator ({full[:80]}): its result depends on "
                              f"iteration order", fn=p, file=fn.file, line=line, construct=f"Iterator::{nm} over a hash iterator")
    ctx.extra["hash_ordered_loops"] = n_hash_loops
    ctx.extra["hash_iterator_calls"] = n_chains
    # liveness: the formatter does consult hash maps (so the rule is not vacuous) through keyed lookups
    disp = F.fns[anchors[0]]
    lookups = sum(1 for _, t in disp.calls() if t["callee"].get("name") == "get" and I.callee_path(t).startswith("std::collections::HashMap"))
    # (one per row pass is what any formatter of this design needs; the reference tree has 9, a formatter that carries the open
    # run's weight in its state has 4)
    ctx.floor("keyed map lookups in Display for HandRange", lookups, 3)
    ctx.ok(rule, {"display_keyed_lookups": lookups, "hash_ordered_loops_under_display": n_hash_loops}, sample=True)

    # tokens are pushed only inside loops over the fixed tables (or straight-line code)
    rule2 = "C17.tokens-from-table-loops"
    ctx.rule(rule2, "every token pushed by the formatter is pushed inside loops over RankRange / SuitRange (fixed table order)")
    pr = P.Prov(disp)
    fls = L.for_loops(disp, pr)
    pushes = [(bi, t) for bi, t in disp.calls() if t["callee"].get("name") == "push" and bi in disp.cfg.reachable]
    # (the reference tree has 19; a formatter that builds its tokens in one helper still pushes once per pass and for the leftovers)
    ctx.floor("token pushes in Display for HandRange", len(pushes), 4)
    badp = 0
    for bi, t in pushes:
        for lp in fls:
            if bi in lp.body:
                src, chain = lp.chain()
                ok = any(c.startswith("<card::rank_range::RankRange as") or c.startswith("<card::suit_range::SuitRange as") for c in chain)
                if not ok:
                    badp += 1
                    ctx.violation(rule2, f"{disp.path}|push-in-foreign-loop", f"a token is pushed inside a loop over {chain[-1] if chain else P.show(src)[:40]}",
                                  fn=disp.path, file=disp.file, line=disp.blocks[bi]["line"])
    if not badp:
        ctx.ok(rule2, {"pushes": len(pushes), "enclosing_loops": "RankRange / SuitRange only"}, sample=True)
    # the text of a token must determine its weight (suffix omitted only for exactly 1.0, shortest round-tripping decimal
    # otherwise): else two emitted tokens can look mergeable although their weights differ — shared with C06
    try:
        from rules import c06, tokmodel
        c06.rule_tokens(ctx, F, tokmodel.get(F), prefix="C17", only_weight=True)
    except Unrecognised as e:
        ctx.unrecognised(e.rule if e.rule.startswith("C17") else "C17." + e.rule.split(".", 1)[-1], e.msg, e.fn, e.line)
    # maximal run merging, pass order, leftovers: the run-length passes matched against the run-merging template
    try:
        from rules import runpass
        runpass.run_rules(ctx, F, "C17")
    except Unrecognised as e:
        ctx.unrecognised("C17.run-merging", e.msg, e.fn, e.line)
    # the passes merge what rank_pairs() reports: a complete rank pair that is left out of it is written combo by combo after
    # all rank-pair tokens instead of inside its run (C12's reporting rule, evaluated here as well)
    try:
        from rules import c12
        from sa.report import PrefixCtx
        c12.run(PrefixCtx(ctx, "C12", "C17", allowed=["probes"]))
    except Unrecognised as e:
        ctx.unrecognised("C17.probes", e.msg, e.fn, e.line)
    if ctx.tier == "thorough":
        from sa import xref
        from rules import selftest
        xref.cross_check(ctx, F, ["iter_over_hash_type"])
        selftest.run(ctx, ["hash-order"])
    # the final emission loop walks the token vector in order
    ctx.assume("Vec iteration, RankRange and SuitRange iterate in their fixed order (C13)")
    ctx.assume("maximal merging of runs is a behavioural statement about the run-length passes and is not decided")
