"""Model of `<HandRangeToken as FromStr>::from_str`: for every `Ok(..)` it returns, the regex that guards it,
the token kind constructed, where each rank / suitedness / weight comes from in the text, and the comparison
facts that dominate it.  Shared by C05, C09 and C10."""
from sa import idioms as I, prov as P, regexlang, strguard
from sa.report import Unrecognised

TOKEN = "hand_range::hand_range_token::HandRangeToken"
KIND = "hand_range::hand_range_token::HandRangeTokenKind"
RANK_PAIR = "hand_range::rank_pair::RankPair"
RANK = "card::rank::Rank"
CARD_PAIR = "hand_range::card_pair::CardPair"
STR_INDEX = "core::str::traits::<impl std::ops::Index<I> for str>::index"


def U(rule, msg, fn=None):
    return Unrecognised(rule, msg, fn.path if fn else None, fn.line if fn else None)


def slice_of(t):
    """(base, a, b|None) if t is s[a..b] / s[a..] with constant bounds"""
    s = P.strip(t)
    if s[0] == "call" and s[1] == STR_INDEX and len(s[2]) == 2:
        r = P.strip(s[2][1])
        base = P.strip(s[2][0])
        if r[0] == "agg" and r[1].endswith("Range::Range"):
            a, b = P.const_int(r[2][0]), P.const_int(r[2][1])
            if a is not None and b is not None:
                return (base, a, b)
        if r[0] == "agg" and r[1].endswith("RangeFrom::RangeFrom"):
            a = P.const_int(r[2][0])
            if a is not None:
                return (base, a, None)
    # one byte of the text: s.as_bytes()[i]  (for ASCII text the same as the one-byte slice s[i..i + 1])
    if s[0] in ("index", "cindex"):
        bs = P.strip(s[1])
        i = P.const_int(s[2]) if s[0] == "index" else s[2]
        if bs[0] == "call" and bs[1] == "core::str::<impl str>::as_bytes" and len(bs[2]) == 1 and i is not None:
            return (P.strip(bs[2][0]), i, i + 1)
    return None


def parsed_ok(t, parser_path):
    """inner slice term if t is the Ok payload of parser(slice)"""
    s = P.strip(t)
    if s[0] == "field" and s[2] == 0 and s[1][0] == "variant" and s[1][2] == "Ok":
        c = P.strip(s[1][1])
        if c[0] == "call" and c[1] == parser_path and len(c[2]) == 1:
            return c[2][0]
        # str::parse::<T>() forwards to FromStr
        if c[0] == "call" and c[1].endswith("::parse") and len(c[2]) == 1:
            return c[2][0]
        # T::try_from(char::from(bytes[i])): the char table applied to one byte of the text -- for ASCII text (the shape regex
        # guards every use) the same as T::from_str(&s[i..i + 1]), which converts the first char through that table (C13)
        if c[0] == "call" and len(c[2]) == 1 and parser_path.endswith("::from_str") and \
                c[1] in (parser_path.replace("std::str::FromStr>::from_str", "std::convert::TryFrom<char>>::try_from"),
                         parser_path.replace("std::str::FromStr>::from_str", "std::convert::TryFrom<&char>>::try_from")):
            ch = P.strip(c[2][0], calls=False)
            if ch[0] == "call" and ch[1] == "std::char::convert::<impl std::convert::From<u8> for char>::from" and len(ch[2]) == 1 \
                    and slice_of(ch[2][0]) is not None:
                return ch[2][0]
    return None


class Site:
    pass


class TokModel:
    def __init__(self, F):
        self.F = F
        self.fn = F.impl_fn("std::str::FromStr", TOKEN, "from_str")
        self.pr = P.Prov(self.fn)
        self.sf = strguard.facts_for(self.fn, self.pr)
        self.rank_parser = F.impl_fn("std::str::FromStr", RANK, "from_str").path
        self.pair_parser = F.impl_fn("std::str::FromStr", CARD_PAIR, "from_str").path
        self.prob_fn = None
        self.token_new = F.fn(TOKEN + "::new")
        self.literals = []
        for bi, t in self.fn.calls():
            if I.callee_path(t) == "regex::Regex::new" and bi in self.fn.cfg.reachable:
                lit = P.strip(self.pr.operand(t["args"][0]))
                if lit[0] != "str":
                    raise U("tokmodel", "Regex::new of a non-literal", self.fn)
                self.literals.append((lit[1], bi))
        self.sites = self._sites()

    def rank_pos(self, t):
        inner = parsed_ok(t, self.rank_parser)
        if inner is None:
            return None
        sl = slice_of(inner)
        if sl is None or sl[0] != ("param", 1) or sl[2] != sl[1] + 1:
            return None
        return sl[1]

    def _facts(self, block):
        """comparison facts whose edges dominate `block`"""
        fn, pr = self.fn, self.pr
        out = []
        # `match bytes[i] { b's' => .., _ => .. }`: an integer switch on one byte of the text is a literal comparison per arm
        for b in sorted(fn.cfg.reachable):
            tt_ = fn.blocks[b]["term"]
            if tt_["k"] != "switch" or tt_["ty"] != "u8":
                continue
            sl_ = slice_of(pr.operand(tt_["on"]))
            if sl_ is None or sl_[0] != ("param", 1) or sl_[2] != sl_[1] + 1:
                continue
            vals_ = [v for v, _ in tt_["arms"]]
            for lab_, _tgt in fn.cfg.succ_edges[b]:
                if not fn.cfg.edge_dominates(b, lab_, block):
                    continue
                if lab_ == "otherwise":
                    for v in vals_:
                        if 0 <= v < 128:
                            out.append(("slice-lit", "Ne", (sl_[1], sl_[2]), chr(v), (b, lab_)))
                elif isinstance(lab_, int) and 0 <= lab_ < 128:
                    out.append(("slice-lit", "Eq", (sl_[1], sl_[2]), chr(lab_), (b, lab_)))
        for b, lab, truth, term in I.bool_edges(fn, pr):
            if not fn.cfg.edge_dominates(b, lab, block):
                continue
            tt, tr = term, truth
            while tt[0] == "un" and tt[1] == "Not":
                tt, tr = tt[2], not tr
            if tt[0] == "call" and tt[1] == "regex::Regex::is_match":
                if tr:
                    lit = None
                    for ((eb, el), l_) in self.sf.regex_edges.get(1, []):
                        if (eb, el) == (b, lab):
                            lit = l_
                    out.append(("re", lit, (b, lab)))
                continue
            implied = I.call_implied_relations(self.F, tt, tr)
            if implied:
                for (op, x, y) in implied:
                    rx, ry = self.rank_pos(x), self.rank_pos(y)
                    if rx is not None and ry is not None:
                        out.append(("ranks", op, rx, ry, (b, lab)))
                    else:
                        out.append(("other", f"{op}({P.show(x)[:30]}, {P.show(y)[:30]}) via {tt[1]}", tr))
                continue
            rel = I.norm_rel(tt, tr)
            if rel is None:
                out.append(("other", P.show(tt)[:80], tr))
                continue
            op, x, y = rel
            sx, sy = slice_of(x), slice_of(y)
            rx, ry = self.rank_pos(x), self.rank_pos(y)
            if sx and sy and sx[0] == sy[0] == ("param", 1):
                out.append(("slices", op, (sx[1], sx[2]), (sy[1], sy[2]), (b, lab)))
            elif sx and sx[0] == ("param", 1) and P.strip(y)[0] == "str":
                out.append(("slice-lit", op, (sx[1], sx[2]), P.strip(y)[1], (b, lab)))
            elif sy and sy[0] == ("param", 1) and P.strip(x)[0] == "str":
                out.append(("slice-lit", op, (sy[1], sy[2]), P.strip(x)[1], (b, lab)))
            elif sx and sx[0] == ("param", 1) and sx[2] == sx[1] + 1 and P.const_int(P.strip(y)) is not None and 0 <= P.const_int(P.strip(y)) < 128:
                out.append(("slice-lit", op, (sx[1], sx[2]), chr(P.const_int(P.strip(y))), (b, lab)))      # bytes[i] == b'c'
            elif sy and sy[0] == ("param", 1) and sy[2] == sy[1] + 1 and P.const_int(P.strip(x)) is not None and 0 <= P.const_int(P.strip(x)) < 128:
                out.append(("slice-lit", op, (sy[1], sy[2]), chr(P.const_int(P.strip(x))), (b, lab)))
            elif rx is not None and ry is not None:
                out.append(("ranks", op, rx, ry, (b, lab)))
            else:
                out.append(("rel", op, P.strip(x), P.strip(y), (b, lab)))
        return out

    def _make_site(self, bi, line, kind_t, prob_t, fact_block):
        fn = self.fn
        st = Site()
        st.block = bi
        st.line = line
        st.kind = kind_t[1].rsplit("::", 1)[-1]
        st.kind_ops = kind_t[2]
        st.pair_variant = None
        st.ranks = []
        st.rank_terms = []
        st.card_pair = None
        ops = list(kind_t[2])
        if ops and ops[0][0] == "agg" and ops[0][1].startswith("adt:" + RANK_PAIR + "::"):
            st.pair_variant = ops[0][1].rsplit("::", 1)[-1]
            rts = list(ops[0][2]) + ops[1:]
            for r in rts:
                st.rank_terms.append(r)
                st.ranks.append(self.rank_pos(r))
        elif st.kind == "SingleCardPair":
            inner = parsed_ok(ops[0], self.pair_parser)
            st.card_pair = slice_of(inner) if inner is not None else None
            st.card_pair_term = ops[0]
        else:
            raise U("tokmodel", f"unexpected kind payload {P.show(kind_t)[:80]}", fn)
        pt = P.strip(prob_t)
        st.prob_from = None
        if pt[0] == "call" and pt[1] in self.F.fns and len(pt[2]) == 1:
            self.prob_fn = pt[1]
            sl = slice_of(pt[2][0])
            if sl and sl[0] == ("param", 1) and sl[2] is None:
                st.prob_from = sl[1]
        st.facts = self._facts(bi)
        if fact_block != bi:
            seen = {str(f[:4]) for f in st.facts}
            st.facts += [f for f in self._facts(fact_block) if str(f[:4]) not in seen]
        st.regexes = [f[1] for f in st.facts if f[0] == "re"]
        return st

    def _sites(self):
        fn, pr = self.fn, self.pr
        sites = []
        for bi in sorted(fn.cfg.reachable):
            for s in fn.blocks[bi]["stmts"]:
                if s["k"] != "assign" or s["place"]["l"] != 0 or s["place"]["proj"]:
                    continue
                t = pr.rvalue(s["rv"])
                if not (t[0] == "agg" and t[1].endswith("Result::Ok")):
                    continue
                tok = P.narrow_deep(P.strip(t[2][0], calls=False))   # looks through `opt.map(..).ok_or(())` of a literal Some(..)
                if tok[0] == "call" and tok[1] == self.token_new.path:
                    kind_t, prob_t = tok[2]
                elif tok[0] == "agg" and tok[1].startswith("adt:" + TOKEN):
                    kind_t, prob_t = tok[2]
                else:
                    raise U("tokmodel", f"Ok payload is not a token construction: {P.show(tok)[:80]}", fn)
                if not (kind_t[0] == "agg" and kind_t[1].startswith("adt:" + KIND + "::")):
                    raise U("tokmodel", f"token kind is not constructed in place: {P.show(kind_t)[:80]}", fn)
                # the rank pair may be chosen by an if/else into a local before one shared return:
                # one virtual site per alternative, with the facts of the block that builds it
                ops0 = kind_t[2][0] if kind_t[2] else None
                variants = [(kind_t, bi)]
                if ops0 is not None and ops0[0] == "phi":
                    variants = []
                    for l_, ds_ in pr.defs.items():
                        if pr.local(l_) == ops0:
                            for (db, si_, k_, payload_) in ds_:
                                if k_ == "rv":
                                    at = pr.rvalue(payload_)
                                    if at[0] == "agg" and at[1].startswith("adt:" + RANK_PAIR + "::"):
                                        variants.append((("agg", kind_t[1], (at,) + tuple(kind_t[2][1:])), db))
                    if not variants:
                        raise U("tokmodel", f"token kind payload is a merge of values that are not built in place: {P.show(ops0)[:80]}", fn)
                elif ops0 is not None and ops0[0] == "call" and ops0[1] == "<indirect>" and len(ops0) > 3:
                    # the rank pair is built by a constructor chosen earlier (`let make = if flag == "s" { RankPair::Suited } else
                    # { RankPair::Ofsuit }; .. make(high, kicker)`): one virtual site per constructor, with the facts of the block
                    # that chose it
                    variants = []
                    cop = fn.blocks[ops0[3]]["term"]["callee"].get("indirect")
                    l_ = (cop.get("move") or cop.get("copy") or {}).get("l") if isinstance(cop, dict) else None
                    for _hop in range(8):
                        ds_ = pr.defs.get(l_, []) if l_ is not None else []
                        if len(ds_) != 1 or ds_[0][2] != "rv":
                            break
                        rv_ = ds_[0][3]
                        nxt_ = None
                        if "use" in rv_:
                            nxt_ = rv_["use"].get("move") or rv_["use"].get("copy")
                        elif "cast" in rv_ and isinstance(rv_.get("a"), dict):
                            nxt_ = rv_["a"].get("move") or rv_["a"].get("copy")
                        if nxt_ is None or nxt_["proj"]:
                            break
                        l_ = nxt_["l"]
                    for (db, si_, k_, payload_) in (pr.defs.get(l_, []) if l_ is not None else []):
                        if k_ != "rv":
                            continue
                        o_ = payload_.get("use") if "use" in payload_ else (payload_.get("a") if "cast" in payload_ else None)
                        c_ = o_.get("const") if isinstance(o_, dict) else None
                        tgt_ = (c_.get("fn_path") or c_.get("fn")) if isinstance(c_, dict) and "fn" in c_ else None
                        if tgt_ and tgt_.startswith(RANK_PAIR + "::") and tgt_.rsplit("::", 1)[-1] in ("Pocket", "Suited", "Ofsuit"):
                            at = ("agg", f"adt:{tgt_}", tuple(ops0[2]))
                            variants.append((("agg", kind_t[1], (at,) + tuple(kind_t[2][1:])), db))
                    if len(variants) < 2:
                        raise U("tokmodel", f"token kind payload is built by an indirect call whose targets are not rank pair constructors: {P.show(ops0)[:80]}", fn)
                for (kind_v, fact_block) in variants:
                    st = self._make_site(bi, s["line"], kind_v, prob_t, fact_block)
                    sites.append(st)
        if len(sites) < 7:
            raise U("tokmodel", f"only {len(sites)} Ok(..) sites in the token parser", fn)
        return sites

    def rank_rel_edges(self, pos_a, pos_b, want):
        """edges implying rank(pos_a) `want` rank(pos_b) (ranks parsed from one-byte slices)"""
        return I.edges_implying(self.fn, self.pr, want, lambda t: self.rank_pos(t) == pos_a, lambda t: self.rank_pos(t) == pos_b,
                                strip=False, F=self.F)

    def slice_ne_edges(self, pos_a, pos_b):
        out = []
        for b, lab, truth, term in I.bool_edges(self.fn, self.pr):
            rel = I.norm_rel(term, truth)
            if rel is None or rel[0] != "Ne":
                continue
            sx, sy = slice_of(rel[1]), slice_of(rel[2])
            if sx and sy and sx[0] == sy[0] == ("param", 1) and {(sx[1], sx[2]), (sy[1], sy[2])} == {(pos_a, pos_a + 1), (pos_b, pos_b + 1)}:
                out.append((b, lab))
        return out


_cache = {}


def get(F):
    if id(F) not in _cache:
        _cache[id(F)] = TokModel(F)
    return _cache[id(F)]


# ---- R-span-guard ---------------------------------------------------------------------------

def expansion_args(F):
    """from HandRangeToken::into_iter: for each (kind, pair variant) the provenance shape of the
    RankRange::inclusive arguments, as ('start-spec', 'end-spec')."""
    it = F.impl_fn("std::iter::IntoIterator", TOKEN, "into_iter")
    pr = P.Prov(it)
    res = {}
    # per path when the function is loop-free (arms merged behind a `match` that computes the bounds are told apart by the
    # path), else per site
    from sa import dtree
    sites = []
    try:
        paths_, _p0 = dtree.enumerate_paths(it, max_paths=400)
        for p_ in paths_:
            if p_.end != "return":
                continue
            pp_ = dtree.PathProv(it, p_)
            sites += [(bi, it.blocks[bi]["term"], pp_) for bi in p_.blocks if it.blocks[bi]["term"]["k"] == "call"]
    except dtree.NotLoopFree:
        sites = [(bi, t, pr) for bi, t in it.calls() if bi in it.cfg.reachable]
    for bi, t, pr_site in sites:
        cp = I.callee_path(t)
        if not cp.startswith("card::rank_range::RankRange::"):
            continue
        ctor = cp.rsplit("::", 1)[-1]
        a, b = [P.strip(x) for x in (pr_site.operand(t["args"][0]), pr_site.operand(t["args"][1]))] if len(t["args"]) == 2 else (None, None)
        if (bi, a, b) in res:
            continue
        # which arm: dominating discriminant switches on self.kind and the rank pair
        arm = []
        for (src, lab, dst) in it.cfg.dominating_edges(bi):
            tt = it.blocks[src]["term"]
            if tt["k"] != "switch":
                continue
            on = pr.operand(tt["on"])
            if on[0] == "discr":
                arm.append((P.show_key(P.strip(on[1]), 60), lab, [v for v, _ in tt["arms"]], src))
        res[(bi, a, b)] = dict(ctor=ctor, a=a, b=b, arm=arm, line=it.blocks[bi]["line"])
    return it, pr, res


def classify_expansions(F):
    """-> {(kind, pair variant): (ctor, start spec, end spec)} with specs in
    {'Ace', 'rank0', 'rank1', 'end', 'next(rank0)'} relative to the token's fields."""
    it, pr, res = expansion_args(F)
    kinds = [v["name"] for v in F.adts[KIND]["variants"]]
    pairs = [v["name"] for v in F.adts[RANK_PAIR]["variants"]]
    out = {}
    for bi, d in res.items():
        kind = pair = None
        for (subj, lab, vals, src) in d["arm"]:
            # the outer switch is on self.kind (a field of param1), the inner on the rank pair inside the kind
            names = None
            if "ask" in subj or "as" in subj and False:
                pass
        # recover by structure of the argument terms instead of switch subjects:
        def spec(t):
            s = t
            if s[0] == "enumc" or (s[0] == "agg" and not s[2] and s[1].startswith("adt:" + RANK + "::")):
                return s[2] if s[0] == "enumc" else s[1].rsplit("::", 1)[-1]
            if s[0] == "call" and s[1].rsplit("::", 1)[-1] in ("unwrap", "expect") and s[2]:
                inner = P.strip(s[2][0])
                if inner[0] == "call" and inner[1] == RANK + "::next":
                    return "next(" + spec(P.strip(inner[2][0])) + ")"
            # field path inside self.kind
            path = []
            while s[0] in ("field", "variant"):
                path.append(s[2] if s[0] == "field" else f"<{s[2]}>")
                s = s[1]
            if s == ("param", 1):
                return ".".join(str(x) for x in reversed(path))
            return "?" + P.show_key(t, 40)
        out[bi] = dict(ctor=d["ctor"], start=spec(d["a"]) if d["a"] else None, end=spec(d["b"]) if d["b"] else None, line=d["line"])
    return it, out


SPAN_REQUIREMENTS = {
    # (kind, pair variant) -> list of (rank index a, relation, rank index b) over the constructor's rank operands
    ("DoubleClosedRankPairRange", "Pocket"): [(0, "Le", 1)],
    ("DoubleClosedRankPairRange", "Suited"): [(1, "Le", 2)],
    ("DoubleClosedRankPairRange", "Ofsuit"): [(1, "Le", 2)],
    ("BottomClosedRankPairRange", "Suited"): [(0, "Lt", 1)],
    ("BottomClosedRankPairRange", "Ofsuit"): [(0, "Lt", 1)],
    ("BottomClosedRankPairRange", "Pocket"): [],
}


def rule_span_guard(ctx, TM, prop):
    rule = f"{prop}.R-span-guard"
    ctx.rule(rule, "span-shaped tokens are built by the parser only under the rank-order comparison that keeps their expansion in bounds")
    F = TM.F
    # the expansion side must use exactly the arguments the requirements are written for
    it, exp = classify_expansions(F)
    want_exp = sorted([("inclusive", "Ace", "<BottomClosedRankPairRange>.0.<Pocket>.0"),
                       ("inclusive", "next(<BottomClosedRankPairRange>.0.<Suited>.0)", "<BottomClosedRankPairRange>.0.<Suited>.1"),
                       ("inclusive", "next(<BottomClosedRankPairRange>.0.<Ofsuit>.0)", "<BottomClosedRankPairRange>.0.<Ofsuit>.1"),
                       ("inclusive", "<DoubleClosedRankPairRange>.0.<Pocket>.0", "<DoubleClosedRankPairRange>.1"),
                       ("inclusive", "<DoubleClosedRankPairRange>.0.<Suited>.1", "<DoubleClosedRankPairRange>.1"),
                       ("inclusive", "<DoubleClosedRankPairRange>.0.<Ofsuit>.1", "<DoubleClosedRankPairRange>.1")])
    got_exp = sorted((d["ctor"], d["start"], d["end"]) for d in exp.values())
    norm = lambda s: s.replace("0.<", "0.<") if s else s
    got_n = sorted((c, _strip_kind_prefix(a), _strip_kind_prefix(b)) for c, a, b in got_exp)
    want_n = sorted((c, _strip_kind_prefix(a), _strip_kind_prefix(b)) for c, a, b in want_exp)
    if got_n != want_n:
        ctx.violation(rule, f"{it.path}|expansion-arguments",
                      f"token expansion builds rank ranges {got_n}; the span guards are written for {want_n}",
                      fn=it.path, file=it.file, line=it.line, construct="RankRange constructions in HandRangeToken::into_iter")
        return False
    ctx.ok(rule, {"expansion": got_n}, sample=True)
    ok_all = True
    n = 0
    for st in TM.sites:
        req = SPAN_REQUIREMENTS.get((st.kind, st.pair_variant))
        if req is None:
            continue
        n += 1
        for (ia, rel, ib) in req:
            pa, pb = st.ranks[ia], st.ranks[ib]
            if pa is None or pb is None:
                raise U(rule, f"rank operand of {st.kind}({st.pair_variant}) is not parsed from one byte of the text", TM.fn)
            edges = TM.rank_rel_edges(pa, pb, rel)
            if edges and I.guarded_by(TM.fn, st.block, edges):
                ctx.ok(rule, {"token": f"{st.kind}({st.pair_variant})", "guard": f"rank@{pa} {rel} rank@{pb}", "line": st.line}, sample=True)
            else:
                ok_all = False
                shape = {"Pocket": "XX-YY", "Suited": "XYs", "Ofsuit": "XYo"}[st.pair_variant]
                ctx.violation(rule, f"{TM.fn.path}|{st.kind}-{st.pair_variant}|rank{ia}-{rel}-rank{ib}",
                              f"{st.kind}({st.pair_variant}..) is returned without checking rank@{pa} {rel} rank@{pb}: a reversed "
                              f"span parses fine and panics when expanded (RANKS[start..=end] with start > end, or next() of the "
                              f"deuce)", fn=TM.fn.path, file=TM.fn.file, line=st.line,
                              construct=f"construction of {st.kind}({st.pair_variant}) [{shape}]")
    ctx.floor("span-shaped token constructions in the parser", n, 5)
    return ok_all


def _strip_kind_prefix(s):
    """drop the index of the token's `kind` field so that the spec reads <Kind>.k.<Pair>.j"""
    import re
    if s is None:
        return s
    return re.sub(r"^(next\()?\d+\.", lambda m: (m.group(1) or ""), s)


def span_discharge(F, cg, site, pr):
    """panic sites that are safe for parsed tokens once R-span-guard holds"""
    p = site.fn.path
    if p == "<card::rank_range::RankRange as std::iter::IntoIterator>::into_iter" and site.kind == "index":
        # callers in the parser context: token expansion (guarded), rank_pairs/Display (constant / next-based bounds: audited)
        return None
    if p == f"<{TOKEN} as std::iter::IntoIterator>::into_iter" and site.kind == "unwrap" and site.detail == "call:card::rank::Rank::next":
        return "R-span-guard"
    return None
