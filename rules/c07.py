"""C07 — the reported category is the category of the best five-card hand.

Decision-tree extraction of `MadeHand::hand_type` gives an exact interval partition of the
u16 index domain into category variants; every class index 1..=7462 must map to the
oracle's category of that class.  (That the index *is* the standard class is C01.)"""
from sa import dtree, poker, prov as P
from sa.report import Unrecognised

MADE_HAND = "evaluator::made_hand::MadeHand"


def find_hand_type(F):
    c = [f for f in F.fns.values() if f.path == MADE_HAND + "::hand_type"]
    if len(c) != 1:
        raise Unrecognised("C07.anchor", "MadeHand::hand_type not found")
    return c[0]


def run(ctx):
    ctx.level = "proof"
    ctx.explanation = ("interval partition of the u16 scrutinee of MadeHand::hand_type extracted from MIR "
                       "(all comparison arms, any if/match shape) and compared, for every class index "
                       "1..=7462, with the category of that class in an independently constructed "
                       "numbering of the 7462 five-card classes")
    ctx.exhaustive = True
    F = ctx.facts("lib")
    fn = find_hand_type(F)
    ctx.analysed([fn])
    ctx.rule("C07.partition", "hand_type maps every class index to the oracle's category")

    def is_scrut(t):
        # the single u16 field of *self
        return t == ("field", ("deref", ("param", 1)), 0) or \
            (t[0] == "call" and t[1].endswith("MadeHand::power_index") and t[2] == (("param", 1),))

    try:
        parts, pr = dtree.int_partition(fn, is_scrut, 0, 65535)
    except (dtree.NotLoopFree, dtree.Unanalysable) as e:
        raise Unrecognised("C07.partition", f"hand_type is not a comparison tree over the index: {e}",
                           fn.path, fn.line)
    table = {}
    arms = []
    for ivs, path, _ in parts:
        if path.end != "return":
            leaf = "<diverges>"
        else:
            t = dtree.last_assign(fn, path, 0, pr)
            if t is None or t[0] != "agg" or not t[1].startswith("adt:") or t[2]:
                raise Unrecognised("C07.partition", f"non-constant leaf {P.show(t) if t else None}",
                                   fn.path, fn.line)
            leaf = t[1].rsplit("::", 1)[-1]
        arms.append((ivs, leaf))
        for a, b in ivs:
            for v in range(max(a, 1), min(b, poker.TOTAL) + 1):
                table[v] = leaf
    ctx.extra["extracted_partition"] = [{"intervals": ivs, "category": leaf} for ivs, leaf in sorted(arms)]
    bad = []
    for idx in range(1, poker.TOTAL + 1):
        want = poker.category(idx)
        got = table.get(idx)
        if got == want:
            continue
        bad.append((idx, got, want))
    good = poker.TOTAL - len(bad)
    ctx.ok("C07.partition", "index 1 -> StraightFlush", n=good, sample=True)
    ctx.count_nontrivial("C07.partition", good)
    for lo, hi, name in poker.boundaries():
        if table.get(lo) == name and table.get(hi) == name:
            ctx.samples.append({"rule": "C07.partition", "instance": f"boundary classes {lo} and {hi} -> {name}",
                                "verdict": "holds"})
    # group bad indexes by (got, want) so that one wrong boundary is one finding
    groups = {}
    for idx, got, want in bad:
        groups.setdefault((got, want), []).append(idx)
    for (got, want), idxs in sorted(groups.items(), key=lambda kv: kv[1][0]):
        ctx.violation("C07.partition", f"{fn.path}|{want}-reported-as-{got}",
                      f"class index(es) {idxs[:8]}{'…' if len(idxs) > 8 else ''} are {want} under the standard "
                      f"numbering but hand_type() reports {got}",
                      fn=fn.path, file=fn.file, line=fn.line,
                      construct=f"interval arm covering {idxs[0]}")
    # the category of an evaluated hand = hand_type(index of the hand): the index must be the hand's standard class, which is
    # C01's matter; its rules are re-evaluated here so that a wrong table slot / hash / flush detection is reported for C07 too
    from sa.report import PrefixCtx
    from rules import c01
    try:
        c01.run(PrefixCtx(ctx, "C01", "C07"))
    except Unrecognised as e:
        ctx.unrecognised("C07." + e.rule.split(".", 1)[-1], e.msg, e.fn, e.line)
    ctx.assume("seven distinct input cards")
