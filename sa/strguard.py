"""R-str-guard: a `str` slicing site with constant bounds cannot panic when, on every path, the
same string has been established (G1) all-ASCII and (G2) long enough.  Guards recognised on the
string's root local: Regex::is_match with an anchored ASCII-only literal (min length), str::is_ascii,
len comparisons, starts_with of one ASCII char."""
from . import idioms as I
from . import prov as P
from . import regexlang


def _uniq_defs(ds):
    """definitions of a local, identical statements (tail-duplicated blocks of the normalisation passes) counted once"""
    out, seen = [], set()
    for d in ds:
        k = (d[2], str(d[3])) if d[2] == "rv" else (d[2], id(d[3]))
        if k not in seen:
            seen.add(k)
            out.append(d)
    return out


def root_local(fn, pr, op):
    """follow temporaries (single full def by use/ref/deref/copy) back to the local holding the &str."""
    if "const" in op:
        return None
    pl = op.get("copy") or op.get("move")
    l = pl["l"]
    for _ in range(20):
        fields = [e for e in pl["proj"] if e != "deref"]
        if fields:
            # a capture read through a (spliced) closure environment: `(*env).k` where env = &closure{op0, op1, ..}
            if len(fields) != 1 or not isinstance(fields[0], dict) or "f" not in fields[0]:
                return None
            base = l
            agg = None
            for _j in range(6):
                bd = _uniq_defs(pr.defs.get(base, []))
                if len(bd) != 1 or bd[0][2] != "rv":
                    break
                brv = bd[0][3]
                if "agg" in brv and isinstance(brv["agg"], dict) and "closure" in brv["agg"]:
                    agg = brv
                    break
                nxt = brv.get("ref") or (brv.get("use") or {}).get("copy") or (brv.get("use") or {}).get("move")
                if not nxt or [e for e in nxt["proj"] if e != "deref"]:
                    break
                base = nxt["l"]
            if agg is None or fields[0]["f"] >= len(agg["ops"]):
                return None
            op2 = agg["ops"][fields[0]["f"]]
            pl = op2.get("copy") or op2.get("move")
            if pl is None:
                return None
            l = pl["l"]
            continue
        ds = _uniq_defs(pr.defs.get(l, []))
        if 1 <= l <= fn.arg_count and not ds:
            return l
        if len(ds) != 1 or ds[0][2] != "rv":
            return l
        rv = ds[0][3]
        if "use" in rv and ("copy" in rv["use"] or "move" in rv["use"]):
            pl = rv["use"].get("copy") or rv["use"].get("move")
        elif "ref" in rv:
            pl = rv["ref"]
        else:
            return l
        l = pl["l"]
    return l


def _regex_new_literal(t):
    t = P.strip(t, calls=False)
    if t[0] == "call" and t[1].rsplit("::", 1)[-1] in ("unwrap", "expect") and t[2]:
        t = P.strip(t[2][0], calls=False)
    if t[0] == "call" and t[1] == "regex::Regex::new" and t[2]:
        lit = P.strip(t[2][0])
        if lit[0] == "str":
            return lit[1]
        # a pattern assembled from literals (`format!("^{}{}$", SHAPE, WEIGHT)`): folded to its text
        from . import fmt
        return fmt.fold_str(t[2][0])
    return None


def regex_literal(pr, op, F=None):
    """literal of the Regex value used as receiver: `Regex::new(lit).unwrap()` directly, or a write-once cache of it
    (`OnceLock::get_or_init(|| Regex::new(lit).unwrap())`, `static X: LazyLock<Regex> = LazyLock::new(|| …)`)."""
    t = P.strip(pr.operand(op), calls=False)
    lit = _regex_new_literal(t)
    if lit is not None or F is None:
        return lit
    field = None
    for _ in range(5):
        if t[0] == "call" and t[1].rsplit("::", 1)[-1] in ("deref", "force", "borrow", "as_ref") and t[2]:
            t = P.strip(t[2][0], calls=False)
            continue
        if t[0] == "field" and field is None and isinstance(t[2], int):
            # one of several regexes kept in a once-initialised struct (`static P: LazyLock<Patterns>`; `P.single_pair`)
            field = t[2]
            t = P.strip(t[1], calls=False)
            continue
        break
    clo = None
    if t[0] == "static":
        clo = F.fns.get(t[1] + "::{closure#0}")
    elif t[0] == "call" and t[1].rsplit("::", 1)[-1] in ("get_or_init", "get_or_insert_with") and len(t[2]) == 2:
        c = t[2][1]
        if c[0] == "agg" and c[1].startswith("closure:"):
            clo = F.fns.get(c[1][len("closure:"):])
    if clo is None or clo.cfg.has_loops():
        return None
    built = P.Prov(clo).local(0)
    if field is not None:
        b_ = P.strip(built, calls=False)
        if not (b_[0] == "agg" and b_[1].startswith("adt:") and field < len(b_[2])):
            return None
        built = b_[2][field]
    return _regex_new_literal(built)


class StrFacts:
    """edges establishing facts about string locals of one function."""

    def __init__(self, fn, pr=None):
        self.fn = fn
        self.pr = pr or P.Prov(fn)
        self.ascii = {}     # local -> [(b, lab)]
        self.minlen = {}    # local -> [((b, lab), n)]
        self.exact = {}
        self.starts1 = {}   # local -> [(b, lab)]   starts_with one ASCII char
        self.regex_edges = {}  # local -> [((b,lab), literal)]
        self.prefix = {}       # local -> [((b,lab), k)]  the first k bytes are ASCII chars (start-anchored regex prefix)
        fn_ = fn
        pr_ = self.pr
        # map: call result local -> call terminator (for bool calls)
        for b in sorted(fn_.cfg.reachable):
            t = fn_.blocks[b]["term"]
            if t["k"] != "switch" or t["ty"] != "bool":
                continue
            on = t["on"]
            vals = [v for v, _ in t["arms"]]
            for lab, tgt in fn_.cfg.succ_edges[b]:
                truth = I.edge_truth(None, lab, vals)
                if truth is None:
                    continue
                self._classify(b, lab, truth, on)

    def _def_of(self, op):
        if "const" in op:
            return None
        pl = op.get("copy") or op.get("move")
        if pl["proj"]:
            return None
        ds = self.pr.defs.get(pl["l"], [])
        if len(ds) != 1:
            return None
        return ds[0]

    def _classify(self, b, lab, truth, on):
        fn, pr = self.fn, self.pr
        d = self._def_of(on)
        if d is None:
            return
        neg = False
        # peel Not
        while d[2] == "rv" and "un" in d[3] and d[3]["un"] == "Not":
            neg = not neg
            d = self._def_of(d[3]["a"])
            if d is None:
                return
        tr = truth != neg
        if d[2] == "call":
            t = d[3]
            name = t["callee"].get("name")
            path = I.callee_path(t)
            if path == "regex::Regex::is_match" and tr:
                lit = regex_literal(pr, t["args"][0], getattr(fn, "facts", None))
                L = root_local(fn, pr, t["args"][1])
                if lit is None or L is None:
                    return
                try:
                    r = regexlang.parse(lit)
                except regexlang.Unsupported:
                    return
                self.regex_edges.setdefault(L, []).append(((b, lab), lit))
                if r.anchored_start:
                    pre, _rest = r.prefix_classes()
                    k = 0
                    for cls in pre:
                        if all(ord(c) < 128 for c in cls):
                            k += 1
                        else:
                            break
                    self.prefix.setdefault(L, []).append(((b, lab), k))
                if r.anchored and r.ascii_only:
                    self.ascii.setdefault(L, []).append((b, lab))
                    self.minlen.setdefault(L, []).append(((b, lab), r.min_len))
            elif name == "is_ascii" and path.startswith("core::str") and tr:
                L = root_local(fn, pr, t["args"][0])
                if L is not None:
                    self.ascii.setdefault(L, []).append((b, lab))
            elif name == "starts_with" and path.startswith("core::str") and tr:
                L = root_local(fn, pr, t["args"][0])
                pat = P.strip(pr.operand(t["args"][1]))
                ok = (pat[0] == "str" and len(pat[1]) == 1 and ord(pat[1]) < 128) or (pat[0] == "char" and pat[1] < 128)
                if L is not None and ok:
                    self.starts1.setdefault(L, []).append((b, lab))
                    self.minlen.setdefault(L, []).append(((b, lab), 1))
            elif name == "is_empty" and path.startswith("core::str") and not tr:
                L = root_local(fn, pr, t["args"][0])
                if L is not None:
                    self.minlen.setdefault(L, []).append(((b, lab), 1))
        elif d[2] == "rv" and "bin" in d[3]:
            rv = d[3]
            op = rv["bin"]
            if op not in I.NEG:
                return
            if not tr:
                op = I.NEG[op]

            def len_local(o):
                dd = self._def_of(o)
                if dd and dd[2] == "call" and dd[3]["callee"].get("name") == "len" and I.callee_path(dd[3]).startswith("core::str"):
                    return root_local(fn, pr, dd[3]["args"][0])
                return None
            la, lb = len_local(rv["a"]), len_local(rv["b"])
            ca = P.const_int(pr.operand(rv["a"]))
            cb = P.const_int(pr.operand(rv["b"]))
            if la is not None and cb is not None:
                L, c = la, cb
            elif lb is not None and ca is not None:
                L, c, op = lb, ca, I.FLIP[op]
            else:
                return
            if op == "Eq":
                self.minlen.setdefault(L, []).append(((b, lab), c))
                self.exact.setdefault(L, []).append(((b, lab), c))
            elif op == "Ge":
                self.minlen.setdefault(L, []).append(((b, lab), c))
            elif op == "Gt":
                self.minlen.setdefault(L, []).append(((b, lab), c + 1))

    # ---------------------------------------------------------------------------------------
    def _stable(self, L, edges, site_block):
        """the string local is not reassigned between a guard edge and the site"""
        fn, pr = self.fn, self.pr
        def_blocks = {d[0] for d in pr.defs.get(L, [])}
        if not def_blocks:
            return True
        for (b, lab) in edges:
            tgt = [t for l_, t in fn.cfg.succ_edges[b] if l_ == lab][0]
            chop = fn.cfg.chop(tgt, site_block)
            if chop & def_blocks:
                return False
        return True

    def slice_ok(self, L, a, b_, site_block):
        """can `s[a..b_]` (b_ None = open) panic?  returns rule name when discharged."""
        fn = self.fn
        need = b_ if b_ is not None else a
        if b_ is not None and a > b_:
            return None
        len_edges = [e for (e, n) in self.minlen.get(L, []) if n >= need]
        asc = self.ascii.get(L, [])
        if asc and len_edges and I.guarded_by(fn, site_block, asc) and I.guarded_by(fn, site_block, len_edges) \
                and self._stable(L, asc + len_edges, site_block):
            return "R-str-guard"
        # a start-anchored regex whose fixed prefix of k ASCII classes matched: every offset <= k is a char boundary <= len
        pe = [e for (e, k) in self.prefix.get(L, []) if k >= need]
        if pe and I.guarded_by(fn, site_block, pe) and self._stable(L, pe, site_block):
            return "R-str-guard(prefix)"
        # s[1..] after starts_with(one ASCII char); s[0..1] likewise
        st = self.starts1.get(L, [])
        if st and I.guarded_by(fn, site_block, st) and self._stable(L, st, site_block):
            if (a, b_) in ((1, None), (0, 1), (0, None), (0, 0), (1, 1)):
                return "R-str-guard(starts_with)"
        if (a, b_) in ((0, None), (0, 0)):
            return "R-str-guard(trivial)"
        return None


_cache = {}


def facts_for(fn, pr):
    k = id(fn)
    if k not in _cache:
        _cache[k] = StrFacts(fn, pr)
    return _cache[k]


def slice_bounds(pr, t):
    """for a str Index call terminator: (a, b|None) constant bounds, or None"""
    if len(t["args"]) != 2:
        return None
    r = P.strip(pr.operand(t["args"][1]))
    if r[0] == "agg" and r[1].endswith("Range::Range"):
        a, b = P.const_int(r[2][0]), P.const_int(r[2][1])
        return (a, b) if a is not None and b is not None else None
    if r[0] == "agg" and r[1].endswith("RangeFrom::RangeFrom"):
        a = P.const_int(r[2][0])
        return (a, None) if a is not None else None
    if r[0] == "agg" and r[1].endswith("RangeTo::RangeTo"):
        b = P.const_int(r[2][0])
        return (0, b) if b is not None else None
    return None


def discharge(F, cg, site, pr):
    """extra discharge rule for sa.panics: str slicing sites"""
    if site.kind == "std-panicking" and site.detail.endswith("<impl str>::split_at"):
        # s.split_at(k) panics exactly when &s[k..] does
        fn = site.fn
        t = fn.blocks[site.block]["term"]
        k = P.const_int(pr.operand(t["args"][1])) if len(t["args"]) == 2 else None
        L = root_local(fn, pr, t["args"][0]) if k is not None else None
        if L is None:
            return None
        return facts_for(fn, pr).slice_ok(L, k, None, site.block)
    if site.kind != "index" or not site.info.get("container", "").startswith("str"):
        return None
    fn = site.fn
    t = fn.blocks[site.block]["term"]
    bounds = slice_bounds(pr, t)
    if bounds is None:
        return None
    L = root_local(fn, pr, t["args"][0])
    if L is None:
        return None
    return facts_for(fn, pr).slice_ok(L, bounds[0], bounds[1], site.block)


def discharge_bytes(F, cg, site, pr):
    """`s.as_bytes()[i]` with constant i: in bounds when a guard on the same text implies len(s) >= i + 1 (the same length
    facts that discharge `&s[i..i + 1]`; no char-boundary condition is needed for a byte)"""
    if site.kind != "assert-bounds":
        return None
    fn = site.fn
    t = fn.blocks[site.block]["term"]
    m = t.get("msg") or {}
    i = P.const_int(site.info.get("index")) if site.info.get("index") is not None else None
    if i is None or "len" not in m:
        return None
    sf = facts_for(fn, pr)
    d = sf._def_of(m["len"])
    # len = PtrMetadata(bytes) / Len(*bytes)
    op = None
    if d and d[2] == "rv":
        rv = d[3]
        if "un" in rv and rv["un"] == "PtrMetadata":
            op = rv["a"]
        elif "len" in rv:
            op = {"copy": {"l": rv["len"]["l"], "proj": []}}
    def by_term():
        """the same through provenance terms (the bytes reached through a spliced closure's captured reference)"""
        if op is None:
            return None
        tb = P.strip(pr.operand(op), calls=False)
        if tb[0] == "call" and tb[1] == "core::str::<impl str>::as_bytes" and len(tb[2]) == 1:
            a0 = P.strip(tb[2][0])
            if a0[0] == "param" and not pr.defs.get(a0[1]):
                return a0[1]
        return None
    L_term = by_term()
    if L_term is not None:
        need = i + 1
        len_edges = [e for (e, n) in sf.minlen.get(L_term, []) if n >= need]
        if len_edges and I.guarded_by(fn, site.block, len_edges) and sf._stable(L_term, len_edges, site.block):
            return "R-bytes-guard"
        pe = [e for (e, k) in sf.prefix.get(L_term, []) if k >= need]
        if pe and I.guarded_by(fn, site.block, pe) and sf._stable(L_term, pe, site.block):
            return "R-bytes-guard(prefix)"
    for _ in range(3):
        if op is None:
            return None
        dd = sf._def_of(op)
        if dd is None:
            return None
        if dd[2] == "call" and dd[3]["callee"].get("name") == "as_bytes" and I.callee_path(dd[3]).startswith("core::str"):
            L = root_local(fn, pr, dd[3]["args"][0])
            if L is None:
                return None
            need = i + 1
            len_edges = [e for (e, n) in sf.minlen.get(L, []) if n >= need]
            if len_edges and I.guarded_by(fn, site.block, len_edges) and sf._stable(L, len_edges, site.block):
                return "R-bytes-guard"
            pe = [e for (e, k) in sf.prefix.get(L, []) if k >= need]
            if pe and I.guarded_by(fn, site.block, pe) and sf._stable(L, pe, site.block):
                return "R-bytes-guard(prefix)"
            return None
        if dd[2] == "rv" and ("use" in dd[3] or "ref" in dd[3]):
            nxt = dd[3].get("use") or {"copy": dd[3]["ref"]}
            pl = nxt.get("copy") or nxt.get("move")
            if pl is None:
                return None
            op = {"copy": {"l": pl["l"], "proj": []}}
            continue
        return None
    return None
