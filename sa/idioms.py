"""Small recognisers shared by rule modules: field getters, enum code tables, comparison
normalisation, guard (edge-cut) queries."""
from . import dtree
from . import prov as P
from .report import Unrecognised


def getter_field(fn):
    """if fn is `fn(&self) -> &T { &self.k }` or returns a copy of self.k: return (k, by_ref)."""
    if fn.arg_count != 1 or fn.cfg.has_loops():
        return None
    pr = P.Prov(fn)
    rets = fn.cfg.return_blocks()
    if len(rets) != 1:
        return None
    if any(b["term"]["k"] in ("call", "switch") for i, b in enumerate(fn.blocks) if i in fn.cfg.reachable):
        return None
    t = pr.local(0)
    if t[0] == "ref" and t[1][0] == "field" and t[1][1] == ("deref", ("param", 1)):
        return (t[1][2], True)
    if t[0] == "field" and t[1] == ("deref", ("param", 1)):
        return (t[2], False)
    return None


def adt_variants(F, adt_path):
    a = F.adts.get(adt_path)
    if a is None:
        return None
    return [v["name"] for v in a["variants"]]


def variant_by_discr(F, adt_path, value):
    a = F.adts.get(adt_path)
    if a is None:
        return None
    for v in a["variants"]:
        if v["discr"] == value:
            return v["name"]
    return None


def enum_match_table(F, fn, adt_path, scrut_pred=None, leaf=None):
    """For a loop-free fn that switches on the discriminant of (a deref of) its single parameter of
    enum type `adt_path`: return {variant name: leaf term of _0}."""
    paths, pr = dtree.enumerate_paths(fn)
    table = {}
    # `*self as uN` on a field-less enum: the code of a variant is its discriminant
    rets_ = [p for p in paths if p.end == "return"]
    if len(rets_) == 1 and not rets_[0].conds and scrut_pred is None and leaf is None:
        t0 = pr.local(0)
        while t0[0] == "cast" and t0[1] == "IntToInt":
            t0 = t0[2]
        a_ = F.adts.get(adt_path)
        if t0[0] == "discr" and P.strip(t0[1]) == ("param", 1) and a_ is not None and all(not v["fields"] for v in a_["variants"]):
            return {v["name"]: ("int", v["discr"], "u8") for v in a_["variants"]}
    for p in paths:
        if p.end == "unreachable":
            continue
        var = None
        for (b, t, lab, ty, others) in p.conds:
            if t[0] == "discr" and (scrut_pred(t[1]) if scrut_pred else P.strip(t[1]) == ("param", 1)):
                if lab == "otherwise":
                    names = set(adt_variants(F, adt_path)) - {variant_by_discr(F, adt_path, v) for v in others}
                    if len(names) != 1:
                        raise Unrecognised("enum-table", f"wildcard arm covering {sorted(names)} in {fn.path}",
                                           fn.path, fn.line)
                    var = names.pop()
                else:
                    var = variant_by_discr(F, adt_path, lab)
            else:
                raise Unrecognised("enum-table", f"unexpected branch {P.show(t)} in {fn.path}", fn.path, fn.line)
        if var is None:
            raise Unrecognised("enum-table", f"path without discriminant test in {fn.path}", fn.path, fn.line)
        if p.end != "return":
            table[var] = ("diverge", dtree.diverge_callee(fn, p))
            continue
        t = dtree.last_assign(fn, p, 0, pr)
        if var in table:
            raise Unrecognised("enum-table", f"variant {var} reached twice in {fn.path}", fn.path, fn.line)
        table[var] = t
    return table


def int_leaf(t):
    v = P.const_int(t)
    if v is None and t is not None and t[0] == "char":
        return t[1]
    return v


def forwarding_target(F, fn):
    """if fn's body is a single call to another local function with (a ref to) its own parameter,
    return that function (e.g. `From<Rank> for u8` forwarding to `From<&Rank> for u8`)."""
    if fn.cfg.has_loops():
        return None
    calls = [(bi, t) for bi, t in fn.calls() if bi in fn.cfg.reachable]
    if len(calls) != 1:
        return None
    if any(b["term"]["k"] == "switch" for i, b in enumerate(fn.blocks) if i in fn.cfg.reachable):
        return None
    bi, t = calls[0]
    pr = P.Prov(fn)
    ret = pr.local(0)
    if ret[0] != "call":
        return None
    args = [P.strip(a) for a in ret[2]]
    if args != [("param", i + 1) for i in range(fn.arg_count)]:
        return None
    tgt = F.fns.get(ret[1])
    return tgt


def resolve_forwarding(F, fn, limit=4):
    for _ in range(limit):
        nxt = forwarding_target(F, fn)
        if nxt is None:
            return fn
        fn = nxt
    return fn


# ---- comparisons ---------------------------------------------------------------------------

NEG = dtree.NEG
FLIP = dtree.FLIP


def edge_truth(term, lab, others):
    """truth value of a bool switch edge."""
    if lab == "otherwise":
        if others == [0]:
            return True
        if others == [1]:
            return False
        return None
    return bool(lab)


def bool_edges(fn, pr=None):
    """yield (block, label, truth, term) for every edge of every bool switch (reachable)."""
    pr = pr or P.Prov(fn)
    for b in sorted(fn.cfg.reachable):
        t = fn.blocks[b]["term"]
        if t["k"] != "switch" or t["ty"] != "bool":
            continue
        term = pr.operand(t["on"])
        vals = [v for v, _ in t["arms"]]
        for lab, _tgt in fn.cfg.succ_edges[b]:
            tr = edge_truth(term, lab, vals)
            if tr is None:
                continue
            yield b, lab, tr, term


def norm_rel(term, truth):
    """normalise a boolean term under `truth` to (op, a, b) with op in Lt/Le/Gt/Ge/Eq/Ne, or
    ("call", path, args, truth) for boolean calls, or None."""
    while term[0] == "un" and term[1] == "Not":
        term = term[2]
        truth = not truth
    if term[0] == "bin" and term[1] in NEG:
        op = term[1] if truth else NEG[term[1]]
        return (op, term[2], term[3])
    if term[0] == "call":
        name = term[1].rsplit("::", 1)[-1]
        rel = {"eq": "Eq", "ne": "Ne", "lt": "Lt", "le": "Le", "gt": "Gt", "ge": "Ge"}.get(name)
        if rel and len(term[2]) == 2:
            op = rel if truth else NEG[rel]
            return (op, term[2][0], term[2][1])
    return None


def rel_implies(op, want):
    """does `a op b` imply `a want b`?"""
    table = {
        "Lt": {"Lt", "Le", "Ne"}, "Le": {"Le"}, "Gt": {"Gt", "Ge", "Ne"}, "Ge": {"Ge"},
        "Eq": {"Eq", "Le", "Ge"}, "Ne": {"Ne"},
    }
    return want in table[op]


_impl_cache = {}


def bool_fn_implications(F, path):
    """[(op, x, y)] relations over the callee's parameters that hold whenever the crate-local, loop-free bool
    function `path` returns true (intersection over its true-returning paths); [] when unknown."""
    if path in _impl_cache:
        return _impl_cache[path]
    res = []
    fn = F.fns.get(path)
    _impl_cache[path] = res
    if fn is None or fn.local_ty(0) != "bool" or fn.cfg.has_loops():
        return res
    try:
        paths, pr = dtree.enumerate_paths(fn, max_paths=200)
    except Exception:
        return res
    sets = []
    for p in paths:
        if p.end != "return":
            continue
        facts = set()
        ok = True
        for (b, t, lab, ty, others) in p.conds:
            if ty != "bool":
                ok = False
                break
            truth = (others == [0]) if lab == "otherwise" else bool(lab)
            r = norm_rel(t, truth)
            if r is None or r[0] == "call":
                continue
            facts.add((r[0], P.strip(r[1]), P.strip(r[2])))
        if not ok:
            return res
        leaf = dtree.path_term(fn, p, 0)
        if leaf == ("bool", False):
            continue
        if leaf != ("bool", True):
            r = norm_rel(leaf, True)
            if r is None or r[0] == "call":
                return res
            facts.add((r[0], P.strip(r[1]), P.strip(r[2])))
        sets.append(facts)
    if not sets:
        return res
    common = set.intersection(*sets)
    res.extend(sorted(common, key=str))
    return res


def call_implied_relations(F, term, truth):
    """relations between *argument terms* implied by a true call of a crate-local bool helper"""
    if F is None or not truth or term[0] != "call" or term[1] not in F.fns:
        return []
    out = []
    for (op, x, y) in bool_fn_implications(F, term[1]):
        def sub(z):
            if z[0] == "param" and 1 <= z[1] <= len(term[2]):
                return term[2][z[1] - 1]
            return None
        ax, ay = sub(x), sub(y)
        if ax is not None and ay is not None:
            out.append((op, ax, ay))
    return out


ORD = {255: "Lt", -1: "Lt", 0: "Eq", 1: "Gt"}
ORD_ALL = {"Lt", "Eq", "Gt"}
ORD_JOIN = {frozenset(["Lt"]): "Lt", frozenset(["Eq"]): "Eq", frozenset(["Gt"]): "Gt", frozenset(["Lt", "Eq"]): "Le",
            frozenset(["Gt", "Eq"]): "Ge", frozenset(["Lt", "Gt"]): "Ne"}


def rel_edges(fn, pr, F=None):
    """yield (block, label, op, x, y): on this switch edge `x op y` holds.  Sources: bool switches on comparisons
    (and on crate-local bool helpers whose true result implies comparisons of their arguments), and matches on the
    `Ordering` returned by `Ord::cmp(x, y)`."""
    for b, lab, truth, term in bool_edges(fn, pr):
        n = norm_rel(term, truth)
        if n is not None and n[0] != "call":
            yield (b, lab, n[0], n[1], n[2])
        tt, tr = term, truth
        while tt[0] == "un" and tt[1] == "Not":
            tt, tr = tt[2], not tr
        for (op, x, y) in call_implied_relations(F, tt, tr):
            yield (b, lab, op, x, y)
    for b in sorted(fn.cfg.reachable):
        t = fn.blocks[b]["term"]
        if t["k"] != "switch" or t["ty"] == "bool":
            continue
        term = pr.operand(t["on"])
        if term[0] != "discr":
            continue
        c = P.strip(term[1], calls=False)
        if not (c[0] == "call" and c[1].rsplit("::", 1)[-1] == "cmp" and "Ord" in c[1] and len(c[2]) == 2):
            continue
        vals = [v for v, _ in t["arms"]]
        for lab, _tgt in fn.cfg.succ_edges[b]:
            if lab == "otherwise":
                rest = ORD_ALL - {ORD.get(v) for v in vals}
                op = ORD_JOIN.get(frozenset(rest))
            else:
                op = ORD.get(lab)
            if op:
                yield (b, lab, op, c[2][0], c[2][1])


def edges_implying(fn, pr, want, is_a, is_b, strip=True, F=None):
    """edges (block,label) on which `A want B` is implied, where terms satisfying is_a / is_b stand for A / B
    (either operand order)."""
    out = []
    for (b, lab, op, x, y) in rel_edges(fn, pr, F):
        xs, ys = (P.strip(x), P.strip(y)) if strip else (x, y)
        if is_a(xs) and is_b(ys):
            if rel_implies(op, want) and (b, lab) not in out:
                out.append((b, lab))
        elif is_a(ys) and is_b(xs):
            if rel_implies(FLIP[op], want) and (b, lab) not in out:
                out.append((b, lab))
    return out


def reachable_avoiding(fn, removed_edges, start=0, removed_blocks=()):
    """blocks reachable from `start` when the given (block,label) edges are removed."""
    cfg = fn.cfg
    removed = set(removed_edges)
    rb = set(removed_blocks)
    if start in rb:
        return set()
    seen = {start}
    st = [start]
    while st:
        x = st.pop()
        for lab, t in cfg.succ_edges[x]:
            if (x, lab) in removed or t in rb:
                continue
            if t not in seen:
                seen.add(t)
                st.append(t)
    return seen


def guarded_by(fn, block, edges, start=0):
    """every path from start to block passes through one of `edges`."""
    return block not in reachable_avoiding(fn, edges, start)


def block_of_call(fn, pred):
    return [bi for bi, t in fn.calls() if bi in fn.cfg.reachable and pred(t)]


def callee_path(t):
    c = t["callee"]
    if "indirect" in c:
        return "<indirect>"
    return c.get("resolved") or c["path"]


# ---- Option tests --------------------------------------------------------------------------

def _try_subject(t):
    """X when t is `Try::branch(X)` of an Option (the `?` operator), else None"""
    s_ = P.strip(t, calls=False)
    if s_[0] == "call" and s_[1].rsplit("::", 1)[-1] == "branch" and "Option" in s_[1] and len(s_[2]) == 1:
        return s_[2][0]
    return None


def option_edges(fn, pr, is_subject):
    """(block, label, 'some'|'none') for every edge testing whether an Option subject is Some / None: a match / if-let on its
    discriminant, is_some()/is_none(), or the `?` operator (ControlFlow::Continue = Some)"""
    out = []
    for b in sorted(fn.cfg.reachable):
        t = fn.blocks[b]["term"]
        if t["k"] != "switch":
            continue
        on = pr.operand(t["on"])
        vals = [v for v, _ in t["arms"]]
        if on[0] == "discr" and is_subject(on[1]):
            for lab, _tgt in fn.cfg.succ_edges[b]:
                if lab == "otherwise":
                    rest = {0, 1} - set(vals)
                    if len(rest) == 1:
                        out.append((b, lab, "some" if rest.pop() == 1 else "none"))
                elif lab in (0, 1):
                    out.append((b, lab, "some" if lab == 1 else "none"))
        elif on[0] == "discr" and _try_subject(on[1]) is not None and is_subject(_try_subject(on[1])):
            for lab, _tgt in fn.cfg.succ_edges[b]:
                if lab == "otherwise":
                    rest = {0, 1} - set(vals)
                    if len(rest) == 1:
                        out.append((b, lab, "some" if rest.pop() == 0 else "none"))
                elif lab in (0, 1):
                    out.append((b, lab, "some" if lab == 0 else "none"))
        elif t["ty"] == "bool":
            tt, neg = on, False
            while tt[0] == "un" and tt[1] == "Not":
                tt, neg = tt[2], not neg
            if tt[0] == "call" and tt[1].rsplit("::", 1)[-1] in ("is_none", "is_some") and len(tt[2]) == 1 and is_subject(tt[2][0]):
                for lab, _tgt in fn.cfg.succ_edges[b]:
                    truth = edge_truth(on, lab, vals)
                    if truth is None:
                        continue
                    truth = truth != neg
                    is_some = (tt[1].rsplit("::", 1)[-1] == "is_some") == truth
                    out.append((b, lab, "some" if is_some else "none"))
    return out


def option_payload(t):
    """X when t denotes the payload of the Option X: X.unwrap()/expect(), the field of its Some variant (if let / match),
    or the Continue payload of `X?`; else None"""
    s_ = P.strip(t, calls=False)
    if s_[0] == "call" and s_[1].rsplit("::", 1)[-1] in ("unwrap", "expect") and s_[2] and "Option" in s_[1]:
        return s_[2][0]
    if s_[0] == "field" and s_[1][0] == "variant":
        if s_[1][2] == "Some":
            return s_[1][1]
        if s_[1][2] == "Continue":
            return _try_subject(s_[1][1])
    return None


def result_ok_subject(t):
    """X when t is `X.ok()` -- the call, or its desugared form φ(Some((X as Ok).0), None)"""
    s_ = P.strip(t, calls=False)
    if s_[0] == "call" and s_[1] == "std::result::Result::<T, E>::ok" and len(s_[2]) == 1:
        return s_[2][0]
    if s_[0] == "phi":
        al = P.alts(s_)
        somes = [a for a in al if a[0] == "agg" and a[1].endswith("Option::Some") and len(a[2]) == 1]
        nones = [a for a in al if a[0] == "agg" and a[1].endswith("Option::None")]
        if len(somes) == 1 and len(somes) + len(nones) == len(al):
            p_ = P.strip(somes[0][2][0], calls=False)
            if p_[0] == "field" and p_[1][0] == "variant" and p_[1][2] == "Ok":
                return p_[1][1]
    return None


def ok_or_subject(t):
    """X when t is `X.ok_or(e)` -- the call, or its desugared form φ(Ok((X as Some).0), Err(e))"""
    s_ = P.strip(t, calls=False)
    if s_[0] == "call" and s_[1] == "std::option::Option::<T>::ok_or" and len(s_[2]) == 2:
        return s_[2][0]
    if s_[0] == "phi":
        al = P.alts(s_)
        oks = [a for a in al if a[0] == "agg" and a[1].endswith("Result::Ok") and len(a[2]) == 1]
        errs = [a for a in al if a[0] == "agg" and a[1].endswith("Result::Err")]
        if len(oks) == 1 and len(oks) + len(errs) == len(al):
            p_ = P.strip(oks[0][2][0], calls=False)
            if p_[0] == "field" and p_[1][0] == "variant" and p_[1][2] == "Some":
                return p_[1][1]
    return None


def unopt(t):
    """see through `Option<&T>::copied()` / `cloned()`: the same Option, by value"""
    s = P.strip(t, calls=False)
    while s[0] == "call" and s[1] in ("std::option::Option::<&T>::copied", "std::option::Option::<&T>::cloned") and len(s[2]) == 1:
        s = P.strip(s[2][0], calls=False)
    return s
