"""Provenance terms: where does the value of an operand / place come from, structurally.

Flow-insensitive per local (a local with several definitions yields a `phi`), which is
what the rules need: "this argument is built from parameter 0's field 1 and the constant
5", "this index is the code of the rank iterated by that loop".

Terms are tuples:
  ("int", v, ty) ("bool", b) ("char", cp) ("str", s) ("float", bits, ty) ("fn", path)
  ("named", path, valueterm|None) ("enumc", adt, variant) ("zst", ty) ("promoted", i)
  ("bytes", tuple) ("opaque", text)
  ("param", i)
  ("call", path, (args...), block)          path = resolved callee when known
  ("agg", kind, (ops...))                    kind: "tuple" | "array" | "adt:<path>::<Variant>" | "closure:<path>"
  ("bin", op, a, b) ("un", op, a) ("cast", kind, a, from, to)
  ("ref", t) ("deref", t) ("field", t, i) ("index", t, idx) ("cindex", t, i) ("variant", t, name)
  ("discr", t) ("len", t) ("repeat", t, n)
  ("phi", (t...)) ("self", local) ("unknown", text)
"""


def const_term(c):
    if "int" in c:
        return ("int", c["int"], c.get("ty", ""))
    if "bool" in c:
        return ("bool", c["bool"])
    if "char" in c:
        return ("char", c["char"])
    if "str" in c:
        return ("str", c["str"])
    if "fbits" in c:
        return ("float", c["fbits"], c["ty"])
    if "fn" in c:
        return ("fn", c.get("fn_path", c["fn"]), c["fn"])
    if "named" in c:
        v = c.get("value")
        return ("named", c["named"], const_term(v) if v else None)
    if "promoted" in c:
        return ("promoted", c["promoted"])
    if "adt" in c:
        return ("enumc", c["adt"], c.get("variant"))
    if "zst" in c:
        return ("zst", c["zst"])
    if "bytes" in c:
        return ("bytes", tuple(c["bytes"]))
    if "array" in c:
        def tup(x):
            return tuple(tup(y) for y in x) if isinstance(x, list) else x
        return ("carray", tup(c["array"]))
    if "static_ref" in c:
        return ("static", c["static_ref"])
    return ("opaque", str(c))


CHECKED = {"AddWithOverflow": "Add", "SubWithOverflow": "Sub", "MulWithOverflow": "Mul"}


import re as _re0
_REF_ARITH = _re0.compile(r"^<&?(u8|u16|u32|u64|u128|usize|i8|i16|i32|i64|i128|isize) as std::ops::(Add|Sub|Mul)<&?\1>>::(add|sub|mul)$")


class Prov:
    def __init__(self, fn):
        self.fn = fn
        self.defs = {}      # local -> list of (bi, si|None, kind, payload)   full definitions
        self.stores = {}    # local -> list of (bi, si, place, rv)            assignments through projections
        self._memo = {}
        for bi, b in enumerate(fn.blocks):
            if b["cleanup"]:
                continue
            for si, s in enumerate(b["stmts"]):
                if s["k"] != "assign":
                    continue
                pl = s["place"]
                if pl["proj"]:
                    self.stores.setdefault(pl["l"], []).append((bi, si, pl, s["rv"]))
                else:
                    self.defs.setdefault(pl["l"], []).append((bi, si, "rv", s["rv"]))
            t = b["term"]
            if t["k"] == "call":
                d = t["dest"]
                if d["proj"]:
                    self.stores.setdefault(d["l"], []).append((bi, None, d, {"callterm": t}))
                else:
                    self.defs.setdefault(d["l"], []).append((bi, None, "call", t))

    # ------------------------------------------------------------------------------
    def _promoted(self, i):
        key = ("promoted", i)
        if key in self._memo:
            return self._memo[key]
        res = ("promoted", i)
        try:
            body = self.fn.d["promoted"][i]

            class _B:
                pass
            b = _B()
            b.blocks = body["blocks"]
            b.locals = body["locals"]
            b.arg_count = 0
            b.d = {"promoted": []}
            res = Prov(b).local(0)
        except Exception:
            pass
        self._memo[key] = res
        return res

    def operand(self, op, _inprog=None):
        if "const" in op:
            if "promoted" in op["const"] and hasattr(self.fn, "d"):
                return self._promoted(op["const"]["promoted"])
            t = const_term(op["const"])
            if t[0] == "static":
                # address of an immutable, interior-mutability-free static: a named constant behind a reference
                cs = getattr(getattr(self.fn, "facts", None), "const_statics", {}).get(t[1])
                if cs is not None:
                    key = ("static-value", t[1])
                    if key not in self._memo:
                        self._memo[key] = ("ref", ("named", t[1], const_term(cs["value"])))
                    return self._memo[key]
            return t
        pl = op.get("copy") or op.get("move")
        return self.place(pl, _inprog)

    def place(self, pl, _inprog=None):
        t = self.local(pl["l"], _inprog)
        for e in pl["proj"]:
            t = self._project(t, e, _inprog)
        return t

    def _project(self, t, e, _inprog):
        if e == "deref":
            return simp(("deref", t))
        if "f" in e:
            return simp(("field", t, e["f"]))
        if "idx" in e:
            return ("index", t, self.local(e["idx"], _inprog))
        if "cidx" in e:
            if e.get("from_end"):
                return ("unknown", f"cindex-from-end {e['cidx']}")
            return simp(("cindex", t, e["cidx"]))
        if "vidx" in e:
            return ("variant", t, e.get("variant") or e["vidx"])
        return ("unknown", str(e))

    def local(self, l, _inprog=None):
        if l in self._memo:
            return self._memo[l]
        fn = self.fn
        if 1 <= l <= fn.arg_count and l not in self.defs:
            return ("param", l)
        inprog = _inprog if _inprog is not None else set()
        if l in inprog:
            return ("self", l)
        defs = self.defs.get(l, [])
        if not defs:
            if 1 <= l <= fn.arg_count:
                return ("param", l)
            return ("undef", l)
        inprog.add(l)
        terms = []
        for (bi, si, kind, payload) in defs:
            if kind == "rv":
                terms.append(self.rvalue(payload, inprog))
            else:
                terms.append(self.call_term(payload, bi, inprog))
        if 1 <= l <= fn.arg_count:
            terms.insert(0, ("param", l))
        inprog.discard(l)
        uniq = []
        for t in terms:
            if t not in uniq:
                uniq.append(t)
        res = uniq[0] if len(uniq) == 1 else ("phi", tuple(uniq))
        if not inprog:
            self._memo[l] = res
        return res

    def call_term(self, t, bi, inprog=None):
        c = t["callee"]
        if "indirect" in c:
            path = "<indirect>"
        else:
            path = c.get("resolved") or c["path"]
        args = tuple(self.operand(a, inprog) for a in t["args"])
        if path.endswith("::from_residual") and "std::option::Option<" in path.split(" as ")[0]:
            # `x?` on an Option inside a function returning Option: the residual can only be None
            return ("agg", "adt:std::option::Option::None", ())
        red = self._beta(path, args, bi)
        if red is not None:
            return red
        red = self._once_init(path, args)
        if red is not None:
            return red
        m = _REF_ARITH.match(path)
        if m and len(args) == 2:
            # `&a + b` on primitive integers (`impl Add<usize> for &usize`): the same operation as `*a + b`
            return ("bin", {"add": "Add", "sub": "Sub", "mul": "Mul"}[m.group(3)], strip(args[0], calls=False), strip(args[1], calls=False))
        return ("call", path, args, bi)

    def _once_init(self, path, args):
        """`CELL.get_or_init(|| value)` on a `static CELL: OnceLock<T>` that has no other initialiser or writer anywhere in the
        crate: a reference to the value the (capture-free) closure builds -- the cell holds exactly that value for the life of
        the process, whichever call gets there first"""
        if path not in ("std::sync::OnceLock::<T>::get_or_init", "std::cell::OnceCell::<T>::get_or_init") or len(args) != 2:
            return None
        cell = strip(args[0], calls=False)
        clo = strip(args[1], calls=False)
        facts = getattr(self.fn, "facts", None)
        if facts is None or cell[0] != "static" or not (clo[0] == "agg" and clo[1].startswith("closure:") and not clo[2]):
            return None
        cf = facts.fns.get(clo[1][len("closure:"):])
        if cf is None:
            return None
        uses = getattr(facts, "_once_uses", None)
        if uses is None:
            uses = {}
            facts._once_uses = uses          # (set first: evaluating operands below re-enters this function)
            for f in facts.fns.values():
                if not any(("OnceLock" in (t["callee"].get("resolved") or t["callee"].get("path") or "") or
                            "OnceCell" in (t["callee"].get("resolved") or t["callee"].get("path") or "")) for _b, t in f.calls()):
                    continue
                fp = Prov(f)
                for _bi, t in f.calls():
                    q = t["callee"].get("resolved") or t["callee"].get("path") or ""
                    if ("OnceLock" in q or "OnceCell" in q) and t["args"]:
                        a0 = strip(fp.operand(t["args"][0]), calls=False)
                        name = a0[1] if a0[0] == "static" else None
                        how = q.rsplit("::", 1)[-1]
                        if how == "get_or_init" and len(t["args"]) == 2:
                            c_ = t["args"][1]
                            cp_ = c_.get("move") or c_.get("copy")
                            ct = strip(fp.local(cp_["l"]), calls=False) if cp_ is not None and not cp_["proj"] else ("?",)
                            how = ("get_or_init", ct[1] if ct[0] == "agg" else "?")
                        uses.setdefault(name, set()).add(how)
        if None in uses or uses.get(cell[1]) != {("get_or_init", clo[1])}:
            return None
        key = ("once-init", cell[1])
        if key not in self._memo:
            self._memo[key] = ("ref", Prov(cf).local(0))
        return self._memo[key]

    def _beta(self, path, args, bi):
        """`Fn::call(&f, (a, ..))` where f is a known function item (e.g. a helper's `impl Fn` parameter after the helper
        was spliced into its caller): the direct call, or the aggregate when f is a tuple-variant/struct constructor"""
        if path not in ("std::ops::Fn::call", "std::ops::FnMut::call_mut", "std::ops::FnOnce::call_once") or len(args) != 2:
            return None
        f = strip(args[0], calls=False)
        tup = strip(args[1], calls=False)
        if f[0] != "fn" or not (tup[0] == "agg" and tup[1] == "tuple"):
            return None
        target = f[1]
        facts = getattr(self.fn, "facts", None)
        if facts is not None and "::" in target:
            adt, var = target.rsplit("::", 1)
            a = facts.adts.get(adt)
            if a is not None and any(v["name"] == var for v in a["variants"]):
                return ("agg", f"adt:{adt}::{var}", tuple(tup[2]))
        return ("call", target, tuple(tup[2]), bi)

    def rvalue(self, rv, inprog=None):
        if "use" in rv:
            return self.operand(rv["use"], inprog)
        if "ref" in rv:
            return simp(("ref", self.place(rv["ref"], inprog)))
        if "rawptr" in rv:
            return simp(("ref", self.place(rv["rawptr"], inprog)))
        if "bin" in rv:
            return ("bin", rv["bin"], self.operand(rv["a"], inprog), self.operand(rv["b"], inprog))
        if "un" in rv:
            return ("un", rv["un"], self.operand(rv["a"], inprog))
        if "cast" in rv:
            return ("cast", rv["cast"], self.operand(rv["a"], inprog), rv["from"], rv["to"])
        if "agg" in rv:
            k = rv["agg"]
            if isinstance(k, dict):
                if "adt" in k:
                    ks = f"adt:{k['adt']}::{k['variant']}"
                elif "closure" in k:
                    ks = f"closure:{k['closure']}"
                elif "array" in k:
                    ks = "array"
                else:
                    ks = "other:" + str(k)
            else:
                ks = k
            return ("agg", ks, tuple(self.operand(o, inprog) for o in rv["ops"]))
        if "discr" in rv:
            return ("discr", self.place(rv["discr"], inprog))
        if "len" in rv:
            return ("len", self.place(rv["len"], inprog))
        if "repeat" in rv:
            return ("repeat", self.operand(rv["repeat"], inprog), rv["n"])
        if "tls" in rv:
            return ("tls", rv["tls"])
        return ("unknown", str(rv)[:80])


def simp(t):
    k = t[0]
    if k == "deref":
        x = t[1]
        if x[0] == "ref":
            return x[1]
        if x[0] == "phi":
            return ("phi", tuple(simp(("deref", y)) for y in x[1]))
        return t
    if k == "ref":
        x = t[1]
        if x[0] == "deref":
            return x[1]
        return t
    if k == "field":
        x, i = t[1], t[2]
        if x[0] == "agg" and (x[1] == "tuple" or x[1].startswith("adt:") or x[1].startswith("closure:")):
            if i < len(x[2]):
                return x[2][i]
        if x[0] == "bin" and x[1] in CHECKED:
            if i == 0:
                return ("bin", CHECKED[x[1]], x[2], x[3])
            return ("overflow_flag", x)
        if x[0] == "phi":
            return ("phi", tuple(simp(("field", y, i)) for y in x[1]))
        if x[0] == "variant" and x[1][0] == "agg" and x[1][1].startswith("adt:") and \
                x[1][1].endswith("::" + str(x[2])):
            if i < len(x[1][2]):
                return x[1][2][i]
        return t
    if k == "cindex":
        x, i = t[1], t[2]
        if x[0] == "agg" and x[1] == "array" and i < len(x[2]):
            return x[2][i]
        return t
    return t


# ---- helpers over terms ---------------------------------------------------------------

TRANSPARENT_CALLS = (
    "std::ops::Deref>::deref", "std::ops::DerefMut>::deref_mut",
    "std::borrow::Borrow", "std::convert::AsRef",
)


def is_identity_call(path):
    """calls that return (a view of) their first argument."""
    if path.endswith("::deref") or path.endswith("::deref_mut"):
        return True
    if path in ("<I as std::iter::IntoIterator>::into_iter",):
        return True
    if path.endswith("::clone") or path.endswith("::borrow") or path.endswith("::as_ref") \
            or path.endswith("::as_slice") or path.endswith("::as_str"):
        return True
    if path in ("std::convert::Into::into", "<T as std::convert::Into<U>>::into") and False:
        return False
    return False


import re as _re
_WIDEN = _re.compile(r"^std::convert::num::<impl std::convert::From<(u8|u16|u32|u64|bool|i8|i16|i32)> for (u16|u32|u64|u128|usize|i16|i32|i64|i128|isize)>::from$")


def is_widening_from(path):
    """`usize::from(x: u16)` and friends: value-preserving integer widening of std (the clippy-preferred spelling of `as`)"""
    return bool(_WIDEN.match(path or ""))


def unwiden(t):
    """strip integer widenings (`as` casts and lossless `From` conversions) from the outside of a term"""
    while True:
        if t[0] == "cast" and t[1] == "IntToInt":
            t = t[2]
        elif t[0] == "call" and len(t[2]) == 1 and is_widening_from(t[1]):
            t = t[2][0]
        else:
            return t


def strip(t, calls=True):
    """remove refs/derefs and identity calls from the outside of a term."""
    while True:
        if t[0] in ("ref", "deref"):
            t = t[1]
            continue
        if calls and t[0] == "call" and t[2] and is_identity_call(t[1]):
            t = t[2][0]
            continue
        if t[0] == "cast" and t[1] in ("PointerCoercion", "Transmute") and False:
            t = t[2]
            continue
        return t


def walk(t):
    """yield every sub-term (pre-order)."""
    yield t
    if not isinstance(t, tuple):
        return
    k = t[0]
    if k in ("call",):
        for a in t[2]:
            yield from walk(a)
    elif k == "agg":
        for a in t[2]:
            yield from walk(a)
    elif k == "phi":
        for a in t[1]:
            yield from walk(a)
    elif k == "bin":
        yield from walk(t[2])
        yield from walk(t[3])
    elif k in ("un", "cast"):
        yield from walk(t[2])
    elif k in ("ref", "deref", "discr", "len"):
        yield from walk(t[1])
    elif k in ("field", "cindex", "variant", "repeat"):
        yield from walk(t[1])
    elif k == "index":
        yield from walk(t[1])
        yield from walk(t[2])
    elif k == "named" and t[2] is not None:
        yield from walk(t[2])
    elif k == "overflow_flag":
        yield from walk(t[1])


def subst(t, old, new, _depth=0):
    """t with every occurrence of the sub-term `old` replaced by `new`, re-simplified (`(a, b).0` -> a)"""
    if t == old:
        return new
    if not isinstance(t, tuple) or _depth > 60:
        return t
    out = tuple(subst(x, old, new, _depth + 1) if isinstance(x, tuple) else x for x in t)
    if out != t and out and out[0] in ("field", "cindex", "deref"):
        out = simp(out)
    return out


def narrow_variants(t):
    """rewrite `(φ(a, b, ..) as V).i`: a downcast to variant V is only ever executed on a value that is a V, so alternatives that
    are literal aggregates of another variant are dropped; a single remaining aggregate yields its field.  NOT valid for
    loop-carried state (the flow-insensitive φ would equate the value of an earlier iteration with the current one): callers
    use it only on values defined and consumed in the same iteration."""
    if not isinstance(t, tuple):
        return t
    if t[0] == "field" and t[1][0] == "variant" and t[1][1][0] == "phi":
        name = t[1][2]
        keep = [y for y in alts(t[1][1]) if not (y[0] == "agg" and y[1].startswith("adt:") and not y[1].endswith("::" + str(name)))]
        if len(keep) == 1:
            return narrow_variants(simp(("field", ("variant", keep[0], name), t[2])))
        return t
    if t[0] == "field" and t[1][0] == "variant" and t[1][2] == "Continue":
        # `x?`: the Continue payload of Try::branch(x) is the payload of x's Ok / Some alternatives
        b = strip(t[1][1], calls=False)
        if b[0] == "call" and b[1].rsplit("::", 1)[-1] == "branch" and len(b[2]) == 1:
            x = b[2][0]
            oks = [y for y in alts(x) if y[0] == "agg" and (y[1].endswith("Result::Ok") or y[1].endswith("Option::Some"))]
            rest = [y for y in alts(x) if not (y[0] == "agg" and y[1].startswith("adt:std::") and
                                               (y[1].endswith("Result::Err") or y[1].endswith("Option::None") or y in oks))]
            if len(oks) == 1 and not rest and len(oks[0][2]) == 1:
                return narrow_variants(oks[0][2][0])
            if x[0] != "phi":
                # not a literal: the payload of x's own Ok / Some variant
                name = "Some" if "option::Option" in b[1] else "Ok"
                return ("field", ("variant", x, name), t[2])
        return t
    if t[0] in ("ref", "deref"):
        return simp((t[0], narrow_variants(t[1])))
    return t


def narrow_deep(t, depth=0):
    """narrow_variants applied to every sub-term (arguments of calls and aggregates, bases of projections)"""
    if not isinstance(t, tuple) or depth > 12:
        return t
    k = t[0]
    if k == "call":
        t = (k, t[1], tuple(narrow_deep(a, depth + 1) for a in t[2])) + tuple(t[3:])
    elif k == "agg":
        t = (k, t[1], tuple(narrow_deep(a, depth + 1) for a in t[2]))
    elif k in ("ref", "deref"):
        t = simp((k, narrow_deep(t[1], depth + 1)))
    elif k == "field":
        t = simp((k, narrow_deep(t[1], depth + 1), t[2]))
    elif k == "variant":
        t = (k, narrow_deep(t[1], depth + 1), t[2])
    elif k == "phi":
        t = (k, tuple(narrow_deep(a, depth + 1) for a in t[1]))
    elif k == "cast":
        t = (k, t[1], narrow_deep(t[2], depth + 1)) + tuple(t[3:])
    return narrow_variants(t)


def alts(t):
    """alternatives of a phi (flattened), or [t]."""
    if t[0] == "phi":
        out = []
        for x in t[1]:
            out.extend(alts(x))
        return out
    return [t]


def const_int(t):
    """evaluate a constant integer expression term, or None."""
    if t[0] == "int":
        return t[1]
    if t[0] == "named" and t[2] is not None:
        return const_int(t[2])
    if t[0] == "cast" and t[1] in ("IntToInt",):
        return const_int(t[2])
    if t[0] == "bin":
        a, b = const_int(t[2]), const_int(t[3])
        if a is None or b is None:
            return None
        op = t[1]
        try:
            return {
                "Add": a + b, "Sub": a - b, "Mul": a * b, "BitAnd": a & b, "BitOr": a | b,
                "BitXor": a ^ b, "Shl": a << b if 0 <= b < 128 else None,
                "Shr": a >> b if 0 <= b < 128 else None,
                "AddWithOverflow": a + b, "SubWithOverflow": a - b, "MulWithOverflow": a * b,
                "Div": a // b if b else None, "Rem": a % b if b else None,
            }.get(op)
        except Exception:
            return None
    return None


def show(t, depth=0):
    if not isinstance(t, tuple):
        return str(t)
    if depth > 8:
        return "…"
    k = t[0]
    d = depth + 1
    if k == "int":
        return f"{t[1]}"
    if k == "bool":
        return str(t[1]).lower()
    if k == "char":
        return repr(chr(t[1]))
    if k == "str":
        return repr(t[1])
    if k == "float":
        return f"f32bits({t[1]})"
    if k == "param":
        return f"param{t[1]}"
    if k == "call":
        return f"{short(t[1])}({', '.join(show(a, d) for a in t[2])})"
    if k == "agg":
        return f"{short(t[1])}{{{', '.join(show(a, d) for a in t[2])}}}"
    if k == "bin":
        return f"({show(t[2], d)} {t[1]} {show(t[3], d)})"
    if k == "un":
        return f"{t[1]}({show(t[2], d)})"
    if k == "cast":
        return f"({show(t[2], d)} as {t[4]})"
    if k == "ref":
        return f"&{show(t[1], d)}"
    if k == "deref":
        return f"*{show(t[1], d)}"
    if k == "field":
        return f"{show(t[1], d)}.{t[2]}"
    if k == "index":
        return f"{show(t[1], d)}[{show(t[2], d)}]"
    if k == "cindex":
        return f"{show(t[1], d)}[{t[2]}]"
    if k == "variant":
        return f"({show(t[1], d)} as {t[2]})"
    if k == "discr":
        return f"discr({show(t[1], d)})"
    if k == "phi":
        return "φ(" + " | ".join(show(a, d) for a in t[1]) + ")"
    if k == "self":
        return f"↺_{t[1]}"
    if k == "named":
        return f"{short(t[1])}"
    if k == "enumc":
        return f"{short(t[1])}::{t[2]}"
    if k == "fn":
        return f"fn {short(t[1])}"
    return str(t)[:60]


def short(p):
    p = str(p)
    for pre in ("std::", "core::", "alloc::"):
        pass
    return p


def show_key(t, limit=70):
    """like show() but without local numbers, for stable keys."""
    import re
    s = show(t)
    s = re.sub(r"↺_\d+", "↺", s)
    s = re.sub(r"\('undef', \d+\)", "undef", s)
    s = s.replace(" ", "")
    return s[:limit]
