"""Fact base: (re)generate the driver's JSON for /repo's current working tree and load it.

Nothing of the analysed crate is executed: `cargo +nightly check` type-checks it and the
driver (RUSTC_WORKSPACE_WRAPPER) serialises MIR, resolved callees, evaluated constants,
ADT facts and the unsafe/static census.
"""
import fcntl
import glob
import hashlib
import json
import os
import shutil
import subprocess
import sys
import time

VERIF = os.path.dirname(os.path.dirname(os.path.abspath(__file__)))
REPO = os.environ.get("ESPADA_REPO", "/repo")
BUILD = os.path.join(VERIF, "build")
DRIVER_DIR = os.path.join(VERIF, "driver")
DRIVER = os.path.join(DRIVER_DIR, "target", "release", "espada-facts")


class Broken(Exception):
    """The machinery could not do its job (not a verdict about the property)."""


class AnchorMissing(Broken):
    """A function, impl method or constant a rule is anchored in is not in the current source: the rule can no longer establish
    its clause there — the launcher reports it as a fail-closed violation (exit 1), not as broken machinery."""


def _sysroot():
    return subprocess.check_output(["rustc", "+nightly", "--print", "sysroot"], text=True).strip()


def tree_hash(root=None, extra=()):
    root = root or REPO
    h = hashlib.sha256()
    files = []
    for top in ("Cargo.toml", "Cargo.lock"):
        p = os.path.join(root, top)
        if os.path.exists(p):
            files.append(p)
    for sub in ("src", "examples", "benches", "tests"):
        for dp, dn, fn in os.walk(os.path.join(root, sub)):
            dn.sort()
            for f in sorted(fn):
                files.append(os.path.join(dp, f))
    for p in sorted(files):
        h.update(os.path.relpath(p, root).encode())
        h.update(b"\0")
        with open(p, "rb") as fh:
            h.update(fh.read())
        h.update(b"\0")
    for e in extra:
        h.update(str(e).encode())
    # the driver binary is part of the key: a rebuilt driver invalidates cached facts
    try:
        st = os.stat(DRIVER)
        h.update(f"{st.st_size}:{int(st.st_mtime)}".encode())
    except OSError:
        pass
    return h.hexdigest()[:20]


def ensure_driver():
    src_m = max(os.path.getmtime(p) for p in glob.glob(os.path.join(DRIVER_DIR, "src", "*.rs")))
    if os.path.exists(DRIVER) and os.path.getmtime(DRIVER) >= src_m:
        return
    env = dict(os.environ, CARGO_NET_OFFLINE="true")
    r = subprocess.run(["cargo", "+nightly", "build", "--release", "--offline"], cwd=DRIVER_DIR,
                       env=env, stdout=subprocess.PIPE, stderr=subprocess.STDOUT, text=True)
    if r.returncode != 0 or not os.path.exists(DRIVER):
        raise Broken("driver build failed:\n" + r.stdout[-3000:])


CONFIGS = {
    # name: (cargo args, extra rustflags, crate dir (None = REPO))
    "lib": (["--lib"], "", None),
    "lib-nooverflow": (["--lib"], "-C overflow-checks=off -C debug-assertions=off", None),
    "all": (["--all-targets"], "", None),
    "fixtures": (["--lib"], "", os.path.join(VERIF, "fixtures")),
}


def generate(config):
    """Return the directory holding the fact files of `config` for the current tree."""
    cargo_args, extra_flags, crate_dir = CONFIGS[config]
    crate_dir = crate_dir or REPO
    ensure_driver()
    key = tree_hash(crate_dir, extra=(config,))
    # a scratch copy (ESPADA_REPO, dev-time checker validation) keeps its own fact directories, so that parallel
    # scratch runs do not prune each other's (or /repo's) facts
    tag = config if crate_dir == "/repo" or crate_dir.startswith(VERIF) else \
        f"scratch{hashlib.sha1(crate_dir.encode()).hexdigest()[:8]}-{config}"
    out_dir = os.path.join(BUILD, "facts", f"{tag}-{key}")
    done = os.path.join(out_dir, "DONE")
    os.makedirs(os.path.join(BUILD, "facts"), exist_ok=True)
    lock_path = os.path.join(BUILD, f"lock-{config}")
    with open(lock_path, "w") as lock:
        fcntl.flock(lock, fcntl.LOCK_EX)
        if os.path.exists(done):
            return out_dir
        # drop stale fact dirs of this config
        for old in glob.glob(os.path.join(BUILD, "facts", f"{tag}-*")):
            shutil.rmtree(old, ignore_errors=True)
        os.makedirs(out_dir, exist_ok=True)
        target = os.path.join(BUILD, f"target-{config}")
        # cargo's freshness cache would skip the wrapper: forget the member's fingerprints
        for prof in glob.glob(os.path.join(target, "*", ".fingerprint")) + \
                glob.glob(os.path.join(target, "*", "*", ".fingerprint")):
            for d in os.listdir(prof):
                if d.startswith("espada-") or d.startswith("espada_verif_fixtures-"):
                    shutil.rmtree(os.path.join(prof, d), ignore_errors=True)
        env = dict(os.environ)
        env.update({
            "LD_LIBRARY_PATH": os.path.join(_sysroot(), "lib"),
            "RUSTFLAGS": ("-Zmir-opt-level=0 -Awarnings " + extra_flags).strip(),
            "RUSTC_WORKSPACE_WRAPPER": DRIVER,
            "ESPADA_FACTS_OUT": os.path.join(out_dir, "facts"),
            "CARGO_TARGET_DIR": target,
            "CARGO_NET_OFFLINE": "true",
        })
        env.pop("RUSTC_WRAPPER", None)
        t0 = time.time()
        r = subprocess.run(["cargo", "+nightly", "check", "--offline"] + cargo_args, cwd=crate_dir,
                           env=env, stdout=subprocess.PIPE, stderr=subprocess.STDOUT, text=True)
        if r.returncode != 0:
            shutil.rmtree(out_dir, ignore_errors=True)
            raise Broken(f"cargo check ({config}) failed in {crate_dir}:\n" + r.stdout[-4000:])
        files = glob.glob(os.path.join(out_dir, "facts-*.json"))
        if not files:
            shutil.rmtree(out_dir, ignore_errors=True)
            raise Broken(f"driver produced no fact file for config {config} (freshness cache?)")
        with open(done, "w") as fh:
            fh.write(f"{time.time() - t0:.2f}\n")
        return out_dir


class Fn:
    __slots__ = ("d", "path", "blocks", "locals", "arg_count", "_cfg", "facts")

    def __init__(self, d, facts):
        self.d = d
        self.path = d["path"]
        self.blocks = d["blocks"]
        self.locals = d["locals"]
        self.arg_count = d["arg_count"]
        self._cfg = None
        self.facts = facts

    @property
    def kind(self):
        return self.d["kind"]

    @property
    def impl(self):
        return self.d.get("impl")

    @property
    def file(self):
        return self.d["span"]["file"]

    @property
    def line(self):
        return self.d["span"]["line"]

    @property
    def parent(self):
        return self.d.get("parent")

    @property
    def cfg(self):
        if self._cfg is None:
            from . import cfg as _c
            self._cfg = _c.Cfg(self)
        return self._cfg

    def local_ty(self, l):
        return self.locals[l]["ty"]

    def local_name(self, l):
        return self.locals[l].get("name")

    def calls(self):
        """yield (block index, terminator dict) for every Call terminator (non-cleanup)."""
        for i, b in enumerate(self.blocks):
            if b["term"]["k"] == "call":
                yield i, b["term"]

    def loc(self, bi=None):
        if bi is None:
            return f"{self.file}:{self.line}"
        return f"{self.file}:{self.blocks[bi]['line']}"

    def __repr__(self):
        return f"<Fn {self.path}>"


class Facts:
    def __init__(self, docs, config, fact_dir):
        self.config = config
        self.fact_dir = fact_dir
        self.docs = docs
        self.meta = [d["meta"] for d in docs]
        self.fns = {}
        self.consts = {}
        self.adts = {}
        self.statics = []
        self.const_statics = {}
        self.unsafe_sites = []
        self.by_target = {}
        for d in docs:
            tgt = d["meta"]["crate"] + ("(test)" if d["meta"]["test_cfg"] else "") + ":" + d["meta"]["source"]
            self.by_target[tgt] = d
            for f in d["fns"]:
                p = f["path"]
                f["target"] = tgt
                # the lib compiled under cfg(test) duplicates the lib's items: first one wins
                self.fns.setdefault(p, Fn(f, self))
            for c in d["consts"]:
                self.consts.setdefault(c["path"], c)
            for a in d["adts"]:
                self.adts.setdefault(a["path"], a)
            for s in d["statics"]:
                s = dict(s, target=tgt)
                self.statics.append(s)
                # an immutable static without interior mutability is a constant with an address
                if not s["mutable"] and not s["thread_local"] and s.get("freeze") and "value" in s:
                    self.const_statics.setdefault(s["path"], s)
            for u in d["unsafe_sites"]:
                self.unsafe_sites.append(dict(u, target=tgt))

    def fn(self, path):
        f = self.fns.get(path)
        if f is None:
            raise AnchorMissing(f"anchor function not found: {path}")
        return f

    def find_fns(self, pred):
        return [f for f in self.fns.values() if pred(f)]

    def impl_fn(self, trait, self_ty, name):
        """the method `name` of `impl trait for self_ty` (trait given as printed path prefix)."""
        res = []
        for f in self.fns.values():
            im = f.impl
            if not im or f.kind != "AssocFn":
                continue
            if im["self_ty"] == self_ty and (im["trait"] or "") == (trait or "") and \
                    f.path.rsplit("::", 1)[-1] == name:
                res.append(f)
        if len(res) != 1:
            raise AnchorMissing(f"anchor impl method not found or ambiguous: <{self_ty} as {trait}>::{name} ({len(res)})")
        return res[0]

    def const_value(self, path):
        c = self.consts.get(path) or self.const_statics.get(path)
        if c is None:
            raise AnchorMissing(f"constant not found: {path}")
        return c.get("value")


def load(config="lib"):
    fact_dir = generate(config)
    docs = []
    for p in sorted(glob.glob(os.path.join(fact_dir, "facts-*.json"))):
        with open(p) as fh:
            docs.append(json.load(fh))
    if not docs:
        raise Broken("no fact documents")
    F = Facts(docs, config, fact_dir)
    F.inlined = {}
    F.desugared = {}
    F.forwarded = {}
    F.unrolled = {}
    if not os.environ.get("ESPADA_NO_INLINE"):
        from . import desugar, inline
        if not os.environ.get("ESPADA_NO_UNROLL"):
            from . import unroll
            F.unrolled = unroll.normalise(F)
        # desugaring exposes direct closure calls for the inliner; splicing a closure can expose a further pipeline or an
        # adaptor-sourced loop (the iterator a flat_map closure returns): alternate until nothing changes (at most 3 rounds)
        for _round in range(3):
            d = {} if os.environ.get("ESPADA_NO_DESUGAR") else desugar.normalise(F)
            i = inline.normalise(F)
            F.desugared.update(d)
            for k, v in i.items():
                F.inlined[k] = sorted(set(F.inlined.get(k, [])) | set(v))
            if not d or (_round > 0 and not i and not d):
                break
            if _round == 0 and not i:
                break
        from . import placefwd
        F.forwarded = placefwd.normalise(F)
    return F


if __name__ == "__main__":
    cfgname = sys.argv[1] if len(sys.argv) > 1 else "lib"
    f = load(cfgname)
    print(cfgname, f.fact_dir, len(f.fns), "fns", len(f.consts), "consts", len(f.adts), "adts")
