"""MIR-level inlining of private helper functions (a normalisation pass over the fact base).

Extracting a block of code into a private helper (or a closure called on the spot) does not change behaviour; the
rule templates, however, look at one function body at a time.  This pass splices the body of every *non-anchor*
crate-local private function into its callers, so that a rule sees the same statements whether or not they were
factored out.  Anchors -- private functions with a role the rules model separately, found by role -- and public API functions are never inlined: they
keep their identity in the call graph.

Splicing call `dest = g(a1..an) -> bb_t` in block b of f:
  * g's locals are appended to f's (local i of g becomes off+i), g's blocks are appended (block j becomes boff+j),
    g's promoted bodies are appended (index p becomes poff+p);
  * b:   `off+k = ak` for each parameter, then `goto boff+0`;
  * each `return` block of g:  `dest = move (off+0)`, then `goto bb_t` (or `unreachable` if the call diverges).
Unwind edges are not modelled anywhere in the fact base, so there is nothing else to reconnect.
"""
import copy

# Anchors: private functions that play a role the rule modules model as a function of its own.  They are found by role
# (which public trait method calls them, with which signature), never by name, so renaming one does not turn it into a
# "helper"; every other crate-local function with restricted visibility is a helper and is spliced into its callers.
EVAL = "evaluator::flop_exhaustive::FlopExhaustiveEvaluator"
MADE_HAND = "evaluator::made_hand::MadeHand"
TOKEN = "hand_range::hand_range_token::HandRangeToken"


def _callees(F, fn):
    out = []
    for _bi, t in fn.calls():
        c = t["callee"]
        q = c.get("resolved") or c.get("path")
        g = F.fns.get(q)
        if g is not None and g.d.get("vis") == "restricted" and g.kind in ("Fn", "AssocFn"):
            out.append(g)
    return out


def _impl_method(F, trait_prefix, self_ty, name):
    for f in F.fns.values():
        im = f.impl
        if im and f.kind == "AssocFn" and im["self_ty"] == self_ty and (im["trait"] or "").startswith(trait_prefix) \
                and f.path.rsplit("::", 1)[-1] == name:
            return f
    return None


def anchor_paths(F):
    anchors = set()
    into_iter = _impl_method(F, "std::iter::IntoIterator", EVAL, "into_iter")
    if into_iter is not None:
        iter_ty = into_iter.local_ty(0)
        # the iterator's constructor (looking through public forwarders: `into_iter(self) -> (&self).into_iter() -> self.iter()`)
        from . import idioms as I_
        f_ = into_iter
        for _ in range(4):
            ctor = {g.path for g in _callees(F, f_) if g.local_ty(0) == iter_ty}
            if ctor:
                anchors |= ctor
                break
            nxt_ = I_.forwarding_target(F, f_)
            if nxt_ is None:
                break
            f_ = nxt_
        nxt = _impl_method(F, "std::iter::Iterator", iter_ty, "next")
        if nxt is not None:
            # the worker producing one deal: takes the iterator mutably, returns the showdown
            anchors |= {g.path for g in _callees(F, nxt) if g.arg_count >= 1 and g.local_ty(1) == "&mut " + iter_ty
                        and "Showdown" in g.local_ty(0)}
    conv = _impl_method(F, "std::convert::From<[card::card::Card; 7]>", MADE_HAND, "from")
    if conv is not None:
        # flush finder and the two hash functions (of the body that does the work: `From<[Card; 7]>` may only forward to a
        # by-reference impl)
        from . import idioms as I
        conv = I.resolve_forwarding(F, conv)
        anchors |= {g.path for g in _callees(F, conv)}
    parse = _impl_method(F, "std::str::FromStr", TOKEN, "from_str")
    if parse is not None:
        # the weight parser
        anchors |= {g.path for g in _callees(F, parse) if g.local_ty(0) == "f32"}
    return anchors


MAX_BLOCKS = 400
MAX_DEPTH = 4


_REMAP = [{}]     # callee local -> caller local, for reference parameters that are plain reborrows of a caller parameter


def _shift(node, off, boff, poff):
    """deep copy of a statement/terminator/operand tree with locals, block targets and promoted indexes shifted"""
    if isinstance(node, dict):
        out = {}
        for k, v in node.items():
            if k in ("l", "idx") and isinstance(v, int):
                out[k] = _REMAP[0].get(v, v + off)
            elif k == "promoted" and isinstance(v, int):
                out[k] = v + poff
            else:
                out[k] = _shift(v, off, boff, poff)
        return out
    if isinstance(node, list):
        return [_shift(x, off, boff, poff) for x in node]
    return node


def _shift_term(term, off, boff, poff):
    t = _shift(term, off, boff, poff)
    k = t["k"]
    if k == "goto":
        t["to"] += boff
    elif k == "switch":
        t["arms"] = [[v, tgt + boff] for v, tgt in term["arms"]]
        t["otherwise"] = term["otherwise"] + boff
    elif k in ("call", "assert", "drop"):
        if t.get("to") is not None:
            t["to"] += boff
        if isinstance(t.get("unwind"), int):
            t["unwind"] += boff
    return t


def _reborrow_root(nd, op):
    """the caller's reference parameter that operand `op` is a plain (re)borrow / copy of, else None"""
    pl = op.get("move") or op.get("copy")
    if pl is None or pl["proj"]:
        return None
    l = pl["l"]
    for _ in range(5):
        if 1 <= l <= nd["arg_count"]:
            return l if nd["locals"][l]["ty"].startswith("&") else None
        defs = []
        for b in nd["blocks"]:
            for s_ in b["stmts"]:
                if s_["k"] == "assign" and s_["place"]["l"] == l and not s_["place"]["proj"]:
                    defs.append(s_["rv"])
            t = b["term"]
            if t["k"] == "call" and t.get("dest") and t["dest"]["l"] == l:
                return None
        if len(defs) != 1:
            return None
        rv = defs[0]
        if "ref" in rv and rv["ref"]["proj"] == ["deref"]:
            l = rv["ref"]["l"]
        elif "use" in rv and (rv["use"].get("move") or rv["use"].get("copy")) and not (rv["use"].get("move") or rv["use"].get("copy"))["proj"]:
            l = (rv["use"].get("move") or rv["use"].get("copy"))["l"]
        else:
            return None
    return None


def accessor_like(F, f):
    """a public inherent method that only forwards (part of) `self` to at most three std calls, without a branch or a loop
    (`pub fn probability(&self, k) -> Option<f32> { self.0.get(k).copied() }`): spliced into its crate-local callers like a
    private helper (the method itself stays).  The reference tree has none."""
    if f.kind != "AssocFn" or f.d.get("vis") != "pub" or not f.impl or f.impl.get("trait"):
        return False
    if f.arg_count < 1 or not f.local_ty(1).lstrip("&").replace("mut ", "").startswith(f.impl["self_ty"].split("<")[0]):
        return False
    if f.cfg.has_loops():
        return False
    calls = [(bi, t) for bi, t in f.calls() if bi in f.cfg.reachable]
    if not calls or len(calls) > 3:
        return False
    if any(b["term"]["k"] == "switch" for i, b in enumerate(f.blocks) if i in f.cfg.reachable):
        return False
    for _bi, t in calls:
        if "indirect" in t["callee"] or (t["callee"].get("resolved") or t["callee"].get("path")) in F.fns:
            return False
    # .. and it reads a field of self (`self.0.get(k)`): a method computing from constants (`Self::ALL.get(i)`) is an operation
    # of the type that rules know by name, not a view of the value's storage
    from . import prov as P_
    pr = P_.Prov(f)
    for _bi, t in calls:
        if t["args"]:
            a0 = P_.strip(pr.operand(t["args"][0]))
            while a0[0] == "field":
                if P_.strip(a0[1]) == ("param", 1):
                    return True
                a0 = P_.strip(a0[1])
    return False


def projector_like(F, f):
    """a public inherent method of an enum that only matches on `self` and returns, per variant, one of that variant's fields
    or a constant (`pub fn high(&self) -> Rank { match *self { Pocket(r) => r, Suited(h, _) | Ofsuit(h, _) => h } }`): spliced
    into its crate-local callers, whose path-sensitive models then see the variant test and the field.  The reference tree
    has none."""
    if f.kind != "AssocFn" or f.d.get("vis") != "pub" or not f.impl or f.impl.get("trait") or f.arg_count != 1:
        return False
    self_ty = f.local_ty(1).lstrip("&").replace("mut ", "")
    if not self_ty.startswith(f.impl["self_ty"].split("<")[0]) or self_ty not in F.adts or F.adts[self_ty].get("kind") != "Enum":
        return False
    if f.cfg.has_loops() or any(True for bi, _t in f.calls() if bi in f.cfg.reachable):
        return False
    sw = [b["term"] for i, b in enumerate(f.blocks) if i in f.cfg.reachable and b["term"]["k"] == "switch"]
    if len(sw) != 1:
        return False
    from . import prov as P_
    t = P_.strip(P_.Prov(f).operand(sw[0]["on"]))
    if not (t[0] == "discr" and P_.strip(t[1]) in (("param", 1), ("deref", ("param", 1)))):
        return False
    # every statement is a plain copy of a (variant) field of self, a constant, or a move between locals
    for i, b in enumerate(f.blocks):
        if i not in f.cfg.reachable:
            continue
        for st in b["stmts"]:
            if st.get("k") != "assign" or not (set(st["rv"]) <= {"use", "discr"}):
                return False
    return True


def helper_paths(F, closures_only=False):
    """crate-local functions that may be spliced: restricted visibility, not an anchor, not (mutually) recursive"""
    if closures_only:
        # closures that sa/desugar.py turned into directly called functions (stage / arm closures of rewritten combinators)
        cand = {p for p in getattr(F, "directly_called_closures", set()) if p in F.fns and len(F.fns[p].blocks) <= MAX_BLOCKS}
    else:
        anchors = anchor_paths(F)
        cand = {p for p, f in F.fns.items()
                if f.kind in ("Fn", "AssocFn") and (f.d.get("vis") == "restricted" or accessor_like(F, f) or projector_like(F, f)) and p not in anchors
                and len(f.blocks) <= MAX_BLOCKS}
    # drop recursive helpers (direct or through other helpers)
    def callees(p):
        out = set()
        for _bi, t in F.fns[p].calls():
            c = t["callee"]
            q = c.get("resolved") or c.get("path")
            if q in cand:
                out.add(q)
        return out
    graph = {p: callees(p) for p in cand}
    bad = set()
    for p in cand:
        seen, st = set(), [p]
        while st:
            x = st.pop()
            for y in graph.get(x, ()):
                if y == p:
                    bad.add(p)
                if y not in seen:
                    seen.add(y)
                    st.append(y)
    return cand - bad


def inline_into(F, d, helpers, depth=0):
    """return a new function dict with every call to a helper spliced in (None if nothing to do)"""
    blocks = d["blocks"]
    sites = []
    for bi, b in enumerate(blocks):
        t = b["term"]
        if t["k"] != "call" or b.get("cleanup"):
            continue
        c = t["callee"]
        if "indirect" in c:
            continue
        q = c.get("resolved") or c.get("path")
        if q in helpers and q != d["path"]:
            sites.append((bi, q))
    if not sites or depth >= MAX_DEPTH:
        return None
    nd = dict(d)
    nd["blocks"] = copy.deepcopy(blocks)
    nd["locals"] = list(d["locals"])
    nd["promoted"] = list(d.get("promoted", []))
    nd["inlined"] = list(d.get("inlined", []))
    for bi, q in sites:
        g = F.fns[q].d
        gi = inline_into(F, g, helpers, depth + 1) or g
        off, boff, poff = len(nd["locals"]), len(nd["blocks"]), len(nd["promoted"])
        nd["locals"].extend(gi["locals"])
        nd["promoted"].extend(gi.get("promoted", []))
        call = nd["blocks"][bi]
        term = call["term"]
        if len(term["args"]) != gi["arg_count"]:
            # spread (rust-call ABI) or otherwise unexpected: leave the call alone
            del nd["locals"][off:]
            del nd["promoted"][poff:]
            continue
        remap = {}
        for k, a in enumerate(term["args"]):
            call["stmts"].append({"k": "assign", "place": {"l": off + 1 + k, "proj": []}, "rv": {"use": a},
                                  "line": call["line"], "exp": call.get("exp", False), "inl": "arg"})
            # `helper(&mut *self, ..)`: the helper's `self` is the caller's own reference parameter; let the spliced body name it
            r = _reborrow_root(nd, a)
            if r is not None and gi["locals"][1 + k]["ty"].startswith("&") and nd["locals"][r]["ty"].lstrip("&mut ").strip() == gi["locals"][1 + k]["ty"].lstrip("&mut ").strip():
                if not any(s_["k"] == "assign" and s_["place"]["l"] == 1 + k and not s_["place"]["proj"] for b_ in gi["blocks"] for s_ in b_["stmts"]):
                    remap[1 + k] = r
        _REMAP[0] = remap
        call["term"] = {"k": "goto", "to": boff, "inl": q}
        for gb in gi["blocks"]:
            nb = {"stmts": [_shift(s, off, boff, poff) for s in gb["stmts"]],
                  "term": _shift_term(gb["term"], off, boff, poff),
                  "line": gb["line"], "exp": gb.get("exp", False), "cleanup": gb.get("cleanup", False),
                  "inl": q}
            if nb["term"]["k"] == "return":
                if term.get("to") is not None:
                    nb["stmts"].append({"k": "assign", "place": term["dest"],
                                        "rv": {"use": {"move": {"l": off, "proj": []}}},
                                        "line": gb["line"], "exp": False, "inl": "ret"})
                    nb["term"] = {"k": "goto", "to": term["to"]}
                else:
                    nb["term"] = {"k": "unreachable"}
            nd["blocks"].append(nb)
        _REMAP[0] = {}
        nd["inlined"].append(q)
        if term.get("to") is not None:
            _thread(F, nd, bi, boff, len(gi["blocks"]), off, term["dest"], term["to"])
    return nd


def _known_value(F, blocks, p, local):
    """the discriminant / bool value that `local` holds at the end of block p, when p itself decides it: an enum aggregate, a
    bool constant, or the None that `?` builds through FromResidual for Option"""
    b = blocks[p]
    t = b["term"]
    if t["k"] == "call":
        d = t.get("dest")
        if d and d["l"] == local and not d["proj"]:
            c = t["callee"]
            if c.get("name") == "from_residual" and "Option" in (c.get("full") or ""):
                return 0
            return None
    for s_ in reversed(b["stmts"]):
        if s_["k"] == "setdiscr" and s_["place"]["l"] == local:
            return None
        if s_["k"] != "assign" or s_["place"]["l"] != local:
            continue
        if s_["place"]["proj"]:
            return None
        rv = s_["rv"]
        if "agg" in rv and isinstance(rv["agg"], dict) and "adt" in rv["agg"]:
            a = F.adts.get(rv["agg"]["adt"])
            if a is not None:
                for v in a["variants"]:
                    if v["name"] == rv["agg"]["variant"]:
                        return v["discr"]
                return None
            return rv["agg"]["vidx"]
        if "use" in rv and "const" in rv["use"] and "bool" in rv["use"]["const"]:
            return 1 if rv["use"]["const"]["bool"] else 0
        return None
    return None


def _thread(F, nd, call_bi, boff, nblocks, off, dest, cont):
    """jump threading across a spliced call: when the continuation only switches on (the discriminant of) the result and a
    return path of the helper decides that value, the path jumps straight to the arm it selects (tail duplication of the
    return block and the continuation + folding of the switch); `if let Some(x) = helper()` then leaves the same edge-guards
    as the open-coded test"""
    blocks = nd["blocks"]
    if dest["proj"]:
        return
    T = blocks[cont]
    tt = T["term"]
    if tt["k"] == "goto" and 1 <= len(T["stmts"]) <= 2 and blocks[tt["to"]]["term"]["k"] == "switch":
        # the continuation first hands the result on (`x = move dest`, the return of a closure the helper was called in) and
        # the block behind it switches on that: read both blocks as one continuation on the forwarded local
        from .cfg import term_succs as _ts
        cur = dest["l"]
        for s_ in T["stmts"]:
            u_ = s_["rv"].get("use") if s_["k"] == "assign" else None
            src_ = (u_.get("move") or u_.get("copy")) if isinstance(u_, dict) else None
            if not src_ or src_ != {"l": cur, "proj": []} or s_["place"]["proj"]:
                return
            cur = s_["place"]["l"]
        T2i = tt["to"]
        if sum(1 for b_ in blocks for _l, t_ in _ts(b_["term"]) if t_ == T2i) != 1:
            return
        T2 = blocks[T2i]
        if any(s_["k"] in ("assign", "setdiscr") and s_["place"]["l"] in (cur, dest["l"]) for s_ in T2["stmts"]):
            return
        chain_ = copy.deepcopy(T["stmts"])
        T = dict(T2)
        tt = T["term"]
        dest = {"l": cur, "proj": []}
    else:
        chain_ = []
    if tt["k"] != "switch":
        return
    # the continuation has no other predecessor
    n_pred = 0
    for i, b in enumerate(blocks):
        from .cfg import term_succs
        n_pred += sum(1 for _l, t in term_succs(b["term"]) if t == cont)
    rets = [j for j in range(boff, boff + nblocks)
            if blocks[j]["term"]["k"] == "goto" and blocks[j]["term"]["to"] == cont
            and any(s_.get("inl") == "ret" for s_ in blocks[j]["stmts"])]
    if n_pred != len(rets) or not rets:
        return
    on = tt["on"]
    on_pl = on.get("move") or on.get("copy")
    if on_pl is None or on_pl["proj"]:
        return
    scrut_is_dest = on_pl["l"] == dest["l"]
    if not scrut_is_dest:
        # _d = discriminant(dest) in T, nothing else writing dest or _d
        defs = [s_ for s_ in T["stmts"] if s_["k"] == "assign" and s_["place"]["l"] == on_pl["l"]]
        if len(defs) != 1 or "discr" not in defs[0]["rv"] or defs[0]["rv"]["discr"] != {"l": dest["l"], "proj": []}:
            return
    if any(s_["k"] in ("assign", "setdiscr") and s_["place"]["l"] == dest["l"] for s_ in T["stmts"]):
        return

    def arm_for(val):
        for v, tgt in tt["arms"]:
            if v == val:
                return tgt
        return tt["otherwise"]
    ret_local = off

    def writes_ret(j):
        b = blocks[j]
        if any(s_["k"] in ("assign", "setdiscr") and s_["place"]["l"] == ret_local for s_ in b["stmts"]):
            return True
        d = b["term"].get("dest") if b["term"]["k"] == "call" else None
        return bool(d and d["l"] == ret_local)

    def preds_of(j):
        return [i for i in range(boff, boff + nblocks) if i != j and j in [t for _l, t in term_succs(blocks[i]["term"])]]

    found = []   # (decider block, value, [chain of blocks from the decider's successor to the return block])

    def explore(j, chain, depth):
        for p_ in preds_of(j):
            pt_ = blocks[p_]["term"]
            if pt_["k"] not in ("goto", "call", "drop"):
                continue
            val = _known_value(F, blocks, p_, ret_local)
            if val is not None:
                found.append((p_, val, chain))
            elif not writes_ret(p_) and pt_["k"] in ("goto", "drop") and depth < 4:
                explore(p_, [p_] + chain, depth + 1)
    for R in rets:
        if writes_ret(R):
            # the inlined `dest = move ret` is the only write allowed
            if any(s_["k"] in ("assign", "setdiscr") and s_["place"]["l"] == ret_local for s_ in blocks[R]["stmts"]):
                continue
        explore(R, [R], 0)
    for (p_, val, chain) in found:
        clones = [copy.deepcopy(blocks[c]) for c in chain]
        t2 = copy.deepcopy(T)
        t2["stmts"] = copy.deepcopy(chain_) + t2["stmts"]
        t2["term"] = {"k": "goto", "to": arm_for(val), "threaded": val}
        base = len(blocks)
        for i, c in enumerate(clones):
            if c["term"]["k"] == "drop":
                c["term"]["to"] = base + i + 1      # the drop of a helper's local stays on the duplicated path
            else:
                c["term"] = {"k": "goto", "to": base + i + 1}
            blocks.append(c)
        blocks.append(t2)
        blocks[p_]["term"]["to"] = base


def normalise(F):
    """splice helpers into every function of the fact base (in place); returns {caller: [helpers]}.  Phase 1 splices the
    closures that desugaring turned into direct calls (and forgets them: they are no longer separate bodies); phase 2 finds
    the anchors on that result and splices the remaining private helpers."""
    done = {}
    for phase in (1, 2):
        helpers = helper_paths(F, closures_only=(phase == 1))
        if not helpers:
            continue
        for p, f in list(F.fns.items()):
            if p in helpers:
                continue
            nd = inline_into(F, f.d, helpers)
            if nd is not None:
                F.fns[p] = type(f)(nd, F)
                done[p] = nd["inlined"]
        if phase == 1:
            # a closure whose every call became a direct, spliced call is not a body of its own any more
            still = set()
            for p, f in F.fns.items():
                for _bi, t in f.calls():
                    q = t["callee"].get("resolved") or t["callee"].get("path")
                    if q in helpers:
                        still.add(q)
            for q in helpers - still:
                F.spliced_closures = getattr(F, "spliced_closures", set()) | {q}
                del F.fns[q]
        else:
            F.inlined_helpers = helpers
    return done
