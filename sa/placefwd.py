"""Normalisation pass: forward element references.

`let c = &mut counts[i]; *c += 1; if *c >= 5 ..` is the same program as `counts[i] += 1; if counts[i] >= 5 ..`; the rules read
stores as `A[i] = ..` (Prov.stores is keyed by the base local of the assigned place), so a store through a local reference
would hide the array behind the reference local.  A reference local r is forwarded when

  * r has exactly one definition, `r = &mut P0` / `r = &P0`, where P0 is a place without a dereference whose base is not r;
  * every other occurrence of r is as the base of a place starting with a dereference (`(*r).rest`): r itself is never
    copied, moved, passed, returned or re-referenced;
  * the definition dominates every use, and
  * no index local of P0 can be redefined between the definition that a use observes and that use (no path from a definition
    of the index local to the use that avoids r's definition); the base local of P0 is a place, not a value, so its identity
    cannot change.

Every `(*r).rest` is then replaced by `P0.rest` and r's definition is dropped.  Nothing is rewritten on the unchanged tree
(no such reference local exists in it)."""
import copy


def _walk_places(node, fn):
    """call fn(place_dict) for every place-shaped dict ({"l":.., "proj":..}) in the tree"""
    if isinstance(node, dict):
        if "l" in node and "proj" in node and isinstance(node["l"], int):
            fn(node)
            for e in node["proj"]:
                if isinstance(e, dict):
                    _walk_places(e, fn)
            return
        for v in node.values():
            _walk_places(v, fn)
    elif isinstance(node, list):
        for x in node:
            _walk_places(x, fn)


def _succs(t):
    k = t["k"]
    if k == "goto":
        return [t["to"]]
    if k == "switch":
        return [tg for _v, tg in t["arms"]] + [t["otherwise"]]
    if k in ("call", "assert", "drop"):
        return [t["to"]] if t.get("to") is not None else []
    return []


def _reaches_without(blocks, start, target, barrier):
    """is position `target` reachable from just after position `start` without executing position `barrier`?
    positions are (block, index); the terminator has index len(stmts)"""
    (sb, si), (tb, ti), (bb, bi_) = start, target, barrier
    if bb == sb and bi_ > si:
        return tb == sb and si < ti < bi_
    if tb == sb and ti > si:
        return True
    seen = set()
    work = list(_succs(blocks[sb]["term"]))
    while work:
        x = work.pop()
        if x in seen:
            continue
        seen.add(x)
        if x == bb:
            if tb == x and ti < bi_:
                return True
            continue
        if x == tb:
            return True
        work.extend(_succs(blocks[x]["term"]))
    return False


def _dominates_pos(f, d, u):
    (db, di), (ub, ui) = d, u
    if db == ub:
        return di < ui
    return f.cfg.dominates(db, ub)


def forward(f):
    """returns a rewritten fact dict for function object f, or None"""
    d = f.d
    blocks = d["blocks"]
    locals_ = d["locals"]
    # occurrences
    whole = {}      # local -> list of positions where the local occurs without a leading deref (excluding its definitions)
    deref = {}      # local -> list of positions
    defs = {}       # local -> list of (pos, rv|None)
    for bi, b in enumerate(blocks):
        if b.get("cleanup"):
            continue
        n = len(b["stmts"])
        for si, s in enumerate(b["stmts"]):
            def note(pl, pos=(bi, si), s=s):
                if pl["proj"] and pl["proj"][0] == "deref":
                    deref.setdefault(pl["l"], []).append(pos)
                elif s.get("k") == "assign" and pl is s["place"] and not pl["proj"]:
                    defs.setdefault(pl["l"], []).append((pos, s["rv"]))
                elif s.get("k") == "assign" and pl is s["place"]:
                    whole.setdefault(pl["l"], []).append(pos)       # store into a projection of the local
                else:
                    whole.setdefault(pl["l"], []).append(pos)
                for e in pl["proj"]:
                    if isinstance(e, dict) and "idx" in e:
                        whole.setdefault(e["idx"], []).append(pos)
            if s.get("k") == "assign":
                _walk_places(s, note)
            elif s.get("k") not in ("storage", "nop", None) or "place" in s or "l" in s:
                _walk_places(s, note)
        t = b["term"]

        def note_t(pl, pos=(bi, n), t=t):
            if t["k"] == "call" and pl is t.get("dest") and not pl["proj"]:
                defs.setdefault(pl["l"], []).append((pos, None))
            elif pl["proj"] and pl["proj"][0] == "deref":
                deref.setdefault(pl["l"], []).append(pos)
            else:
                whole.setdefault(pl["l"], []).append(pos)
            for e in pl["proj"]:
                if isinstance(e, dict) and "idx" in e:
                    whole.setdefault(e["idx"], []).append(pos)
        _walk_places(t, note_t)
    cands = []
    for r, ds in defs.items():
        if r == 0 or r <= d.get("arg_count", 0) or len(ds) != 1 or whole.get(r) or not deref.get(r):
            continue
        ty = locals_[r]["ty"] if r < len(locals_) else ""
        if not ty.startswith("&"):
            continue
        (dpos, rv) = ds[0]
        if not isinstance(rv, dict) or "ref" not in rv:
            continue
        p0 = rv["ref"]
        if p0["l"] == r or any(e == "deref" for e in p0["proj"]) or not p0["proj"]:
            continue
        if not ty.startswith("&mut") and not any(isinstance(e, dict) and "idx" in e for e in p0["proj"]):
            continue        # shared references to fields are already transparent to the provenance terms
        ok = True
        idxs = [e["idx"] for e in p0["proj"] if isinstance(e, dict) and "idx" in e]
        for u in deref[r]:
            if not _dominates_pos(f, dpos, u):
                ok = False
                break
            for i in idxs:
                for (ipos, _rv) in defs.get(i, []):
                    if _reaches_without(blocks, ipos, u, dpos):
                        ok = False
                if i <= d.get("arg_count", 0) and i != 0:
                    pass        # a parameter used as the index: only redefinitions matter (checked above)
        if ok:
            cands.append((r, dpos, p0))
    if not cands:
        return None
    nd = dict(d)
    nd["blocks"] = copy.deepcopy(blocks)
    done = []
    drop = []
    for r, dpos, p0 in cands:
        # a forwarded place must not itself mention another forwarded reference (keep the pass one level deep per run)
        if any(p0["l"] == r2 for r2, _d, _p in cands):
            continue

        def sub(pl, r=r, p0=p0):
            if pl["l"] == r and pl["proj"] and pl["proj"][0] == "deref":
                pl["l"] = p0["l"]
                pl["proj"] = copy.deepcopy(p0["proj"]) + pl["proj"][1:]
        for bi, b in enumerate(nd["blocks"]):
            if b.get("cleanup"):
                continue
            for si, s in enumerate(b["stmts"]):
                if (bi, si) == dpos:
                    continue
                _walk_places(s, sub)
            _walk_places(b["term"], sub)
        drop.append(dpos)
        done.append(r)
    if not done:
        return None
    for (bi, si) in sorted(drop, reverse=True):
        del nd["blocks"][bi]["stmts"][si]
    nd["forwarded_refs"] = done
    return nd


def normalise(F):
    changed = {}
    for p, f in list(F.fns.items()):
        for _ in range(4):
            nd = forward(f)
            if nd is None:
                break
            f = type(f)(nd, F)
            F.fns[p] = f
            changed[p] = changed.get(p, []) + nd["forwarded_refs"]
    return changed
