"""Normalisation pass: forward element references.

`let c = &mut counts[i]; *c += 1; if *c >= 5 ..` is the same program as `counts[i] += 1; if counts[i] >= 5 ..`; the rules read
stores as `A[i] = ..` (Prov.stores is keyed by the base local of the assigned place), so a store through a local reference
would hide the array behind the reference local.  A reference local r is forwarded when

  * r has exactly one definition, `r = &mut P0` / `r = &P0`, where P0 is a place without a dereference whose base is not r;
  * every other occurrence of r is as the base of a place starting with a dereference (`(*r).rest`): r itself is never
    copied, moved, passed, returned or re-referenced;
  * the definition dominates every use, and
  * no index local of P0 can be redefined between the definition that a use observes and that use (no path from a definition
    of the index local to the use that avoids r's definition); the base local of P0 is a place, not a value, so its identity
    cannot change.

Every `(*r).rest` is then replaced by `P0.rest` and r's definition is dropped.  Nothing is rewritten on the unchanged tree
(no such reference local exists in it)."""
import copy


def _walk_places(node, fn):
    """call fn(place_dict) for every place-shaped dict ({"l":.., "proj":..}) in the tree"""
    if isinstance(node, dict):
        if "l" in node and "proj" in node and isinstance(node["l"], int):
            fn(node)
            for e in node["proj"]:
                if isinstance(e, dict):
                    _walk_places(e, fn)
            return
        for v in node.values():
            _walk_places(v, fn)
    elif isinstance(node, list):
        for x in node:
            _walk_places(x, fn)


def _succs(t):
    k = t["k"]
    if k == "goto":
        return [t["to"]]
    if k == "switch":
        return [tg for _v, tg in t["arms"]] + [t["otherwise"]]
    if k in ("call", "assert", "drop"):
        return [t["to"]] if t.get("to") is not None else []
    return []


def _reaches_without(blocks, start, target, barrier):
    """is position `target` reachable from just after position `start` without executing position `barrier`?
    positions are (block, index); the terminator has index len(stmts)"""
    (sb, si), (tb, ti), (bb, bi_) = start, target, barrier
    if bb == sb and bi_ > si:
        return tb == sb and si < ti < bi_
    if tb == sb and ti > si:
        return True
    seen = set()
    work = list(_succs(blocks[sb]["term"]))
    while work:
        x = work.pop()
        if x in seen:
            continue
        seen.add(x)
        if x == bb:
            if tb == x and ti < bi_:
                return True
            continue
        if x == tb:
            return True
        work.extend(_succs(blocks[x]["term"]))
    return False


def _dominates_pos(f, d, u):
    (db, di), (ub, ui) = d, u
    if db == ub:
        return di < ui
    return f.cfg.dominates(db, ub)


def forward(f):
    """returns a rewritten fact dict for function object f, or None"""
    d = f.d
    blocks = d["blocks"]
    locals_ = d["locals"]
    # occurrences
    whole = {}      # local -> list of positions where the local occurs without a leading deref (excluding its definitions)
    deref = {}      # local -> list of positions
    defs = {}       # local -> list of (pos, rv|None)
    for bi, b in enumerate(blocks):
        if b.get("cleanup"):
            continue
        n = len(b["stmts"])
        for si, s in enumerate(b["stmts"]):
            def note(pl, pos=(bi, si), s=s):
                if pl["proj"] and pl["proj"][0] == "deref":
                    deref.setdefault(pl["l"], []).append(pos)
                elif s.get("k") == "assign" and pl is s["place"] and not pl["proj"]:
                    defs.setdefault(pl["l"], []).append((pos, s["rv"]))
                elif s.get("k") == "assign" and pl is s["place"]:
                    whole.setdefault(pl["l"], []).append(pos)       # store into a projection of the local
                else:
                    whole.setdefault(pl["l"], []).append(pos)
                for e in pl["proj"]:
                    if isinstance(e, dict) and "idx" in e:
                        whole.setdefault(e["idx"], []).append(pos)
            if s.get("k") == "assign":
                _walk_places(s, note)
            elif s.get("k") not in ("storage", "nop", None) or "place" in s or "l" in s:
                _walk_places(s, note)
        t = b["term"]

        def note_t(pl, pos=(bi, n), t=t):
            if t["k"] == "call" and pl is t.get("dest") and not pl["proj"]:
                defs.setdefault(pl["l"], []).append((pos, None))
            elif pl["proj"] and pl["proj"][0] == "deref":
                deref.setdefault(pl["l"], []).append(pos)
            else:
                whole.setdefault(pl["l"], []).append(pos)
            for e in pl["proj"]:
                if isinstance(e, dict) and "idx" in e:
                    whole.setdefault(e["idx"], []).append(pos)
        _walk_places(t, note_t)
    cands = []
    for r, ds in defs.items():
        if r == 0 or r <= d.get("arg_count", 0) or len(ds) != 1 or whole.get(r) or not deref.get(r):
            continue
        ty = locals_[r]["ty"] if r < len(locals_) else ""
        if not ty.startswith("&"):
            continue
        (dpos, rv) = ds[0]
        if not isinstance(rv, dict) or "ref" not in rv:
            continue
        p0 = rv["ref"]
        if p0["l"] == r or any(e == "deref" for e in p0["proj"]):
            continue
        if not p0["proj"]:
            # `r = &mut x` of a whole local: forwarded only when something is stored through it (`*r -= n` in a spliced FnMut
            # closure); plain reborrow chains (`&mut *r` handed to `next`) are left as they are
            stored = False
            for b_ in blocks:
                if b_.get("cleanup"):
                    continue
                for s_ in b_["stmts"]:
                    if s_["k"] == "assign" and s_["place"]["l"] == r and s_["place"]["proj"] and s_["place"]["proj"][0] == "deref":
                        stored = True
            if not stored or not ty.startswith("&mut") or p0["l"] <= d.get("arg_count", 0):
                continue
        if not ty.startswith("&mut") and not any(isinstance(e, dict) and "idx" in e for e in p0["proj"]):
            continue        # shared references to fields are already transparent to the provenance terms
        ok = True
        idxs = [e["idx"] for e in p0["proj"] if isinstance(e, dict) and "idx" in e]
        for u in deref[r]:
            if not _dominates_pos(f, dpos, u):
                ok = False
                break
            for i in idxs:
                for (ipos, _rv) in defs.get(i, []):
                    if _reaches_without(blocks, ipos, u, dpos):
                        ok = False
                if i <= d.get("arg_count", 0) and i != 0:
                    pass        # a parameter used as the index: only redefinitions matter (checked above)
        if ok:
            cands.append((r, dpos, p0))
    if not cands:
        return None
    nd = dict(d)
    nd["blocks"] = copy.deepcopy(blocks)
    done = []
    drop = []
    for r, dpos, p0 in cands:
        # a forwarded place must not itself mention another forwarded reference (keep the pass one level deep per run)
        if any(p0["l"] == r2 for r2, _d, _p in cands):
            continue

        def sub(pl, r=r, p0=p0):
            if pl["l"] == r and pl["proj"] and pl["proj"][0] == "deref":
                pl["l"] = p0["l"]
                pl["proj"] = copy.deepcopy(p0["proj"]) + pl["proj"][1:]
        for bi, b in enumerate(nd["blocks"]):
            if b.get("cleanup"):
                continue
            for si, s in enumerate(b["stmts"]):
                if (bi, si) == dpos:
                    continue
                _walk_places(s, sub)
            _walk_places(b["term"], sub)
        drop.append(dpos)
        done.append(r)
    if not done:
        return None
    for (bi, si) in sorted(drop, reverse=True):
        del nd["blocks"][bi]["stmts"][si]
    nd["forwarded_refs"] = done
    return nd


def forward_env(f):
    """closure environments of spliced closures: `E = closure[c0, c1, ..]`, `R = &mut E` (possibly moved along), body reads
    `(*R).k` -- replaced by the captured operand c_k itself, when every use of E and of its references has that form"""
    d = f.d
    blocks = d["blocks"]
    defs, uses = {}, {}
    for bi, b in enumerate(blocks):
        if b.get("cleanup"):
            continue
        for si, s in enumerate(b["stmts"]):
            if s["k"] == "assign":
                if not s["place"]["proj"]:
                    defs.setdefault(s["place"]["l"], []).append(("stmt", bi, si, s))

                def note(pl, s=s):
                    if pl is s["place"] and not pl["proj"]:
                        return
                    uses.setdefault(pl["l"], []).append(pl)
                    for e in pl["proj"]:
                        if isinstance(e, dict) and "idx" in e:
                            uses.setdefault(e["idx"], []).append({"l": e["idx"], "proj": ["<idx>"]})
                _walk_places(s, note)
        t = b["term"]
        if t["k"] == "call" and not t["dest"]["proj"]:
            defs.setdefault(t["dest"]["l"], []).append(("call", bi, None, t))

        def note_t(pl, t=t):
            if t["k"] == "call" and pl is t.get("dest") and not pl["proj"]:
                return
            uses.setdefault(pl["l"], []).append(pl)
        _walk_places(t, note_t)
    envs = {}
    for l, ds in defs.items():
        if len(ds) == 1 and ds[0][0] == "stmt":
            rv = ds[0][3]["rv"]
            if "agg" in rv and isinstance(rv["agg"], dict) and "closure" in rv["agg"]:
                ops = rv["ops"]
                if all(("const" in o) or ((o.get("move") or o.get("copy")) is not None) for o in ops):
                    envs[l] = ops
    if not envs:
        return None
    nd = None
    done = []
    for E, ops in envs.items():
        # aliases: R = &E / &mut E / &*R' / move R'
        alias = {}
        grew = True
        while grew:
            grew = False
            for l, ds in defs.items():
                if l in alias or l == E or len(ds) != 1 or ds[0][0] != "stmt":
                    continue
                rv = ds[0][3]["rv"]
                if "ref" in rv:
                    rp = rv["ref"]
                    if rp["l"] == E and not rp["proj"]:
                        alias[l] = True
                        grew = True
                    elif rp["l"] in alias and rp["proj"] == ["deref"]:
                        alias[l] = True
                        grew = True
                elif "use" in rv:
                    p2 = rv["use"].get("move") or rv["use"].get("copy")
                    if p2 is not None and not p2["proj"] and p2["l"] in alias:
                        alias[l] = True
                        grew = True
        ok = True
        for a in alias:
            for pl in uses.get(a, []):
                pj = pl["proj"]
                if not pj:
                    continue        # moved / reborrowed into another alias (checked below) or passed on
                if pj == ["deref"]:
                    continue        # `&*R`
                if not (len(pj) >= 2 and pj[0] == "deref" and isinstance(pj[1], dict) and "f" in pj[1] and pj[1]["f"] < len(ops)):
                    ok = False
        # every whole use of an alias or of E must be one of the defining statements of an alias (no call takes them)
        alias_def_rvs = [id(defs[a][0][3]["rv"]) for a in alias]
        for bi, b in enumerate(blocks):
            if b.get("cleanup"):
                continue
            t = b["term"]
            if t["k"] == "call":
                for o in t["args"]:
                    pl = o.get("move") or o.get("copy")
                    if pl is not None and not pl["proj"] and (pl["l"] in alias or pl["l"] == E):
                        ok = False
        for pl in uses.get(E, []):
            pj = pl["proj"]
            if pj and not (isinstance(pj[0], dict) and "f" in pj[0] and pj[0]["f"] < len(ops)):
                ok = False
        if not ok or not alias:
            continue
        if nd is None:
            nd = dict(d)
            nd["blocks"] = copy.deepcopy(blocks)

        def sub(pl, E=E, ops=ops, alias=alias):
            pj = pl["proj"]
            k = None
            rest = None
            if pl["l"] in alias and len(pj) >= 2 and pj[0] == "deref" and isinstance(pj[1], dict) and "f" in pj[1]:
                k, rest = pj[1]["f"], pj[2:]
            elif pl["l"] == E and pj and isinstance(pj[0], dict) and "f" in pj[0]:
                k, rest = pj[0]["f"], pj[1:]
            if k is None:
                return
            o = ops[k]
            src = o.get("move") or o.get("copy")
            if src is None:
                return          # a constant capture read through the environment stays as it is
            pl["l"] = src["l"]
            pl["proj"] = copy.deepcopy(src["proj"]) + rest
        for b in nd["blocks"]:
            if b.get("cleanup"):
                continue
            for s in b["stmts"]:
                _walk_places(s, sub)
            _walk_places(b["term"], sub)
        done.append(E)
    if nd is None or not done:
        return None
    nd["forwarded_envs"] = done
    return nd


def propagate_ref_copies(f):
    """`r2 = copy r` (both references, both defined once, r2 only dereferenced): `(*r2)` reads and writes become `(*r)`"""
    d = f.d
    blocks = d["blocks"]
    locals_ = d["locals"]
    defs, whole, derefd = {}, {}, {}
    for bi, b in enumerate(blocks):
        if b.get("cleanup"):
            continue
        for si, s in enumerate(b["stmts"]):
            if s["k"] != "assign":
                continue
            if not s["place"]["proj"]:
                defs.setdefault(s["place"]["l"], []).append((bi, si, s["rv"]))

            def note(pl, s=s):
                if pl is s["place"] and not pl["proj"]:
                    return
                (derefd if pl["proj"] and pl["proj"][0] == "deref" else whole).setdefault(pl["l"], []).append((bi, si))
            _walk_places(s, note)
        t = b["term"]
        if t["k"] == "call" and not t["dest"]["proj"]:
            defs.setdefault(t["dest"]["l"], []).append((bi, None, None))

        def note_t(pl, t=t):
            if t["k"] == "call" and pl is t.get("dest") and not pl["proj"]:
                return
            (derefd if pl["proj"] and pl["proj"][0] == "deref" else whole).setdefault(pl["l"], []).append((bi, len(b["stmts"])))
        _walk_places(t, note_t)
    amap = {}
    for r2, ds in defs.items():
        if len(ds) != 1 or ds[0][2] is None or "use" not in ds[0][2] or whole.get(r2) or not derefd.get(r2):
            continue
        if r2 >= len(locals_) or not locals_[r2]["ty"].startswith("&"):
            continue
        src = ds[0][2]["use"].get("copy") or ds[0][2]["use"].get("move")
        if src is None or src["proj"] or len(defs.get(src["l"], [])) != 1 or src["l"] <= d.get("arg_count", 0):
            continue
        dpos = (ds[0][0], ds[0][1])
        if all(_dominates_pos(f, dpos, u) for u in derefd[r2]):
            amap[r2] = src["l"]
    if not amap:
        return None
    nd = dict(d)
    nd["blocks"] = copy.deepcopy(blocks)

    def sub(pl):
        if pl["l"] in amap and pl["proj"] and pl["proj"][0] == "deref":
            pl["l"] = amap[pl["l"]]
    for b in nd["blocks"]:
        if b.get("cleanup"):
            continue
        for s in b["stmts"]:
            _walk_places(s, sub)
        _walk_places(b["term"], sub)
    nd["propagated_refs"] = sorted(amap)
    return nd


def drop_dead_defs(f):
    """remove assignments of pure rvalues (copies, references, aggregates) to locals that nothing reads any more (what is left
    of a closure environment after its captures were forwarded)"""
    d = f.d
    nd = None
    for _ in range(6):
        blocks = (nd or d)["blocks"]
        used = set()
        for b in blocks:
            if b.get("cleanup"):
                continue
            for s in b["stmts"]:
                if s["k"] != "assign":
                    continue

                def note(pl, s=s):
                    if pl is s["place"] and not pl["proj"]:
                        return
                    used.add(pl["l"])
                    for e in pl["proj"]:
                        if isinstance(e, dict) and "idx" in e:
                            used.add(e["idx"])
                _walk_places(s, note)
            t = b["term"]

            def note_t(pl, t=t):
                if t["k"] == "call" and pl is t.get("dest") and not pl["proj"]:
                    return
                used.add(pl["l"])
                for e in pl["proj"]:
                    if isinstance(e, dict) and "idx" in e:
                        used.add(e["idx"])
            _walk_places(t, note_t)
        dead = []
        for bi, b in enumerate(blocks):
            if b.get("cleanup"):
                continue
            for si, s in enumerate(b["stmts"]):
                if s["k"] == "assign" and not s["place"]["proj"] and s["place"]["l"] not in used and s["place"]["l"] != 0 and \
                        s["place"]["l"] > d.get("arg_count", 0) and any(k in s["rv"] for k in ("use", "ref", "agg")) and \
                        d["locals"][s["place"]["l"]].get("name") is None:
                    dead.append((bi, si))
        if not dead:
            break
        if nd is None:
            nd = dict(d)
            nd["blocks"] = copy.deepcopy(d["blocks"])
        for (bi, si) in sorted(dead, reverse=True):
            del nd["blocks"][bi]["stmts"][si]
    return nd


def normalise(F):
    changed = {}
    for p, f in list(F.fns.items()):
        nd0 = forward_env(f) if f.d.get("inlined") or f.d.get("desugared") else None
        if nd0 is not None:
            f = type(f)(nd0, F)
            F.fns[p] = f
            changed[p] = ["env:%d" % e for e in nd0["forwarded_envs"]]
            for _ in range(3):
                nd1 = propagate_ref_copies(f)
                if nd1 is None:
                    break
                f = type(f)(nd1, F)
                F.fns[p] = f
            nd2 = drop_dead_defs(f)
            if nd2 is not None:
                f = type(f)(nd2, F)
                F.fns[p] = f
        nd0 = None
        if nd0 is not None:
            f = type(f)(nd0, F)
            F.fns[p] = f
            changed[p] = ["env:%d" % e for e in nd0["forwarded_envs"]]
        for _ in range(4):
            nd = forward(f)
            if nd is None:
                break
            f = type(f)(nd, F)
            F.fns[p] = f
            changed[p] = changed.get(p, []) + [str(x) for x in nd["forwarded_refs"]]
    return changed
