"""Desugaring of closure-taking std combinators and iterator pipelines into explicit control flow (a normalisation pass
over the fact base, run before helper inlining).

A maintainer who rewrites `for x in xs { if p(x) { acc += f(x) } }` as `xs.iter().filter(p).map(f).sum()`, or a nested
`match` as `opt.map_or_else(g, f)`, does not change behaviour; the rule templates, however, are written over loops, guards and
assignments.  This pass rewrites, in the MIR of the fact base,

  A. combinators on Option / Result / bool whose argument is a closure (or function item) known at the call site:
       Option::map, map_or, map_or_else, and_then, unwrap_or_else, filter, Option::flatten, bool::then, bool::then_some,
       Result::map, map_err, and_then, unwrap_or_else
     into a switch on the discriminant with a *direct call* of the closure in the arm that runs it;
  B. iterator pipelines  source .stage* .sink  with stages map / filter / filter_map / copied / cloned / inspect and sinks
       sum, count, for_each, fold, collect::<Vec<_>>, find, position
     into the loop rustc emits for `for item in source { .. }` (same shape: `next()` call, switch on its discriminant), with
     direct calls of the stage closures in the loop body.

The direct closure calls are then spliced by sa/inline.py like any private helper.  Nothing is executed; the rewriting is the
definition of these std functions (their documented semantics are the trusted base, as for every other std call the rules
name).  Functions whose *reference idiom* is a chain (the token expansion, the FromIterator impls, the combo tables) are left
alone: their rules are written over the chain.  `all` / `any` / `is_some_and` are never rewritten (rules match them as calls).
"""
import copy

KEEP_CHAINS = (
    "<hand_range::hand_range_token::HandRangeToken as std::iter::IntoIterator>::into_iter",
    "<card::rank_range::RankRange as std::iter::IntoIterator>::into_iter",
    "<card::suit_range::SuitRange as std::iter::IntoIterator>::into_iter",
    "<hand_range::hand_range::HandRange as std::iter::FromIterator<",
)


def _pl(l, proj=None):
    return {"l": l, "proj": list(proj or [])}


def _mv(l, proj=None):
    return {"move": _pl(l, proj)}


def _cp(l, proj=None):
    return {"copy": _pl(l, proj)}


def _assign(place, rv, line):
    return {"k": "assign", "place": place, "rv": rv, "line": line, "exp": False, "syn": True}


def _variant(name, vidx, fty, oty):
    return [{"variant": name, "vidx": vidx}, {"f": 0, "ty": fty, "name": "0", "of": oty}]


class Rewriter:
    def __init__(self, F, d):
        self.F = F
        self.d = d
        self.blocks = d["blocks"]
        self.locals = d["locals"]
        self.changed = False

    # ---- helpers ---------------------------------------------------------------------------------
    def new_local(self, ty, name=None):
        self.locals.append({"ty": ty, "name": name, "mut": True, "syn": True})
        return len(self.locals) - 1

    def new_block(self, line, stmts=None, term=None):
        self.blocks.append({"stmts": stmts or [], "term": term or {"k": "unreachable"}, "line": line, "exp": False,
                            "cleanup": False, "syn": True})
        return len(self.blocks) - 1

    def defs_of(self, l):
        out = []
        for bi, b in enumerate(self.blocks):
            for s in b["stmts"]:
                if s["k"] == "assign" and s["place"]["l"] == l and not s["place"]["proj"]:
                    out.append(("stmt", bi, s))
            t = b["term"]
            if t["k"] == "call" and t.get("dest") and t["dest"]["l"] == l and not t["dest"]["proj"]:
                out.append(("call", bi, t))
        return out

    def callable_of(self, op):
        """('closure', path, local) / ('fn', path, None) when the operand is a closure aggregate defined once, or a fn item"""
        if "const" in op:
            c = op["const"]
            if "fn" in c:
                return ("fn", c.get("fn_path", c["fn"]), None, c)
            return None
        pl = op.get("move") or op.get("copy")
        if pl is None or pl["proj"]:
            return None
        l = pl["l"]
        for _ in range(4):
            ds = self.defs_of(l)
            if len(ds) != 1 or ds[0][0] != "stmt":
                return None
            rv = ds[0][2]["rv"]
            if "agg" in rv and isinstance(rv["agg"], dict) and "closure" in rv["agg"]:
                path = rv["agg"]["closure"]
                if path in self.F.fns:
                    return ("closure", path, l, None)
                return None
            if "use" in rv:
                p2 = rv["use"].get("move") or rv["use"].get("copy")
                if p2 is not None and not p2["proj"]:
                    l = p2["l"]
                    continue
                if "const" in rv["use"] and "fn" in rv["use"]["const"]:
                    c = rv["use"]["const"]
                    return ("fn", c.get("fn_path", c["fn"]), None, c)
            return None
        return None

    def call_callable(self, cb, args, dest_local, to, line, stmts):
        """terminator + statements that call callable `cb` with operand list `args`, result into dest_local"""
        kind, path, clo_local, const = cb
        if kind == "closure":
            g = self.F.fns[path]
            env_ty = g.local_ty(1)
            if env_ty.startswith("&mut "):
                e = self.new_local(env_ty)
                stmts.append(_assign(_pl(e), {"ref": _pl(clo_local), "mut": True}, line))
                env = _mv(e)
            elif env_ty.startswith("&"):
                e = self.new_local(env_ty)
                stmts.append(_assign(_pl(e), {"ref": _pl(clo_local), "mut": False}, line))
                env = _mv(e)
            else:
                env = _mv(clo_local)
            callee = {"path": path, "full": path, "name": path.rsplit("::", 1)[-1], "trait": None, "local": True,
                      "resolved": path, "resolved_local": True, "resolved_kind": "Item", "generic_args": [], "bound_impls": [],
                      "syn": "closure"}
            return {"k": "call", "callee": callee, "args": [env] + args, "dest": _pl(dest_local), "to": to, "syn": True}
        # function item
        local = path in self.F.fns
        callee = {"path": path, "full": const.get("fn", path), "name": path.rsplit("::", 1)[-1], "trait": None, "local": local,
                  "resolved": path, "resolved_local": local, "resolved_kind": "Item", "generic_args": [], "bound_impls": [], "syn": "fn"}
        return {"k": "call", "callee": callee, "args": args, "dest": _pl(dest_local), "to": to, "syn": True}

    def ret_ty(self, cb):
        kind, path, _l, const = cb
        g = self.F.fns.get(path)
        return g.local_ty(0) if g is not None else "?"

    def param_ty(self, cb, k):
        kind, path, _l, const = cb
        g = self.F.fns.get(path)
        if g is None:
            return "?"
        idx = k + (2 if kind == "closure" else 1)
        return g.local_ty(idx) if idx <= g.arg_count else "?"

    # ---- A. Option / Result / bool combinators -----------------------------------------------------
    def rewrite_combinator(self, bi):
        b = self.blocks[bi]
        t = b["term"]
        c = t["callee"]
        path = c.get("resolved") or c.get("path") or ""
        name = c.get("name")
        if t.get("to") is None or t["dest"]["proj"]:
            return False
        line = b["line"]
        dest = t["dest"]["l"]
        dty = self.locals[dest]["ty"]
        if name == "branch" and (c.get("trait") or "").endswith("ops::Try") and len(t["args"]) == 1:
            return self.rewrite_try_branch(bi)
        is_opt = path.startswith("std::option::Option::<T>::")
        is_res = path.startswith("std::result::Result::<T, E>::")
        is_bool = path.startswith("core::bool::<impl bool>::") or path.startswith("std::bool::<impl bool>::")
        args = t["args"]
        if not (is_opt or is_res or is_bool):
            return False
        subj = args[0].get("move") or args[0].get("copy")
        if subj is None or subj["proj"]:
            return False
        S = subj["l"]
        sty = self.locals[S]["ty"]
        after = t["to"]

        def arm_blocks(n):
            return [self.new_block(line) for _ in range(n)]
        if is_bool and name in ("then", "then_some") and len(args) == 2:
            cb = self.callable_of(args[1]) if name == "then" else None
            if name == "then" and cb is None:
                return False
            bt, bf = arm_blocks(2)
            b["term"] = {"k": "switch", "on": _cp(S), "ty": "bool", "arms": [[0, bf]], "otherwise": bt, "syn": True}
            self.blocks[bf]["stmts"].append(_assign(_pl(dest), {"agg": {"adt": "std::option::Option", "variant": "None", "vidx": 0, "local": False}, "ops": []}, line))
            self.blocks[bf]["term"] = {"k": "goto", "to": after}
            if name == "then":
                r = self.new_local(self.ret_ty(cb))
                fin = self.new_block(line, [_assign(_pl(dest), {"agg": {"adt": "std::option::Option", "variant": "Some", "vidx": 1, "local": False}, "ops": [_mv(r)]}, line)],
                                     {"k": "goto", "to": after})
                st = self.blocks[bt]["stmts"]
                self.blocks[bt]["term"] = self.call_callable(cb, [], r, fin, line, st)
            else:
                self.blocks[bt]["stmts"].append(_assign(_pl(dest), {"agg": {"adt": "std::option::Option", "variant": "Some", "vidx": 1, "local": False}, "ops": [args[1]]}, line))
                self.blocks[bt]["term"] = {"k": "goto", "to": after}
            return True
        if not (is_opt or is_res):
            return False
        none_name, some_name = ("None", "Some") if is_opt else ("Err", "Ok")
        some_idx = 1 if is_opt else 0
        none_idx = 0 if is_opt else 1
        adt = "std::option::Option" if is_opt else "std::result::Result"

        def some_agg(op, variant=some_name, vidx=some_idx, a=adt):
            return {"agg": {"adt": a, "variant": variant, "vidx": vidx, "local": False}, "ops": [op]}

        def switch_on_subject():
            dl = self.new_local("isize")
            b["stmts"].append(_assign(_pl(dl), {"discr": _pl(S)}, line))
            bs, bn, bu = arm_blocks(3)
            b["term"] = {"k": "switch", "on": _mv(dl), "ty": "isize", "arms": [[none_idx, bn], [some_idx, bs]], "otherwise": bu, "syn": True}
            return bs, bn

        def payload(block, variant, vidx, ty):
            p = self.new_local(ty)
            self.blocks[block]["stmts"].append(_assign(_pl(p), {"use": _mv(S, _variant(variant, vidx, ty, sty))}, line))
            return p
        want = {
            "map": 2, "map_or": 3, "map_or_else": 3, "and_then": 2, "unwrap_or_else": 2, "filter": 2, "flatten": 1, "map_err": 2,
            "ok": 1, "ok_or": 2, "ok_or_else": 2,
        }
        if name not in want or len(args) != want[name]:
            return False
        if name == "ok" and is_res:
            # Result::ok: Ok(v) -> Some(v), Err(_) -> None
            inner = dty[len("std::option::Option<"):-1] if dty.startswith("std::option::Option<") else "?"
            bs, bn = switch_on_subject()
            v = payload(bs, "Ok", 0, inner)
            self.blocks[bs]["stmts"].append(_assign(_pl(dest), {"agg": {"adt": "std::option::Option", "variant": "Some", "vidx": 1, "local": False}, "ops": [_mv(v)]}, line))
            self.blocks[bs]["term"] = {"k": "goto", "to": after}
            self.blocks[bn]["stmts"].append(_assign(_pl(dest), {"agg": {"adt": "std::option::Option", "variant": "None", "vidx": 0, "local": False}, "ops": []}, line))
            self.blocks[bn]["term"] = {"k": "goto", "to": after}
            return True
        if name == "ok_or" and is_opt:
            # Option::ok_or(e): Some(v) -> Ok(v), None -> Err(e)
            bs, bn = switch_on_subject()
            v = payload(bs, "Some", 1, "?")
            self.blocks[bs]["stmts"].append(_assign(_pl(dest), {"agg": {"adt": "std::result::Result", "variant": "Ok", "vidx": 0, "local": False}, "ops": [_mv(v)]}, line))
            self.blocks[bs]["term"] = {"k": "goto", "to": after}
            self.blocks[bn]["stmts"].append(_assign(_pl(dest), {"agg": {"adt": "std::result::Result", "variant": "Err", "vidx": 1, "local": False}, "ops": [args[1]]}, line))
            self.blocks[bn]["term"] = {"k": "goto", "to": after}
            return True
        if name == "ok_or_else" and is_opt:
            # Option::ok_or_else(f): Some(v) -> Ok(v), None -> Err(f())
            cbe = self.callable_of(args[1])
            if cbe is None:
                return False
            bs, bn = switch_on_subject()
            v = payload(bs, "Some", 1, "?")
            self.blocks[bs]["stmts"].append(_assign(_pl(dest), {"agg": {"adt": "std::result::Result", "variant": "Ok", "vidx": 0, "local": False}, "ops": [_mv(v)]}, line))
            self.blocks[bs]["term"] = {"k": "goto", "to": after}
            e = self.new_local(self.ret_ty(cbe))
            fin = self.new_block(line, [_assign(_pl(dest), {"agg": {"adt": "std::result::Result", "variant": "Err", "vidx": 1, "local": False}, "ops": [_mv(e)]}, line)],
                                 {"k": "goto", "to": after})
            self.blocks[bn]["term"] = self.call_callable(cbe, [], e, fin, line, self.blocks[bn]["stmts"])
            return True
        if name in ("ok", "ok_or", "ok_or_else"):
            return False
        if name == "flatten":
            if not is_opt:
                return False
            bs, bn = switch_on_subject()
            p = payload(bs, "Some", 1, dty)
            self.blocks[bs]["stmts"].append(_assign(_pl(dest), {"use": _mv(p)}, line))
            self.blocks[bs]["term"] = {"k": "goto", "to": after}
            self.blocks[bn]["stmts"].append(_assign(_pl(dest), {"agg": {"adt": adt, "variant": "None", "vidx": 0, "local": False}, "ops": []}, line))
            self.blocks[bn]["term"] = {"k": "goto", "to": after}
            return True
        cb = self.callable_of(args[-1])
        if cb is None or cb[0] != "closure":
            return False        # a function item passed to a combinator is already a named call the rules can read
        if name == "map_or_else":
            cb_none = self.callable_of(args[1])
            if cb_none is None:
                return False
        if name == "filter" and not is_opt:
            return False
        if name == "map_err" and not is_res:
            return False
        bs, bn = switch_on_subject()
        if name == "map_err":
            # Ok(v) -> Ok(v); Err(e) -> Err(f(e))
            pty = self.param_ty(cb, 0)
            e = payload(bn, "Err", 1, pty)
            r = self.new_local(self.ret_ty(cb))
            fin = self.new_block(line, [_assign(_pl(dest), some_agg(_mv(r), "Err", 1), line)], {"k": "goto", "to": after})
            self.blocks[bn]["term"] = self.call_callable(cb, [_mv(e)], r, fin, line, self.blocks[bn]["stmts"])
            v = payload(bs, "Ok", 0, "?")
            self.blocks[bs]["stmts"].append(_assign(_pl(dest), some_agg(_mv(v), "Ok", 0), line))
            self.blocks[bs]["term"] = {"k": "goto", "to": after}
            return True
        pty = self.param_ty(cb, 0)
        p = payload(bs, some_name, some_idx, pty)
        r = self.new_local(self.ret_ty(cb))
        if name in ("map",):
            fin = self.new_block(line, [_assign(_pl(dest), some_agg(_mv(r)), line)], {"k": "goto", "to": after})
            self.blocks[bs]["term"] = self.call_callable(cb, [_mv(p)], r, fin, line, self.blocks[bs]["stmts"])
            if is_opt:
                self.blocks[bn]["stmts"].append(_assign(_pl(dest), {"agg": {"adt": adt, "variant": "None", "vidx": 0, "local": False}, "ops": []}, line))
            else:
                e = payload(bn, "Err", 1, "?")
                self.blocks[bn]["stmts"].append(_assign(_pl(dest), some_agg(_mv(e), "Err", 1), line))
            self.blocks[bn]["term"] = {"k": "goto", "to": after}
            return True
        if name == "and_then":
            self.blocks[bs]["term"] = self.call_callable(cb, [_mv(p)], dest, after, line, self.blocks[bs]["stmts"])
            if is_opt:
                self.blocks[bn]["stmts"].append(_assign(_pl(dest), {"agg": {"adt": adt, "variant": "None", "vidx": 0, "local": False}, "ops": []}, line))
            else:
                e = payload(bn, "Err", 1, "?")
                self.blocks[bn]["stmts"].append(_assign(_pl(dest), some_agg(_mv(e), "Err", 1), line))
            self.blocks[bn]["term"] = {"k": "goto", "to": after}
            return True
        if name == "map_or":
            self.blocks[bs]["term"] = self.call_callable(cb, [_mv(p)], dest, after, line, self.blocks[bs]["stmts"])
            self.blocks[bn]["stmts"].append(_assign(_pl(dest), {"use": args[1]}, line))
            self.blocks[bn]["term"] = {"k": "goto", "to": after}
            return True
        if name == "map_or_else":
            self.blocks[bs]["term"] = self.call_callable(cb, [_mv(p)], dest, after, line, self.blocks[bs]["stmts"])
            nargs = []
            if is_res:
                e = payload(bn, "Err", 1, self.param_ty(cb_none, 0))
                nargs = [_mv(e)]
            self.blocks[bn]["term"] = self.call_callable(cb_none, nargs, dest, after, line, self.blocks[bn]["stmts"])
            return True
        if name == "unwrap_or_else":
            # Some(v) -> v ; None -> f()
            del self.blocks[bs]["stmts"][-1]          # payload typed by the closure's parameter: retype from dest
            v = payload(bs, some_name, some_idx, dty)
            self.blocks[bs]["stmts"].append(_assign(_pl(dest), {"use": _mv(v)}, line))
            self.blocks[bs]["term"] = {"k": "goto", "to": after}
            nargs = []
            if is_res:
                e = payload(bn, "Err", 1, self.param_ty(cb, 0))
                nargs = [_mv(e)]
            self.blocks[bn]["term"] = self.call_callable(cb, nargs, dest, after, line, self.blocks[bn]["stmts"])
            return True
        if name == "filter":
            # Some(v) if p(&v) -> Some(v) else None
            ref = self.new_local("&" + pty.lstrip("&") if not pty.startswith("&") else pty)
            self.blocks[bs]["stmts"].append(_assign(_pl(ref), {"ref": _pl(p), "mut": False}, line))
            keep = self.new_local("bool")
            test = self.new_block(line)
            yes = self.new_block(line, [_assign(_pl(dest), some_agg(_mv(p)), line)], {"k": "goto", "to": after})
            self.blocks[bs]["term"] = self.call_callable(cb, [_mv(ref)], keep, test, line, self.blocks[bs]["stmts"])
            self.blocks[test]["term"] = {"k": "switch", "on": _mv(keep), "ty": "bool", "arms": [[0, bn]], "otherwise": yes, "syn": True}
            self.blocks[bn]["stmts"].append(_assign(_pl(dest), {"agg": {"adt": adt, "variant": "None", "vidx": 0, "local": False}, "ops": []}, line))
            self.blocks[bn]["term"] = {"k": "goto", "to": after}
            return True
        return False

    def rewrite_try_branch(self, bi):
        """`x?`: Try::branch(x) of an Option / Result is `match x { Some(v)|Ok(v) => Continue(v), None => Break(None),
        Err(e) => Break(Err(e)) }` -- pure control flow, so that the test behind a `?` is an ordinary discriminant switch"""
        b = self.blocks[bi]
        t = b["term"]
        full = t["callee"].get("full") or ""
        line = b["line"]
        if t.get("to") is None or t["dest"]["proj"]:
            return False
        subj = t["args"][0].get("move") or t["args"][0].get("copy")
        if subj is None or subj["proj"]:
            return False
        S = subj["l"]
        sty = self.locals[S]["ty"]
        if sty.startswith("std::option::Option<"):
            is_opt = True
        elif sty.startswith("std::result::Result<"):
            is_opt = False
        else:
            return False
        dest = t["dest"]["l"]
        after = t["to"]
        dl = self.new_local("isize")
        b["stmts"].append(_assign(_pl(dl), {"discr": _pl(S)}, line))
        bs, bn, bu = self.new_block(line), self.new_block(line), self.new_block(line)
        some_idx, none_idx = (1, 0) if is_opt else (0, 1)
        b["term"] = {"k": "switch", "on": _mv(dl), "ty": "isize", "arms": [[none_idx, bn], [some_idx, bs]], "otherwise": bu, "syn": True}
        v = self.new_local("?")
        self.blocks[bs]["stmts"].append(_assign(_pl(v), {"use": _mv(S, _variant("Some" if is_opt else "Ok", some_idx, "?", sty))}, line))
        self.blocks[bs]["stmts"].append(_assign(_pl(dest), {"agg": {"adt": "std::ops::ControlFlow", "variant": "Continue", "vidx": 0, "local": False}, "ops": [_mv(v)]}, line))
        self.blocks[bs]["term"] = {"k": "goto", "to": after}
        r = self.new_local(sty)
        if is_opt:
            self.blocks[bn]["stmts"].append(_assign(_pl(r), {"agg": {"adt": "std::option::Option", "variant": "None", "vidx": 0, "local": False}, "ops": []}, line))
        else:
            e = self.new_local("?")
            self.blocks[bn]["stmts"].append(_assign(_pl(e), {"use": _mv(S, _variant("Err", 1, "?", sty))}, line))
            self.blocks[bn]["stmts"].append(_assign(_pl(r), {"agg": {"adt": "std::result::Result", "variant": "Err", "vidx": 1, "local": False}, "ops": [_mv(e)]}, line))
        self.blocks[bn]["stmts"].append(_assign(_pl(dest), {"agg": {"adt": "std::ops::ControlFlow", "variant": "Break", "vidx": 1, "local": False}, "ops": [_mv(r)]}, line))
        self.blocks[bn]["term"] = {"k": "goto", "to": after}
        return True

    # ---- C. a local closure called on the spot ------------------------------------------------------------
    def rewrite_closure_call(self, bi):
        """`Fn::call(&c, (a, ..))` / `FnMut::call_mut` / `FnOnce::call_once` where c is a closure aggregate of this body: the
        direct call of the closure's body (spliced by the inliner)"""
        b = self.blocks[bi]
        t = b["term"]
        c = t["callee"]
        path = c.get("path") or ""
        if path not in ("std::ops::Fn::call", "std::ops::FnMut::call_mut", "std::ops::FnOnce::call_once") or len(t["args"]) != 2:
            return False
        if t.get("to") is None or t["dest"]["proj"]:
            return False
        # the callee: `&c`, `&mut c` or `c`
        op = t["args"][0]
        pl = op.get("move") or op.get("copy")
        if pl is None or pl["proj"]:
            return False
        l = pl["l"]
        ds = self.defs_of(l)
        if len(ds) == 1 and ds[0][0] == "stmt" and "ref" in ds[0][2]["rv"] and not ds[0][2]["rv"]["ref"]["proj"]:
            l = ds[0][2]["rv"]["ref"]["l"]
        cb = self.callable_of(_mv(l))
        if cb is None or cb[0] != "closure":
            return False
        # the argument tuple
        ap = t["args"][1].get("move") or t["args"][1].get("copy")
        if ap is None or ap["proj"]:
            return False
        ads = self.defs_of(ap["l"])
        if len(ads) != 1 or ads[0][0] != "stmt" or ads[0][2]["rv"].get("agg") != "tuple":
            return False
        ops = list(ads[0][2]["rv"]["ops"])
        g = self.F.fns[cb[1]]
        if g.arg_count != 1 + len(ops):
            return False
        b["term"] = self.call_callable(cb, ops, t["dest"]["l"], t["to"], b["line"], b["stmts"])
        return True

    # ---- B. iterator pipelines ------------------------------------------------------------------------
    STAGES = ("map", "filter", "filter_map", "copied", "cloned", "inspect", "flat_map")
    SINKS = ("sum", "count", "for_each", "fold", "collect", "find", "position")
    PREFILTER = ("rposition",)

    def producer_call(self, op):
        """(block index, terminator) of the call that defines the operand's local (single definition), else None"""
        pl = op.get("move") or op.get("copy")
        if pl is None or pl["proj"]:
            return None
        l = pl["l"]
        for _ in range(3):
            ds = self.defs_of(l)
            if len(ds) != 1:
                return None
            if ds[0][0] == "call":
                return ds[0][1], ds[0][2]
            rv = ds[0][2]["rv"]
            if "use" in rv:
                p2 = rv["use"].get("move") or rv["use"].get("copy")
                if p2 is not None and not p2["proj"]:
                    l = p2["l"]
                    continue
            return None
        return None

    def linear_to(self, a, b_):
        """block a reaches block b_ through single-successor blocks only"""
        from .cfg import term_succs
        x = a
        for _ in range(64):
            if x == b_:
                return True
            ss = [t for _l, t in term_succs(self.blocks[x]["term"])]
            if len(ss) != 1:
                return False
            x = ss[0]
        return False

    @staticmethod
    def is_iterator_ty(ty):
        """std iterator types (adaptors and the IntoIter / Iter structs): `next` can be called on them directly"""
        return ty.startswith("std::iter::") or ty.split("<")[0].rsplit("::", 1)[-1] in ("IntoIter", "Iter", "IterMut", "Chars", "Bytes", "Range", "RangeInclusive")

    def new_loop(self, Y, it_ty, line):
        """blocks of `loop { match Iterator::next(&mut Y) { None => break, Some(_) => body } }`: (header, body, exit, opt local)"""
        r_ref = self.new_local("&mut " + it_ty)
        opt = self.new_local("std::option::Option<?>")
        dl = self.new_local("isize")
        header = self.new_block(line)
        sw = self.new_block(line)
        body = self.new_block(line)
        exit_b = self.new_block(line)
        unreach = self.new_block(line)
        self.blocks[header]["stmts"].append(_assign(_pl(r_ref), {"ref": _pl(Y), "mut": True}, line))
        self.blocks[header]["term"] = {"k": "call", "callee": {"path": "std::iter::Iterator::next", "full": f"<{it_ty} as std::iter::Iterator>::next",
                                                                 "name": "next", "trait": "std::iter::Iterator", "local": False,
                                                                 "resolved": f"<{it_ty} as std::iter::Iterator>::next", "resolved_local": False,
                                                                 "resolved_kind": "Item", "generic_args": [it_ty], "bound_impls": [], "syn": True},
                                       "args": [_mv(r_ref)], "dest": _pl(opt), "to": sw, "syn": True}
        self.blocks[sw]["stmts"].append(_assign(_pl(dl), {"discr": _pl(opt)}, line))
        self.blocks[sw]["term"] = {"k": "switch", "on": _mv(dl), "ty": "isize", "arms": [[0, exit_b], [1, body]], "otherwise": unreach, "syn": True}
        return header, body, exit_b, opt

    def emit_stages(self, stages, cur_b, x, xty, cont, line):
        """apply the adaptor stages to item local x inside a loop whose `continue` target is block cont; returns the block the
        surviving item reaches, its local and type, and the (possibly inner, after flat_map) continue target"""
        header = cont
        for (sn, cb) in stages:
            if sn in ("copied", "cloned"):
                y = self.new_local(xty[1:] if xty.startswith("&") else xty)
                self.blocks[cur_b]["stmts"].append(_assign(_pl(y), {"use": _cp(x, ["deref"])}, line))
                x, xty = y, self.locals[y]["ty"]
            elif sn == "map":
                y = self.new_local(self.ret_ty(cb))
                nb = self.new_block(line)
                self.blocks[cur_b]["term"] = self.call_callable(cb, [_mv(x)], y, nb, line, self.blocks[cur_b]["stmts"])
                cur_b, x, xty = nb, y, self.locals[y]["ty"]
            elif sn in ("filter", "inspect"):
                ref = self.new_local("&" + xty)
                self.blocks[cur_b]["stmts"].append(_assign(_pl(ref), {"ref": _pl(x), "mut": False}, line))
                keep = self.new_local("bool" if sn == "filter" else "()")
                tb = self.new_block(line)
                self.blocks[cur_b]["term"] = self.call_callable(cb, [_mv(ref)], keep, tb, line, self.blocks[cur_b]["stmts"])
                if sn == "filter":
                    nb = self.new_block(line)
                    self.blocks[tb]["term"] = {"k": "switch", "on": _mv(keep), "ty": "bool", "arms": [[0, header]], "otherwise": nb, "syn": True}
                    cur_b = nb
                else:
                    cur_b = tb
            elif sn == "flat_map":
                # for x in outer { for z in f(x) { .. } }: the closure's result is the inner loop's iterator
                ity = self.ret_ty(cb)
                y = self.new_local(ity)
                nb = self.new_block(line)
                self.blocks[cur_b]["term"] = self.call_callable(cb, [_mv(x)], y, nb, line, self.blocks[cur_b]["stmts"])
                h2, body2, exit2, opt2 = self.new_loop(y, ity, line)
                self.blocks[nb]["term"] = {"k": "goto", "to": h2, "syn": True}
                self.blocks[exit2]["term"] = {"k": "goto", "to": header, "syn": True}
                z = self.new_local("?")
                self.blocks[body2]["stmts"].append(_assign(_pl(z), {"use": _mv(opt2, _variant("Some", 1, "?", "std::option::Option<?>"))}, line))
                cur_b, x, xty, header = body2, z, "?", h2
            elif sn == "filter_map":
                oty = self.ret_ty(cb)
                o = self.new_local(oty)
                tb = self.new_block(line)
                self.blocks[cur_b]["term"] = self.call_callable(cb, [_mv(x)], o, tb, line, self.blocks[cur_b]["stmts"])
                d2 = self.new_local("isize")
                self.blocks[tb]["stmts"].append(_assign(_pl(d2), {"discr": _pl(o)}, line))
                nb = self.new_block(line)
                u2 = self.new_block(line)
                self.blocks[tb]["term"] = {"k": "switch", "on": _mv(d2), "ty": "isize", "arms": [[0, header], [1, nb]], "otherwise": u2, "syn": True}
                inner = oty[len("std::option::Option<"):-1] if oty.startswith("std::option::Option<") else "?"
                y = self.new_local(inner)
                self.blocks[nb]["stmts"].append(_assign(_pl(y), {"use": _mv(o, _variant("Some", 1, inner, oty))}, line))
                cur_b, x, xty = nb, y, inner
        return cur_b, x, xty, header

    def rewrite_loop_source(self, bi):
        """`for y in src.map(f).filter(g) { body }`: the loop runs over `src` and the stages are applied to each item in front of
        the body (`for x in src { let y = f(x); if !g(&y) { continue }; body }`)"""
        b = self.blocks[bi]
        t = b["term"]
        c = t["callee"]
        if c.get("name") != "next" or not (c.get("trait") or "").endswith("iter::Iterator") or t.get("to") is None or t["dest"]["proj"]:
            return False
        if len(t["args"]) != 1:
            return False
        # receiver: `r = &mut Y` / `r2 = &mut *r` in this very block
        pl = t["args"][0].get("move") or t["args"][0].get("copy")
        if pl is None or pl["proj"]:
            return False
        ref_stmt = None
        l = pl["l"]
        for _ in range(3):
            ds = [s_ for s_ in b["stmts"] if s_["k"] == "assign" and s_["place"]["l"] == l and not s_["place"]["proj"]]
            if len(ds) != 1 or len(self.defs_of(l)) != 1 or "ref" not in ds[0]["rv"]:
                return False
            rp = ds[0]["rv"]["ref"]
            if not rp["proj"]:
                ref_stmt = ds[0]
                break
            if rp["proj"] != ["deref"]:
                return False
            l = rp["l"]
        if ref_stmt is None:
            return False
        Y = ref_stmt["rv"]["ref"]["l"]
        # producers of Y: moves, identity into_iter, adaptor stages with a known closure
        stages, drop_blocks = [], []
        cur = Y
        for _ in range(12):
            ds = self.defs_of(cur)
            if len(ds) != 1:
                break
            if ds[0][0] == "stmt":
                rv = ds[0][2]["rv"]
                p2 = (rv["use"].get("move") or rv["use"].get("copy")) if "use" in rv else None
                if p2 is None or p2["proj"]:
                    break
                cur = p2["l"]
                continue
            pb, pt = ds[0][1], ds[0][2]
            pn = pt["callee"].get("name")
            a0 = (pt["args"][0].get("move") or pt["args"][0].get("copy")) if pt["args"] else None
            if a0 is None or a0["proj"]:
                break
            if pn == "into_iter" and (pt["callee"].get("resolved") or pt["callee"].get("path")) == "<I as std::iter::IntoIterator>::into_iter":
                if not stages and not self.is_iterator_ty(self.locals[a0["l"]]["ty"]):
                    break
                drop_blocks.append((pb, a0["l"]))
                cur = a0["l"]
                continue
            if pn in self.STAGES and (pt["callee"].get("trait") or "").endswith("iter::Iterator"):
                cb = None
                if pn in ("map", "filter", "filter_map", "inspect", "flat_map"):
                    cb = self.callable_of(pt["args"][1]) if len(pt["args"]) == 2 else None
                    if cb is None:
                        break
                    if pn == "flat_map" and not self.is_iterator_ty(self.ret_ty(cb)):
                        break
                stages.append((pn, cb))
                drop_blocks.append((pb, a0["l"]))
                cur = a0["l"]
                continue
            break
        if not any(cb is not None for _n, cb in stages):
            return False
        # keep only the producers up to the innermost stage (a trailing identity into_iter of the source stays)
        while drop_blocks and stages and False:
            pass
        stages.reverse()
        # producers are straight-line predecessors of the loop, outside of it
        if any(pb == bi for pb, _s in drop_blocks):
            return False
        # the switch on the result
        swb = self.blocks[t["to"]]
        st = swb["term"]
        opt = t["dest"]["l"]
        if st["k"] != "switch":
            return False
        dread = [s_ for s_ in swb["stmts"] if s_["k"] == "assign" and "discr" in s_["rv"] and s_["rv"]["discr"] == {"l": opt, "proj": []}]
        arms = dict((v, tg) for v, tg in st["arms"])
        if len(dread) != 1 or 1 not in arms or 0 not in arms:
            return False
        line = b["line"]
        # innermost source: the first argument of the innermost dropped producer
        src_local = drop_blocks[-1][1]
        # trim: producers after the last closure stage (towards the source) are left in place if they are not stages
        for pb, _src in drop_blocks:
            pt = self.blocks[pb]["term"]
            self.blocks[pb]["term"] = {"k": "goto", "to": pt["to"], "syn": "stage-dropped"}
        ref_stmt["rv"]["ref"]["l"] = src_local
        opt2 = self.new_local("std::option::Option<?>")
        t["dest"] = _pl(opt2)
        dread[0]["rv"]["discr"] = {"l": opt2, "proj": []}
        first_ty = "?"
        if stages[0][1] is not None:
            first_ty = self.param_ty(stages[0][1], 0)
            if stages[0][0] in ("filter", "inspect"):
                first_ty = first_ty[1:] if first_ty.startswith("&") else first_ty
        x = self.new_local(first_ty)
        pre = self.new_block(line, [_assign(_pl(x), {"use": _mv(opt2, _variant("Some", 1, first_ty, "std::option::Option<" + first_ty + ">"))}, line)])
        cur_b, x, xty, cont = self.emit_stages(stages, pre, x, first_ty, bi, line)
        self.blocks[cur_b]["stmts"].append(_assign(_pl(opt), {"agg": {"adt": "std::option::Option", "variant": "Some", "vidx": 1, "local": False}, "ops": [_mv(x)]}, line))
        self.blocks[cur_b]["term"] = {"k": "goto", "to": arms[1], "syn": True}
        st["arms"] = [[v, (pre if v == 1 else tg)] for v, tg in st["arms"]]
        if cont != bi:
            # a flat_map stage: the body's `continue` (its back edges to this header) must continue the inner loop
            for ob in self.blocks:
                pass
        return True

    def _vec_place_of_iter(self, op):
        """the `&Vec<T>` place behind an iterator operand: `v.iter()` (slice::iter(deref(&v)) / slice::iter(&*deref(&v))) or `&v`;
        returns (place dict of v, dropped producer blocks) or None"""
        pl = op.get("move") or op.get("copy")
        if pl is None or pl["proj"]:
            return None
        drops = []
        l = pl["l"]
        for _ in range(8):
            ds = self.defs_of(l)
            if len(ds) != 1:
                return None
            if ds[0][0] == "stmt":
                rv = ds[0][2]["rv"]
                if "ref" in rv and not rv.get("mut"):
                    rp = rv["ref"]
                    if rp["proj"] == ["deref"]:
                        l = rp["l"]
                        continue
                    ty = self.locals[l]["ty"]
                    if ty.startswith("&std::vec::Vec<") and rp["proj"] and rp["proj"][0] == "deref" and rp["l"] <= self.d.get("arg_count", 0):
                        return copy.deepcopy(rp), drops
                    return None
                if "use" in rv:
                    p2 = rv["use"].get("move") or rv["use"].get("copy")
                    if p2 is None or p2["proj"]:
                        return None
                    l = p2["l"]
                    continue
                return None
            pb, pt = ds[0][1], ds[0][2]
            q = pt["callee"].get("resolved") or pt["callee"].get("path")
            if q in ("core::slice::<impl [T]>::iter", "<std::vec::Vec<T, A> as std::ops::Deref>::deref") and len(pt["args"]) == 1:
                a0 = pt["args"][0].get("move") or pt["args"][0].get("copy")
                if a0 is None or a0["proj"]:
                    return None
                drops.append(pb)
                l = a0["l"]
                continue
            return None
        return None

    def rewrite_rposition_zip(self, bi):
        """`a.iter().zip(&b).rposition(|(x, y)| p(x, y))` over two vectors reachable from a parameter: the index form
        `for i in (0..min(a.len(), b.len())).rev() { if p(&a[i], &b[i]) { return Some(i) } } None` (zip stops at the shorter
        vector, so the synthesized `a[i]` / `b[i]` cannot be out of bounds)"""
        b = self.blocks[bi]
        t = b["term"]
        c = t["callee"]
        if c.get("name") != "rposition" or not (c.get("trait") or "").endswith("iter::Iterator") or t.get("to") is None or t["dest"]["proj"] \
                or len(t["args"]) != 2:
            return False
        cb = self.callable_of(t["args"][1])
        if cb is None:
            return False
        # receiver: &mut Z, Z = zip(A, B)
        pl = t["args"][0].get("move") or t["args"][0].get("copy")
        if pl is None or pl["proj"]:
            return False
        ds = self.defs_of(pl["l"])
        if len(ds) != 1 or ds[0][0] != "stmt" or "ref" not in ds[0][2]["rv"] or ds[0][2]["rv"]["ref"]["proj"]:
            return False
        Z = ds[0][2]["rv"]["ref"]["l"]
        zd = self.defs_of(Z)
        if len(zd) != 1 or zd[0][0] != "call" or zd[0][2]["callee"].get("name") != "zip" or len(zd[0][2]["args"]) != 2:
            return False
        zb, zt = zd[0][1], zd[0][2]
        if not self.linear_to(zb, bi):
            return False
        A = self._vec_place_of_iter(zt["args"][0])
        B = self._vec_place_of_iter(zt["args"][1])
        if A is None or B is None:
            return False
        (pa, da), (pb_, db) = A, B
        line = b["line"]
        after = t["to"]
        dest = t["dest"]["l"]
        for x in da + db + [zb]:
            xt = self.blocks[x]["term"]
            self.blocks[x]["term"] = {"k": "goto", "to": xt["to"], "syn": "stage-dropped"}

        def std_call(path, name, trait, args, dst, to, gen=None):
            return {"k": "call", "callee": {"path": path, "full": path, "name": name, "trait": trait, "local": False, "resolved": path,
                                            "resolved_local": False, "resolved_kind": "Item", "generic_args": gen or [], "bound_impls": [], "syn": True},
                    "args": args, "dest": _pl(dst), "to": to, "syn": True}
        vty_a = self.locals[(zt["args"][0].get("move") or zt["args"][0].get("copy"))["l"]]["ty"]
        # lengths and the reversed index range
        ra, rb = self.new_local("&std::vec::Vec<?>"), self.new_local("&std::vec::Vec<?>")
        la, lb, hi = self.new_local("usize"), self.new_local("usize"), self.new_local("usize")
        rng = self.new_local("std::ops::Range<usize>")
        it = self.new_local("std::iter::Rev<std::ops::Range<usize>>")
        b1, b2, b3, b4 = self.new_block(line), self.new_block(line), self.new_block(line), self.new_block(line)
        b["stmts"].append(_assign(_pl(ra), {"ref": copy.deepcopy(pa), "mut": False}, line))
        b["term"] = std_call("std::vec::Vec::<T, A>::len", "len", None, [_mv(ra)], la, b1)
        self.blocks[b1]["stmts"].append(_assign(_pl(rb), {"ref": copy.deepcopy(pb_), "mut": False}, line))
        self.blocks[b1]["term"] = std_call("std::vec::Vec::<T, A>::len", "len", None, [_mv(rb)], lb, b2)
        self.blocks[b2]["term"] = std_call("std::cmp::min", "min", None, [_cp(la), _cp(lb)], hi, b3)
        self.blocks[b3]["stmts"].append(_assign(_pl(rng), {"agg": {"adt": "std::ops::Range", "variant": "Range", "vidx": 0, "local": False},
                                                            "ops": [{"const": {"int": 0, "ty": "usize"}}, _cp(hi)]}, line))
        self.blocks[b3]["term"] = std_call("std::iter::Iterator::rev", "rev", "std::iter::Iterator", [_mv(rng)], it, b4)
        header, body, exit_b, opt = self.new_loop(it, "std::iter::Rev<std::ops::Range<usize>>", line)
        self.blocks[b4]["term"] = {"k": "goto", "to": header, "syn": True}
        i = self.new_local("usize")
        self.blocks[body]["stmts"].append(_assign(_pl(i), {"use": _mv(opt, _variant("Some", 1, "usize", "std::option::Option<usize>"))}, line))
        ra2, rb2 = self.new_local("&std::vec::Vec<?>"), self.new_local("&std::vec::Vec<?>")
        ea, eb = self.new_local("&?"), self.new_local("&?")
        c1, c2, c3 = self.new_block(line), self.new_block(line), self.new_block(line)
        self.blocks[body]["stmts"].append(_assign(_pl(ra2), {"ref": copy.deepcopy(pa), "mut": False}, line))
        idx_path = "<std::vec::Vec<T, A> as std::ops::Index<I>>::index"
        self.blocks[body]["term"] = std_call(idx_path, "index", "std::ops::Index", [_mv(ra2), _cp(i)], ea, c1, gen=["std::vec::Vec<?>", "usize"])
        self.blocks[c1]["stmts"].append(_assign(_pl(rb2), {"ref": copy.deepcopy(pb_), "mut": False}, line))
        self.blocks[c1]["term"] = std_call(idx_path, "index", "std::ops::Index", [_mv(rb2), _cp(i)], eb, c2, gen=["std::vec::Vec<?>", "usize"])
        tup = self.new_local(self.param_ty(cb, 0))
        self.blocks[c2]["stmts"].append(_assign(_pl(tup), {"agg": "tuple", "ops": [_mv(ea), _mv(eb)]}, line))
        hit = self.new_local("bool")
        self.blocks[c2]["term"] = self.call_callable(cb, [_mv(tup)], hit, c3, line, self.blocks[c2]["stmts"])
        yes = self.new_block(line, [_assign(_pl(dest), {"agg": {"adt": "std::option::Option", "variant": "Some", "vidx": 1, "local": False}, "ops": [_cp(i)]}, line)],
                             {"k": "goto", "to": after})
        self.blocks[c3]["term"] = {"k": "switch", "on": _mv(hit), "ty": "bool", "arms": [[0, header]], "otherwise": yes, "syn": True}
        self.blocks[exit_b]["stmts"].append(_assign(_pl(dest), {"agg": {"adt": "std::option::Option", "variant": "None", "vidx": 0, "local": False}, "ops": []}, line))
        self.blocks[exit_b]["term"] = {"k": "goto", "to": after}
        return True

    def rewrite_pipeline(self, bi):
        b = self.blocks[bi]
        t = b["term"]
        c = t["callee"]
        name = c.get("name")
        if name not in self.SINKS or not (c.get("trait") or "").endswith("iter::Iterator") or t.get("to") is None or t["dest"]["proj"]:
            return False
        full = c.get("full") or ""
        dest = t["dest"]["l"]
        dty = self.locals[dest]["ty"]
        opt_vec = name == "collect" and dty.startswith("std::option::Option<std::vec::Vec<")
        if name == "collect" and not dty.startswith("std::vec::Vec<") and not opt_vec:
            return False
        line = b["line"]
        after = t["to"]
        args = t["args"]
        sink_cb = None
        if name in ("for_each", "find", "position"):
            sink_cb = self.callable_of(args[1]) if len(args) == 2 else None
            if sink_cb is None:
                return False
        if name == "fold":
            sink_cb = self.callable_of(args[2]) if len(args) == 3 else None
            if sink_cb is None:
                return False
        # walk the stages backwards
        stages = []
        cur_op = args[0]
        stage_blocks = []
        while True:
            pc = self.producer_call(cur_op)
            if pc is None:
                break
            pb, pt = pc
            pn = pt["callee"].get("name")
            if pn not in self.STAGES or not (pt["callee"].get("trait") or "").endswith("iter::Iterator"):
                break
            if not self.linear_to(pb, bi):
                break
            cb = None
            if pn in ("map", "filter", "filter_map", "inspect", "flat_map"):
                cb = self.callable_of(pt["args"][1]) if len(pt["args"]) == 2 else None
                if cb is None:
                    break
                if pn == "flat_map" and not self.is_iterator_ty(self.ret_ty(cb)):
                    break
            stages.append((pn, cb))
            stage_blocks.append(pb)
            cur_op = pt["args"][0]
        stages.reverse()
        if not stages and name in ("sum", "count", "collect"):
            return False        # nothing with a closure to expose: leave the call alone
        src = cur_op.get("move") or cur_op.get("copy")
        if src is None or src["proj"]:
            return False
        Y = src["l"]
        yty = self.locals[Y]["ty"]
        # item type of the source: from the first stage's closure parameter, else unknown
        # 1. drop the adaptor calls (the source iterator is consumed by the loop instead)
        for pb in stage_blocks:
            pt = self.blocks[pb]["term"]
            self.blocks[pb]["term"] = {"k": "goto", "to": pt["to"], "syn": "stage-dropped"}
        # 2. the loop
        it_ty = yty
        r_ref = self.new_local("&mut " + it_ty)
        opt = self.new_local("std::option::Option<?>")
        dl = self.new_local("isize")
        header = self.new_block(line)
        sw = self.new_block(line)
        body = self.new_block(line)
        exit_b = self.new_block(line)
        unreach = self.new_block(line)
        self.blocks[header]["stmts"].append(_assign(_pl(r_ref), {"ref": _pl(Y), "mut": True}, line))
        self.blocks[header]["term"] = {"k": "call", "callee": {"path": "std::iter::Iterator::next", "full": f"<{it_ty} as std::iter::Iterator>::next",
                                                                 "name": "next", "trait": "std::iter::Iterator", "local": False,
                                                                 "resolved": f"<{it_ty} as std::iter::Iterator>::next", "resolved_local": False,
                                                                 "resolved_kind": "Item", "generic_args": [it_ty], "bound_impls": [], "syn": True},
                                       "args": [_mv(r_ref)], "dest": _pl(opt), "to": sw, "syn": True}
        self.blocks[sw]["stmts"].append(_assign(_pl(dl), {"discr": _pl(opt)}, line))
        self.blocks[sw]["term"] = {"k": "switch", "on": _mv(dl), "ty": "isize", "arms": [[0, exit_b], [1, body]], "otherwise": unreach, "syn": True}
        cur_b = body
        first_ty = "?"
        if stages and stages[0][1] is not None:
            first_ty = self.param_ty(stages[0][1], 0)
            if stages[0][0] in ("filter", "inspect"):
                first_ty = first_ty[1:] if first_ty.startswith("&") else first_ty
        elif sink_cb is not None:
            first_ty = self.param_ty(sink_cb, 1 if name == "fold" else 0)
            if name in ("find",):
                first_ty = first_ty[1:] if first_ty.startswith("&") else first_ty
        x = self.new_local(first_ty)
        self.blocks[cur_b]["stmts"].append(_assign(_pl(x), {"use": _mv(opt, _variant("Some", 1, first_ty, "std::option::Option<" + first_ty + ">"))}, line))
        xty = first_ty
        cur_b, x, xty, cont = self.emit_stages(stages, cur_b, x, xty, header, line)
        if xty == "?" and name == "collect" and dty.startswith("std::vec::Vec<"):
            self.locals[x]["ty"] = xty = dty[len("std::vec::Vec<"):-1]
        # 3. the sink
        pre = b["stmts"]
        if name in ("sum", "count"):
            # `let mut acc = 0; for .. { acc = acc + x }; acc`
            acc = self.new_local(dty, "acc")
            pre.append(_assign(_pl(acc), {"use": {"const": {"int": 0, "ty": dty}}}, line))
            addend = _mv(x) if name == "sum" else {"const": {"int": 1, "ty": dty}}
            self.blocks[cur_b]["stmts"].append(_assign(_pl(acc), {"bin": "Add", "a": _cp(acc), "b": addend, "aty": dty}, line))
            self.blocks[cur_b]["term"] = {"k": "goto", "to": cont}
            self.blocks[exit_b]["stmts"].append(_assign(_pl(dest), {"use": _cp(acc)}, line))
            self.blocks[exit_b]["term"] = {"k": "goto", "to": after}
        elif name == "collect" and opt_vec:
            # `.collect::<Option<Vec<T>>>()` (std: stops at the first None): v = Vec::new(); loop { match x { None => { dest = None;
            # leave }, Some(y) => v.push(y) } }; dest = Some(v)
            vty = dty[len("std::option::Option<"):-1]
            ety = vty[len("std::vec::Vec<"):-1]
            oty = "std::option::Option<" + ety + ">"
            if xty == "?":
                self.locals[x]["ty"] = xty = oty
            V = self.new_local(vty, "collected")
            nb0 = self.new_block(line)
            self.blocks[nb0]["term"] = {"k": "call", "callee": {"path": "std::vec::Vec::<T>::new", "full": "std::vec::Vec::<T>::new", "name": "new", "trait": None,
                                                                "local": False, "resolved": "std::vec::Vec::<T>::new", "resolved_local": False, "resolved_kind": "Item",
                                                                "generic_args": [], "bound_impls": [], "syn": True},
                                        "args": [], "dest": _pl(V), "to": header, "syn": True}
            dl2 = self.new_local("isize")
            y = self.new_local(ety)
            vr = self.new_local("&mut " + vty)
            unit = self.new_local("()")
            none_b = self.new_block(line, [_assign(_pl(dest), {"agg": {"adt": "std::option::Option", "variant": "None", "vidx": 0, "local": False}, "ops": []}, line)],
                                    {"k": "goto", "to": after})
            some_b = self.new_block(line, [_assign(_pl(y), {"use": _mv(x, _variant("Some", 1, ety, oty))}, line),
                                           _assign(_pl(vr), {"ref": _pl(V), "mut": True}, line)],
                                    {"k": "call", "callee": {"path": "std::vec::Vec::<T, A>::push", "full": "std::vec::Vec::<T, A>::push", "name": "push",
                                                             "trait": None, "local": False, "resolved": "std::vec::Vec::<T, A>::push", "resolved_local": False,
                                                             "resolved_kind": "Item", "generic_args": [], "bound_impls": [], "syn": True},
                                     "args": [_mv(vr), _mv(y)], "dest": _pl(unit), "to": cont, "syn": True})
            unr2 = self.new_block(line, [], {"k": "unreachable"})
            self.blocks[cur_b]["stmts"].append(_assign(_pl(dl2), {"discr": _pl(x)}, line))
            self.blocks[cur_b]["term"] = {"k": "switch", "on": _mv(dl2), "ty": "isize", "arms": [[0, none_b], [1, some_b]], "otherwise": unr2, "syn": True}
            self.blocks[exit_b]["stmts"].append(_assign(_pl(dest), {"agg": {"adt": "std::option::Option", "variant": "Some", "vidx": 1, "local": False}, "ops": [_mv(V)]}, line))
            self.blocks[exit_b]["term"] = {"k": "goto", "to": after}
            b["term"] = {"k": "goto", "to": nb0, "syn": "pipeline"}
            self.changed = True
            return True
        elif name == "collect":
            # dest = Vec::new(); loop { dest.push(x) }
            nb0 = self.new_block(line)
            vec_new = {"k": "call", "callee": {"path": "std::vec::Vec::<T>::new", "full": "std::vec::Vec::<T>::new", "name": "new", "trait": None,
                                               "local": False, "resolved": "std::vec::Vec::<T>::new", "resolved_local": False, "resolved_kind": "Item",
                                               "generic_args": [], "bound_impls": [], "syn": True},
                       "args": [], "dest": _pl(dest), "to": header, "syn": True}
            self.blocks[nb0]["term"] = vec_new
            vr = self.new_local("&mut " + dty)
            unit = self.new_local("()")
            self.blocks[cur_b]["stmts"].append(_assign(_pl(vr), {"ref": _pl(dest), "mut": True}, line))
            self.blocks[cur_b]["term"] = {"k": "call", "callee": {"path": "std::vec::Vec::<T, A>::push", "full": "std::vec::Vec::<T, A>::push", "name": "push",
                                                                    "trait": None, "local": False, "resolved": "std::vec::Vec::<T, A>::push", "resolved_local": False,
                                                                    "resolved_kind": "Item", "generic_args": [], "bound_impls": [], "syn": True},
                                          "args": [_mv(vr), _mv(x)], "dest": _pl(unit), "to": cont, "syn": True}
            self.blocks[exit_b]["term"] = {"k": "goto", "to": after}
            b["term"] = {"k": "goto", "to": nb0, "syn": "pipeline"}
            self.changed = True
            return True
        elif name == "for_each":
            unit = self.new_local("()")
            self.blocks[cur_b]["term"] = self.call_callable(sink_cb, [_mv(x)], unit, cont, line, self.blocks[cur_b]["stmts"])
            self.blocks[exit_b]["stmts"].append(_assign(_pl(dest), {"use": {"const": {"zst": "()"}}}, line))
            self.blocks[exit_b]["term"] = {"k": "goto", "to": after}
        elif name == "fold":
            acc = self.new_local(dty, "acc")
            pre.append(_assign(_pl(acc), {"use": args[1]}, line))
            tmp = self.new_local(dty)
            nb = self.new_block(line, [_assign(_pl(acc), {"use": _mv(tmp)}, line)], {"k": "goto", "to": cont})
            self.blocks[cur_b]["term"] = self.call_callable(sink_cb, [_cp(acc), _mv(x)], tmp, nb, line, self.blocks[cur_b]["stmts"])
            self.blocks[exit_b]["stmts"].append(_assign(_pl(dest), {"use": _cp(acc)}, line))
            self.blocks[exit_b]["term"] = {"k": "goto", "to": after}
        elif name == "find":
            ref = self.new_local("&" + xty)
            self.blocks[cur_b]["stmts"].append(_assign(_pl(ref), {"ref": _pl(x), "mut": False}, line))
            hit = self.new_local("bool")
            tb = self.new_block(line)
            yes = self.new_block(line, [_assign(_pl(dest), {"agg": {"adt": "std::option::Option", "variant": "Some", "vidx": 1, "local": False}, "ops": [_mv(x)]}, line)],
                                 {"k": "goto", "to": after})
            self.blocks[cur_b]["term"] = self.call_callable(sink_cb, [_mv(ref)], hit, tb, line, self.blocks[cur_b]["stmts"])
            self.blocks[tb]["term"] = {"k": "switch", "on": _mv(hit), "ty": "bool", "arms": [[0, cont]], "otherwise": yes, "syn": True}
            self.blocks[exit_b]["stmts"].append(_assign(_pl(dest), {"agg": {"adt": "std::option::Option", "variant": "None", "vidx": 0, "local": False}, "ops": []}, line))
            self.blocks[exit_b]["term"] = {"k": "goto", "to": after}
        elif name == "position":
            idx = self.new_local("usize")
            pre.append(_assign(_pl(idx), {"use": {"const": {"int": 0, "ty": "usize"}}}, line))
            hit = self.new_local("bool")
            tb = self.new_block(line)
            yes = self.new_block(line, [_assign(_pl(dest), {"agg": {"adt": "std::option::Option", "variant": "Some", "vidx": 1, "local": False}, "ops": [_cp(idx)]}, line)],
                                 {"k": "goto", "to": after})
            no = self.new_block(line, [_assign(_pl(idx), {"bin": "Add", "a": _cp(idx), "b": {"const": {"int": 1, "ty": "usize"}}, "aty": "usize"}, line)],
                                {"k": "goto", "to": cont})
            self.blocks[cur_b]["term"] = self.call_callable(sink_cb, [_mv(x)], hit, tb, line, self.blocks[cur_b]["stmts"])
            self.blocks[tb]["term"] = {"k": "switch", "on": _mv(hit), "ty": "bool", "arms": [[0, no]], "otherwise": yes, "syn": True}
            self.blocks[exit_b]["stmts"].append(_assign(_pl(dest), {"agg": {"adt": "std::option::Option", "variant": "None", "vidx": 0, "local": False}, "ops": []}, line))
            self.blocks[exit_b]["term"] = {"k": "goto", "to": after}
        b["term"] = {"k": "goto", "to": header, "syn": "pipeline"}
        return True

    def fold_const_bool_arms(self):
        """a synthesized arm `X = const bool; goto T` where T only switches on X (directly or through one copy) and X has no
        other use: jump straight to the arm's target and drop the assignment, so that X keeps a single (computed) definition"""
        from .cfg import term_succs
        for ai, a in enumerate(self.blocks):
            if not a.get("syn") or a["term"]["k"] != "goto" or not a["stmts"]:
                continue
            last = a["stmts"][-1]
            if not (last.get("syn") and last["k"] == "assign" and not last["place"]["proj"] and "use" in last["rv"]
                    and "const" in last["rv"]["use"] and "bool" in last["rv"]["use"]["const"]):
                continue
            X = last["place"]["l"]
            val = last["rv"]["use"]["const"]["bool"]
            T = self.blocks[a["term"]["to"]]
            tt = T["term"]
            if tt["k"] != "switch" or tt["ty"] != "bool":
                continue
            on = tt["on"].get("move") or tt["on"].get("copy")
            if on is None or on["proj"]:
                continue
            names = {X}
            ok = on["l"] == X
            for s_ in T["stmts"]:
                if s_["k"] == "assign" and not s_["place"]["proj"] and "use" in s_["rv"]:
                    p2 = s_["rv"]["use"].get("move") or s_["rv"]["use"].get("copy")
                    if p2 and not p2["proj"] and p2["l"] in names:
                        names.add(s_["place"]["l"])
            ok = on["l"] in names
            if not ok:
                continue
            # X (and its copies) must not be read anywhere but in T
            txt_uses = 0
            for bi, b in enumerate(self.blocks):
                if b is T:
                    continue
                blob = str([s_["rv"] for s_ in b["stmts"] if s_["k"] == "assign"]) + str({k: v for k, v in b["term"].items() if k in ("on", "args")})
                if any(f"'l': {n}," in blob for n in names):
                    txt_uses += 1
            if txt_uses:
                continue
            tgt = tt["otherwise"]
            for v, t_ in tt["arms"]:
                if v == (1 if val else 0):
                    tgt = t_
            if val and not any(v == 1 for v, _ in tt["arms"]):
                tgt = tt["otherwise"]
            if (not val) and any(v == 0 for v, _ in tt["arms"]):
                tgt = [t_ for v, t_ in tt["arms"] if v == 0][0]
            a["stmts"].pop()
            a["term"] = {"k": "goto", "to": tgt, "syn": "folded"}

    def merge_linear_chains(self):
        """`A: ..; goto B` where B has no other predecessor: B's statements and terminator move into A (B becomes unreachable).
        Brings a discriminant test that rewriting left two hops behind a merge (`x = move tmp` / closure construction / switch)
        into the merge block, where thread_known_variants can see it."""
        from .cfg import term_succs
        changed = True
        rounds = 0
        while changed and rounds < 50:
            changed = False
            rounds += 1
            preds = {}
            for i, b in enumerate(self.blocks):
                for _l, t_ in term_succs(b["term"]):
                    preds.setdefault(t_, []).append(i)
            for ai, a in enumerate(self.blocks):
                if a["term"]["k"] != "goto" or a.get("cleanup"):
                    continue
                bi = a["term"]["to"]
                if bi == ai or bi == 0 or preds.get(bi) != [ai] or self.blocks[bi].get("cleanup"):
                    continue
                b = self.blocks[bi]
                if b["term"]["k"] == "goto" and b["term"]["to"] == bi:
                    continue
                a["stmts"] = a["stmts"] + b["stmts"]
                a["term"] = b["term"]
                if b["term"]["k"] in ("call", "switch", "assert", "drop"):
                    a["line"] = b["line"]
                b["stmts"] = []
                b["term"] = {"k": "unreachable"}
                changed = True
                break

    def thread_known_variants(self):
        """jump threading: a block that ends `X = <enum aggregate of variant V>; goto T` where T only reads the discriminant of
        X and switches on it jumps straight to V's arm (T is pure, so skipping it changes nothing).  Restores the edge guards
        that a chain of desugared combinators (`.ok().filter(..).map(..).ok_or(..)`) would otherwise lose at every merge."""
        changed = True
        rounds = 0
        while changed and rounds < 8:
            changed = False
            rounds += 1
            for pi, p in enumerate(self.blocks):
                if p["term"]["k"] != "goto":
                    continue
                T = self.blocks[p["term"]["to"]]
                tt = T["term"]
                if tt["k"] != "switch" or tt["ty"] == "bool":
                    continue
                on = tt["on"].get("move") or tt["on"].get("copy")
                if on is None or on["proj"]:
                    continue
                real = [s_ for s_ in T["stmts"] if s_["k"] == "assign"]
                dread = [s_ for s_ in real if s_["place"]["l"] == on["l"] and not s_["place"]["proj"] and "discr" in s_["rv"]]
                if len(dread) != 1:
                    continue
                pure_only = len(real) == 1
                if not pure_only and len(T["stmts"]) > 16:
                    continue
                xp = dread[0]["rv"]["discr"]
                if xp["proj"]:
                    continue
                X = xp["l"]
                # `X = move Y` inside T in front of the test: the variant is Y's
                moved = False
                for _hop in range(3):
                    src_ = None
                    for s_ in T["stmts"]:
                        if s_ is dread[0]:
                            break
                        if s_["k"] == "assign" and s_["place"]["l"] == X and not s_["place"]["proj"]:
                            u_ = s_["rv"].get("use")
                            pl_ = (u_.get("move") or u_.get("copy")) if isinstance(u_, dict) else None
                            src_ = pl_["l"] if pl_ and not pl_["proj"] else "?"
                    if src_ is None:
                        break
                    if src_ == "?":
                        X = None
                        break
                    X, moved = src_, True
                if X is None:
                    continue
                if moved and len(T["stmts"]) > 16:
                    continue
                val = None
                for s_ in reversed(p["stmts"]):
                    if s_["k"] == "setdiscr" and s_["place"]["l"] == X:
                        break
                    if s_["k"] == "assign" and s_["place"]["l"] == X:
                        rv = s_["rv"]
                        if not s_["place"]["proj"] and "agg" in rv and isinstance(rv["agg"], dict) and "adt" in rv["agg"]:
                            a = self.F.adts.get(rv["agg"]["adt"])
                            if a is not None:
                                for v in a["variants"]:
                                    if v["name"] == rv["agg"]["variant"]:
                                        val = v["discr"]
                            else:
                                val = rv["agg"]["vidx"]
                        break
                if val is None:
                    continue
                tgt = tt["otherwise"]
                for v, t_ in tt["arms"]:
                    if v == val:
                        tgt = t_
                if pure_only:
                    p["term"] = {"k": "goto", "to": tgt, "syn": "threaded"}
                else:
                    # T also holds other (side-effect free) statements the arms may use: duplicate them for this path
                    if any(s_["k"] == "assign" and s_["place"]["l"] == X for s_ in T["stmts"]):
                        continue
                    nb = self.new_block(T["line"], copy.deepcopy(T["stmts"]), {"k": "goto", "to": tgt, "syn": "threaded"})
                    p["term"] = {"k": "goto", "to": nb, "syn": "threaded"}
                changed = True

    def run(self):
        progress = True
        rounds = 0
        while progress and rounds < 12:
            progress = False
            rounds += 1
            for bi in range(len(self.blocks)):
                b = self.blocks[bi]
                t = b["term"]
                if t["k"] != "call" or b.get("cleanup") or "indirect" in t["callee"]:
                    continue
                try:
                    if self.rewrite_combinator(bi) or self.rewrite_pipeline(bi) or self.rewrite_closure_call(bi) or self.rewrite_loop_source(bi) or self.rewrite_rposition_zip(bi):
                        progress = True
                        self.changed = True
                except (KeyError, IndexError, TypeError):
                    continue
        if self.changed:
            self.fold_const_bool_arms()
            self.merge_linear_chains()
            self.thread_known_variants()
        return self.changed


def normalise(F):
    """rewrite every function of the fact base (except chain-idiom ones); returns {path: True} for changed functions and
    records the closures that became directly called (to be spliced by the inliner)"""
    changed = {}
    called_closures = set()
    # chain-idiom functions, their closures, and the crate-private helpers only they call (a helper extracted from the token
    # expansion is part of that idiom: it is spliced back into it by the inliner)
    keep = {p for p, f in F.fns.items()
            if any(p.startswith(k) for k in KEEP_CHAINS) or any((f.parent or "").startswith(k) for k in KEEP_CHAINS)}
    callers = {}
    for p, f in F.fns.items():
        for _bi, t in f.calls():
            q = t["callee"].get("resolved") or t["callee"].get("path")
            if q in F.fns and q != p:
                callers.setdefault(q, set()).add(p)
        if f.parent in F.fns:
            callers.setdefault(p, set()).add(f.parent)
    grew = True
    while grew:
        grew = False
        for q, cs in callers.items():
            if q not in keep and cs and cs <= keep and (F.fns[q].d.get("vis") or "") != "pub":
                keep.add(q)
                grew = True
    keep |= getattr(F, "keep_chains", set())       # a later round must not rewrite what an earlier round left alone
    F.keep_chains = keep
    for p, f in list(F.fns.items()):
        if p in keep:
            continue
        has = False
        for b in f.blocks:
            t = b["term"]
            if t["k"] == "call" and "indirect" not in t["callee"]:
                n = t["callee"].get("name")
                if n in Rewriter.SINKS or n in Rewriter.STAGES or n in Rewriter.PREFILTER or n in ("map", "map_or", "map_or_else", "and_then", "unwrap_or_else", "filter", "flatten",
                                                "map_err", "then", "then_some", "call", "call_mut", "call_once", "ok", "ok_or", "ok_or_else", "branch"):
                    has = True
                    break
        if not has:
            continue
        nd = dict(f.d)
        nd["blocks"] = copy.deepcopy(f.d["blocks"])
        nd["locals"] = [dict(l) for l in f.d["locals"]]
        rw = Rewriter(F, nd)
        if rw.run():
            nd["desugared"] = True
            F.fns[p] = type(f)(nd, F)
            changed[p] = True
            for b in nd["blocks"]:
                t = b["term"]
                if t["k"] == "call" and t["callee"].get("syn") == "closure":
                    called_closures.add(t["callee"]["path"])
    F.directly_called_closures = called_closures
    return changed
