"""Cross-reference of the MIR-derived site enumerators against clippy's opt-in restriction lints
(thorough tier).  Clippy gives candidates, not verdicts: every clippy site must appear in our own
enumeration (completeness); otherwise the machinery is BROKEN (not a violation)."""
import collections
import json
import os
import subprocess

from . import facts as FX
from . import panics, loops as L, prov as P

LINTS = ["string_slice", "unwrap_used", "expect_used", "indexing_slicing", "cast_possible_truncation", "iter_over_hash_type", "panic"]


def clippy_sites():
    env = dict(os.environ, CARGO_TARGET_DIR=os.path.join(FX.BUILD, "target-clippy"), CARGO_NET_OFFLINE="true")
    args = ["cargo", "+nightly", "clippy", "--offline", "--lib", "--message-format=json", "--", "-Aclippy::all"] + \
           [f"-Wclippy::{l}" for l in LINTS]
    # clippy caches per crate: touch nothing, but force re-lint by removing the member fingerprint
    fp = os.path.join(FX.BUILD, "target-clippy", "debug", ".fingerprint")
    if os.path.isdir(fp):
        import shutil
        for d in os.listdir(fp):
            if d.startswith("espada-"):
                shutil.rmtree(os.path.join(fp, d), ignore_errors=True)
    r = subprocess.run(args, cwd=FX.REPO, env=env, stdout=subprocess.PIPE, stderr=subprocess.DEVNULL, text=True)
    out = collections.defaultdict(list)
    for ln in r.stdout.splitlines():
        try:
            m = json.loads(ln)
        except ValueError:
            continue
        if m.get("reason") != "compiler-message":
            continue
        msg = m["message"]
        code = (msg.get("code") or {}).get("code") or ""
        if not code.startswith("clippy::"):
            continue
        sp = [s for s in msg["spans"] if s["is_primary"]]
        if not sp:
            continue
        out[code[len("clippy::"):]].append((sp[0]["file_name"], sp[0]["line_start"]))
    if r.returncode != 0 and not out:
        raise FX.Broken("clippy cross-reference run failed")
    return out


def own_sites(F):
    """(kind -> Counter((file, line))) over every body of the lib"""
    res = collections.defaultdict(collections.Counter)
    for p, fn in F.fns.items():
        sites, pr = panics.sites_of(F, fn)
        for s in sites:
            k = s.kind
            if k == "index" and s.info.get("container", "").startswith("str"):
                res["str-index"][(fn.file, s.line)] += 1
            if k in ("index", "assert-bounds"):
                res["index"][(fn.file, s.line)] += 1
            if k == "unwrap":
                res["unwrap"][(fn.file, s.line)] += 1
            if k == "panic-call":
                res["panic"][(fn.file, s.line)] += 1
        for lp in L.for_loops(fn, pr):
            full = fn.blocks[lp.next_block]["term"]["callee"].get("full", "")
            if "hash_map::" in full or "hash_set::" in full:
                res["hash-loop"][(fn.file, lp.line)] += 1
        for bi in fn.cfg.reachable:
            for s in fn.blocks[bi]["stmts"]:
                if s["k"] == "assign" and "cast" in s["rv"] and s["rv"]["cast"] == "IntToInt":
                    res["int-cast"][(fn.file, s["line"])] += 1
    return res


MAP = {"string_slice": "str-index", "unwrap_used": "unwrap", "expect_used": "unwrap", "indexing_slicing": "index",
       "cast_possible_truncation": "int-cast", "iter_over_hash_type": "hash-loop", "panic": "panic"}


def cross_check(ctx, F, lints):
    cs = clippy_sites()
    own = own_sites(F)
    summary = {}
    for lint in lints:
        mine = own[MAP[lint]]
        missing = []
        cnt = collections.Counter(cs.get(lint, []))
        for site, n in cnt.items():
            # clippy and MIR may attribute a multi-line expression to different lines: allow the enclosing statement (±3 lines)
            have = sum(mine.get((site[0], site[1] + d), 0) for d in range(-3, 4))
            if have < 1:
                missing.append(site)
        summary[lint] = {"clippy_sites": sum(cnt.values()), "own_sites": sum(mine.values()), "missing_from_own": missing[:10]}
        if missing:
            raise FX.Broken(f"site enumeration incomplete: clippy::{lint} reports {missing[:5]} which the MIR-derived list lacks")
    ctx.extra["clippy_cross_reference"] = summary
    return summary
