"""Pretty printer for the dumped MIR (development aid and for violation reports)."""
import sys


def place(p):
    s = f"_{p['l']}"
    for e in p["proj"]:
        if e == "deref":
            s = f"(*{s})"
        elif "f" in e:
            s = f"{s}.{e['f']}" + (f"«{e['name']}»" if e.get('name') and not str(e['name']).isdigit() else "")
        elif "idx" in e:
            s = f"{s}[_{e['idx']}]"
        elif "cidx" in e:
            s = f"{s}[{e['cidx']}]"
        elif "vidx" in e:
            s = f"({s} as {e.get('variant')})"
        else:
            s = f"{s}.<{e}>"
    return s


def const(c):
    if "int" in c:
        return f"{c['int']}_{c.get('ty', '')}"
    if "bool" in c:
        return str(c["bool"]).lower()
    if "char" in c:
        return repr(chr(c["char"]))
    if "str" in c:
        return repr(c["str"])
    if "fbits" in c:
        return f"f{c['fbits']}:{c['ty']}"
    if "fn" in c:
        return f"fn {c['fn']}"
    if "named" in c:
        return f"const {c['named']}"
    if "promoted" in c:
        return f"promoted[{c['promoted']}]"
    if "adt" in c:
        return f"{c['adt']}::{c.get('variant')}"
    if "zst" in c:
        return f"zst {c['zst']}"
    if "bytes" in c:
        return f"bytes{c['bytes'][:16]}"
    return str(c)[:80]


def operand(o):
    if "copy" in o:
        return place(o["copy"])
    if "move" in o:
        return "move " + place(o["move"])
    return const(o["const"])


def rvalue(rv):
    if "use" in rv:
        return operand(rv["use"])
    if "ref" in rv:
        return ("&mut " if rv["mut"] else "&") + place(rv["ref"])
    if "bin" in rv:
        return f"{rv['bin']}({operand(rv['a'])}, {operand(rv['b'])})"
    if "un" in rv:
        return f"{rv['un']}({operand(rv['a'])})"
    if "cast" in rv:
        return f"{operand(rv['a'])} as {rv['to']} ({rv['cast']} from {rv['from']})"
    if "agg" in rv:
        k = rv["agg"]
        if isinstance(k, dict):
            if "adt" in k:
                ks = f"{k['adt']}::{k['variant']}"
            elif "closure" in k:
                ks = f"closure {k['closure']}"
            elif "array" in k:
                ks = "array"
            else:
                ks = str(k)
        else:
            ks = k
        return f"{ks}({', '.join(operand(o) for o in rv['ops'])})"
    if "discr" in rv:
        return f"discriminant({place(rv['discr'])})"
    if "repeat" in rv:
        return f"[{operand(rv['repeat'])}; {rv['n']}]"
    if "rawptr" in rv:
        return f"&raw {place(rv['rawptr'])}"
    return str(rv)[:100]


def terminator(t):
    k = t["k"]
    if k == "goto":
        return f"goto bb{t['to']}"
    if k == "switch":
        arms = ", ".join(f"{v}: bb{b}" for v, b in t["arms"])
        return f"switchInt({operand(t['on'])}: {t['ty']}) -> [{arms}, otherwise: bb{t['otherwise']}]"
    if k == "call":
        c = t["callee"]
        name = c.get("resolved") or c.get("path") or f"indirect {c.get('ty')}"
        if c.get("path") and c.get("resolved") and c["resolved"] != c["path"]:
            name = f"{c['full']} => {c['resolved']}"
        s = f"{place(t['dest'])} = {name}({', '.join(operand(a) for a in t['args'])}) -> bb{t.get('to')}"
        if c.get("bound_impls"):
            s += f"   bounds:{[list(b.values())[0] for b in c['bound_impls']]}"
        return s
    if k == "assert":
        m = t["msg"]
        return f"assert({operand(t['cond'])} == {t['expected']}, {m['kind']}) -> bb{t['to']}"
    if k == "drop":
        return f"drop({place(t['place'])}) -> bb{t['to']}"
    return k + (" " + t.get("text", "") if k == "other" else "")


def fn(f, out=sys.stdout):
    d = f.d if hasattr(f, "d") else f
    print(f"fn {d['path']}  [{d['kind']}] {d['span']['file']}:{d['span']['line']}", file=out)
    for i, l in enumerate(d["locals"]):
        nm = f"  // {l['name']}" if l.get("name") else ""
        tag = "ret" if i == 0 else ("arg" if i <= d["arg_count"] else "")
        print(f"    let _{i}: {l['ty']}; {tag}{nm}", file=out)
    for i, b in enumerate(d["blocks"]):
        if b["cleanup"]:
            continue
        print(f"  bb{i}:", file=out)
        for s in b["stmts"]:
            if s["k"] == "assign":
                print(f"      {place(s['place'])} = {rvalue(s['rv'])};   // L{s['line']}", file=out)
            else:
                print(f"      {s}", file=out)
        print(f"      {terminator(b['term'])};   // L{b['line']}", file=out)


if __name__ == "__main__":
    from . import facts
    F = facts.load(sys.argv[2] if len(sys.argv) > 2 else "lib")
    pat = sys.argv[1]
    for p, f in F.fns.items():
        if pat in p:
            fn(f)
            print()
