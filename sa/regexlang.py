"""Parser and language facts for the regex subset the repository uses.

Supported: literals, escapes of punctuation, classes `[...]` (chars and a-b ranges, no
negation), groups `( )`, alternation `|`, quantifiers `? + * {n} {n,m} {n,}`, anchors `^ $`.
Anything else raises Unsupported (callers fail closed)."""


class Unsupported(Exception):
    pass


# AST nodes: ("seq", [n..]) ("alt", [n..]) ("class", frozenset) ("rep", n, lo, hi|None) ("bol",) ("eol",)

SPECIAL = set("\\^$.|?*+()[]{}")


def parse(pat):
    pos = [0]

    def peek():
        return pat[pos[0]] if pos[0] < len(pat) else None

    def take():
        c = pat[pos[0]]
        pos[0] += 1
        return c

    def parse_alt():
        branches = [parse_seq()]
        while peek() == "|":
            take()
            branches.append(parse_seq())
        return branches[0] if len(branches) == 1 else ("alt", branches)

    def parse_seq():
        items = []
        while peek() is not None and peek() not in "|)":
            items.append(parse_rep())
        return ("seq", items)

    def parse_rep():
        a = parse_atom()
        while True:
            c = peek()
            if c == "?":
                take()
                a = ("rep", a, 0, 1)
            elif c == "+":
                take()
                a = ("rep", a, 1, None)
            elif c == "*":
                take()
                a = ("rep", a, 0, None)
            elif c == "{":
                take()
                num = ""
                while peek() is not None and peek() != "}":
                    num += take()
                if peek() != "}":
                    raise Unsupported("unterminated {")
                take()
                if "," in num:
                    lo, hi = num.split(",", 1)
                    lo = int(lo)
                    hi = int(hi) if hi.strip() else None
                else:
                    lo = hi = int(num)
                a = ("rep", a, lo, hi)
            else:
                break
            if peek() == "?":
                raise Unsupported("lazy quantifier")
        return a

    def parse_atom():
        c = take()
        if c == "(":
            if peek() == "?":
                raise Unsupported("group flags / non-capturing groups")
            inner = parse_alt()
            if peek() != ")":
                raise Unsupported("unterminated group")
            take()
            return inner
        if c == "[":
            if peek() == "^":
                raise Unsupported("negated class")
            chars = set()
            first = True
            while True:
                if peek() is None:
                    raise Unsupported("unterminated class")
                ch = take()
                if ch == "]" and not first:
                    break
                first = False
                if ch == "\\":
                    ch = take()
                    if ch.isalnum():
                        raise Unsupported("class escape \\" + ch)
                if ch == "[":
                    raise Unsupported("nested class")
                if peek() == "-" and pos[0] + 1 < len(pat) and pat[pos[0] + 1] != "]":
                    take()
                    hi = take()
                    if hi == "\\":
                        hi = take()
                    if ord(hi) < ord(ch):
                        raise Unsupported("reversed range")
                    for o in range(ord(ch), ord(hi) + 1):
                        chars.add(chr(o))
                else:
                    chars.add(ch)
            return ("class", frozenset(chars))
        if c == "\\":
            e = take()
            if e.isalnum():
                raise Unsupported("escape \\" + e)
            return ("class", frozenset([e]))
        if c == "^":
            return ("bol",)
        if c == "$":
            return ("eol",)
        if c == ".":
            raise Unsupported("wildcard")
        if c in ")]}|?*+{":
            raise Unsupported("unexpected " + c)
        return ("class", frozenset([c]))

    ast = parse_alt()
    if pos[0] != len(pat):
        raise Unsupported("trailing input at %d" % pos[0])
    return Re(pat, ast)


def _flatten(n):
    if n[0] == "seq":
        out = []
        for x in n[1]:
            if x[0] == "seq":
                out.extend(_flatten(x)[1])
            else:
                out.append(_flatten(x))
        return ("seq", out)
    if n[0] == "alt":
        return ("alt", [_flatten(x) for x in n[1]])
    if n[0] == "rep":
        return ("rep", _flatten(n[1]), n[2], n[3])
    return n


def min_len(n):
    k = n[0]
    if k == "class":
        return 1
    if k in ("bol", "eol"):
        return 0
    if k == "seq":
        return sum(min_len(x) for x in n[1])
    if k == "alt":
        return min(min_len(x) for x in n[1])
    if k == "rep":
        return n[2] * min_len(n[1])
    raise Unsupported(k)


def max_len(n):
    k = n[0]
    if k == "class":
        return 1
    if k in ("bol", "eol"):
        return 0
    if k == "seq":
        t = 0
        for x in n[1]:
            m = max_len(x)
            if m is None:
                return None
            t += m
        return t
    if k == "alt":
        ms = [max_len(x) for x in n[1]]
        return None if any(m is None for m in ms) else max(ms)
    if k == "rep":
        m = max_len(n[1])
        if n[3] is None:
            return None if (m is None or m > 0) else 0
        return None if m is None else m * n[3]
    raise Unsupported(k)


def chars_of(n):
    k = n[0]
    if k == "class":
        return set(n[1])
    if k in ("bol", "eol"):
        return set()
    if k in ("seq", "alt"):
        s = set()
        for x in n[1]:
            s |= chars_of(x)
        return s
    if k == "rep":
        return chars_of(n[1])
    raise Unsupported(k)


class Re:
    def __init__(self, pat, ast):
        self.pat = pat
        self.ast = _flatten(ast)
        top = self.ast if self.ast[0] == "seq" else ("seq", [self.ast])
        items = list(top[1])
        self.anchored_start = bool(items) and items[0] == ("bol",)
        self.anchored_end = bool(items) and items[-1] == ("eol",)
        self.items = [x for x in items if x[0] not in ("bol", "eol")]
        # anchors elsewhere are not supported
        for x in self.items:
            self._no_anchor(x)

    def _no_anchor(self, n):
        if n[0] in ("bol", "eol"):
            raise Unsupported("anchor in the middle")
        if n[0] in ("seq", "alt"):
            for x in n[1]:
                self._no_anchor(x)
        if n[0] == "rep":
            self._no_anchor(n[1])

    @property
    def anchored(self):
        return self.anchored_start and self.anchored_end

    @property
    def ascii_only(self):
        return all(ord(c) < 128 for c in chars_of(("seq", self.items)))

    @property
    def min_len(self):
        return min_len(("seq", self.items))

    def prefix_classes(self):
        """per-position character classes of the fixed-length prefix, and the remaining items."""
        out = []
        rest = list(self.items)
        while rest:
            x = rest[0]
            ex = self._expand_fixed(x)
            if ex is None:
                break
            out.extend(ex)
            rest.pop(0)
        return out, rest

    def _expand_fixed(self, n):
        if n[0] == "class":
            return [n[1]]
        if n[0] == "seq":
            out = []
            for x in n[1]:
                e = self._expand_fixed(x)
                if e is None:
                    return None
                out.extend(e)
            return out
        if n[0] == "rep" and n[2] == n[3] and n[3] is not None:
            e = self._expand_fixed(n[1])
            if e is None:
                return None
            return e * n[2]
        return None

    def optional_tail(self):
        """if the items after the fixed prefix are exactly one optional group `( … )?`, return its
        inner node; if there is nothing after the prefix return None; else raise."""
        _, rest = self.prefix_classes()
        if not rest:
            return None
        if len(rest) == 1 and rest[0][0] == "rep" and rest[0][2] == 0 and rest[0][3] == 1:
            return rest[0][1]
        raise Unsupported("items after the fixed prefix are not a single optional group")


# ---- decimal numeral sub-language --------------------------------------------------------

def decimal_bound(node):
    """For a node whose language should be decimal numerals `digits[.digits]`: return
    (ok, reason, sup_is_le_1).  ok=False when the language is not a plain decimal numeral
    language over [0-9.] with at most one dot."""
    branches = node[1] if node[0] == "alt" else [node]
    worst = None
    for br in branches:
        items = br[1] if br[0] == "seq" else [br]
        # split at the dot
        int_items, frac_items, seen_dot = [], [], False
        for it in items:
            if not seen_dot:
                if it == ("class", frozenset(["."])):
                    seen_dot = True
                    continue
                if it[0] == "rep" and it[2] == 0 and it[3] == 1:
                    # optional fraction group `(\.digits)?`
                    inner = it[1]
                    inner_items = inner[1] if inner[0] == "seq" else [inner]
                    if inner_items and inner_items[0] == ("class", frozenset(["."])):
                        seen_dot = True
                        frac_items.extend(inner_items[1:])
                        continue
                    return False, "optional group that is not a fraction", False
                int_items.append(it)
            else:
                frac_items.append(it)
        for it in int_items + frac_items:
            cs = chars_of(it)
            if not cs <= set("0123456789"):
                return False, f"characters {sorted(cs - set('0123456789'))} in a numeral", False
        if not int_items:
            return False, "numeral without an integer part", False
        # maximal integer part
        if max_len(("seq", int_items)) is None:
            if any(c != "0" for c in chars_of(("seq", int_items))):
                return True, "unbounded integer part", False
            imax = 0
        else:
            imax = _max_int(int_items)
        if imax >= 2:
            return True, f"integer part can be {imax}", False
        if imax == 1:
            fc = chars_of(("seq", frac_items)) if frac_items else set()
            if fc - {"0"}:
                return True, "integer part 1 with a non-zero fraction (e.g. 1.5)", False
    return True, "", True


def _max_int(items):
    """maximal numeric value of the digit strings generated by a bounded sequence of items."""
    best = [""]

    def gen(its):
        if not its:
            return [""]
        head, tail = its[0], its[1:]
        heads = _max_words(head)
        tails = gen(tail)
        return [h + t for h in heads for t in tails]
    words = gen(list(items))
    return max(int(w) if w else 0 for w in words)


def _max_words(n):
    if n[0] == "class":
        return [max(n[1])]
    if n[0] == "seq":
        out = [""]
        for x in n[1]:
            ws = _max_words(x)
            out = [a + b for a in out for b in ws]
        return out
    if n[0] == "alt":
        out = []
        for x in n[1]:
            out.extend(_max_words(x))
        return out
    if n[0] == "rep":
        ws = _max_words(n[1])
        hi = n[3]
        out = []
        for k in {n[2], hi}:
            cur = [""]
            for _ in range(k):
                cur = [a + b for a in cur for b in ws]
            out.extend(cur)
        return out
    raise Unsupported(n[0])


def words_upto(n, limit):
    """the finite set of words of length <= limit in the language of AST node n (classes expand to their characters)"""
    k = n[0]
    if k == "class":
        return set(n[1]) if limit >= 1 else set()
    if k in ("bol", "eol"):
        return {""}
    if k == "seq":
        out = {""}
        for x in n[1]:
            nxt = set()
            for w in out:
                for v in words_upto(x, limit - len(w)):
                    if len(w) + len(v) <= limit:
                        nxt.add(w + v)
            out = nxt
            if not out:
                break
        return out
    if k == "alt":
        out = set()
        for x in n[1]:
            out |= words_upto(x, limit)
        return out
    if k == "rep":
        lo, hi = n[2], n[3]
        out = set()
        cur = {""}
        i = 0
        while True:
            if i >= lo:
                out |= cur
            if hi is not None and i >= hi:
                break
            nxt = set()
            for w in cur:
                for v in words_upto(n[1], limit - len(w)):
                    if v and len(w) + len(v) <= limit:
                        nxt.add(w + v)
            if not nxt or nxt <= out and i >= lo:
                if i >= lo:
                    break
            cur = nxt
            i += 1
            if i > limit + 1:
                break
        return out
    raise Unsupported(k)


def canonical_weights_upto(limit):
    """numerals of the weight notation in [0,1]: 0, 1, 0.d+, 1.0+ (length <= limit)"""
    out = {"0", "1"}
    digs = "0123456789"
    frac = [""]
    for _ in range(limit - 2):
        frac = [f + d for f in frac for d in digs]
        for f in frac:
            out.add("0." + f)
            if set(f) <= {"0"}:
                out.add("1." + f)
    return {w for w in out if len(w) <= limit}
