"""Control-flow graph of one MIR body: successors with edge labels, dominators on the
edge-split graph (so that "dominated by the true edge of this switch" is a plain
dominance query), natural loops, reachability, chop."""


def term_succs(term):
    """list of (label, target) for a terminator (unwind edges are not modelled)."""
    k = term["k"]
    if k == "goto":
        return [("goto", term["to"])]
    if k == "switch":
        out = [(v, t) for v, t in term["arms"]]
        out.append(("otherwise", term["otherwise"]))
        return out
    if k in ("call",):
        return [("ret", term["to"])] if term.get("to") is not None else []
    if k in ("assert", "drop"):
        return [("ok", term["to"])]
    if k == "other":
        # FalseEdge / FalseUnwind etc. do not survive to optimized MIR; anything else: no successors
        return []
    return []


class Cfg:
    def __init__(self, fn):
        self.fn = fn
        blocks = fn.blocks
        n = len(blocks)
        self.n = n
        self.succ_edges = [term_succs(b["term"]) for b in blocks]
        self.succs = [sorted({t for _, t in e}) for e in self.succ_edges]
        self.preds = [[] for _ in range(n)]
        for b, ss in enumerate(self.succs):
            for t in ss:
                self.preds[t].append(b)
        # reachable from entry (cleanup blocks are unreachable without unwind edges)
        self.reachable = self._reach_from(0)
        # edge-split graph: node ids 0..n-1 blocks, n.. edges
        self.edge_id = {}
        self.edges = []  # (src, label, dst)
        g_succ = [[] for _ in range(n)]
        for b in range(n):
            for (lab, t) in self.succ_edges[b]:
                eid = n + len(self.edges)
                self.edge_id[(b, lab)] = eid
                self.edges.append((b, lab, t))
                g_succ[b].append(eid)
                g_succ.append([t])
        self._g_succ = g_succ
        self._dom = self._dominators(g_succ)

    # ---- reachability -------------------------------------------------------------
    def _reach_from(self, start, succs=None):
        succs = succs or self.succs
        seen = {start}
        st = [start]
        while st:
            x = st.pop()
            for y in succs[x]:
                if y not in seen:
                    seen.add(y)
                    st.append(y)
        return seen

    def reach_from(self, b):
        return self._reach_from(b)

    def reaches(self, b):
        """blocks from which b is reachable (including b)."""
        seen = {b}
        st = [b]
        while st:
            x = st.pop()
            for y in self.preds[x]:
                if y not in seen:
                    seen.add(y)
                    st.append(y)
        return seen

    def chop(self, src, dst):
        return self.reach_from(src) & self.reaches(dst)

    # ---- dominators ---------------------------------------------------------------
    def _dominators(self, g_succ):
        total = len(g_succ)
        preds = [[] for _ in range(total)]
        for a, ss in enumerate(g_succ):
            for t in ss:
                preds[t].append(a)
        # reachable set in split graph
        seen = {0}
        order = []
        st = [0]
        while st:
            x = st.pop()
            order.append(x)
            for y in g_succ[x]:
                if y not in seen:
                    seen.add(y)
                    st.append(y)
        full = (1 << total) - 1
        dom = [full] * total
        dom[0] = 1
        changed = True
        while changed:
            changed = False
            for x in order:
                if x == 0:
                    continue
                acc = full
                for p in preds[x]:
                    if p in seen:
                        acc &= dom[p]
                acc |= (1 << x)
                if acc != dom[x]:
                    dom[x] = acc
                    changed = True
        self._seen_split = seen
        return dom

    def dominates(self, a, b):
        """block a dominates block b (both reachable)."""
        return bool((self._dom[b] >> a) & 1)

    def edge_dominates(self, src, label, b):
        eid = self.edge_id.get((src, label))
        if eid is None:
            return False
        return bool((self._dom[b] >> eid) & 1)

    def dominating_edges(self, b):
        """all (src, label, dst) edges that dominate block b, in no particular order."""
        out = []
        d = self._dom[b]
        for i, e in enumerate(self.edges):
            if (d >> (self.n + i)) & 1:
                out.append(e)
        return out

    def edge_dominates_edge(self, src, label, src2, label2):
        e1 = self.edge_id.get((src, label))
        e2 = self.edge_id.get((src2, label2))
        if e1 is None or e2 is None:
            return False
        return bool((self._dom[e2] >> e1) & 1)

    # ---- loops --------------------------------------------------------------------
    def back_edges(self):
        out = []
        for b in self.reachable:
            for t in self.succs[b]:
                if self.dominates(t, b):
                    out.append((b, t))
        return out

    def loops(self):
        """dict header -> set of blocks of the natural loop(s) with that header."""
        res = {}
        for (tail, head) in self.back_edges():
            body = {head, tail}
            st = [tail]
            while st:
                x = st.pop()
                if x == head:
                    continue
                for p in self.preds[x]:
                    if p not in body and p in self.reachable:
                        body.add(p)
                        st.append(p)
            res.setdefault(head, set()).update(body)
        return res

    def has_loops(self):
        return bool(self.back_edges())

    def return_blocks(self):
        return [b for b in self.reachable if self.fn.blocks[b]["term"]["k"] == "return"]
