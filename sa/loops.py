"""Recognition of `for` loops in MIR and of the iterator chain they consume."""
from . import prov as P


class ForLoop:
    def __init__(self, fn, header, next_block, body, exit_block, some_block, next_path, iter_term, item_term):
        self.fn = fn
        self.header = header            # loop header block (contains/leads to the next() call)
        self.next_block = next_block    # block whose terminator is the next() call
        self.body = body                # set of blocks of the natural loop
        self.exit_block = exit_block    # target of the None arm
        self.some_block = some_block    # target of the Some arm
        self.next_path = next_path      # resolved callee of next()
        self.iter_term = iter_term      # provenance of the iterator value
        self.item_term = item_term      # term denoting the item: field(variant(call next ..),Some),0)

    @property
    def line(self):
        return self.fn.blocks[self.next_block]["line"]

    def chain(self):
        """(source term, [adaptor call paths from innermost to outermost])."""
        return iterator_chain(self.iter_term)


def is_next_call(term):
    if term["k"] != "call":
        return False
    c = term["callee"]
    return c.get("name") == "next" and (c.get("trait") or "").endswith("iter::Iterator")


def for_loops(fn, pr=None):
    """all `for` loops (natural loops whose header calls Iterator::next and switches on it)."""
    pr = pr or P.Prov(fn)
    cfg = fn.cfg
    out = []
    for header, body in cfg.loops().items():
        # the next() call is in the header block or a straight-line successor within the loop
        nb = header
        seen = set()
        while nb not in seen:
            seen.add(nb)
            t = fn.blocks[nb]["term"]
            if is_next_call(t):
                break
            if t["k"] == "goto" and t["to"] in body:
                nb = t["to"]
                continue
            nb = None
            break
        if nb is None or not is_next_call(fn.blocks[nb]["term"]):
            continue
        call = fn.blocks[nb]["term"]
        sw_b = call["to"]
        sw = fn.blocks[sw_b]["term"]
        if sw["k"] != "switch":
            continue
        swt = pr.operand(sw["on"])
        if swt[0] != "discr":
            continue
        arms = dict((v, t) for v, t in sw["arms"])
        none_t = arms.get(0)
        some_t = arms.get(1, sw["otherwise"] if 1 not in arms else None)
        if none_t is None:
            none_t = sw["otherwise"]
        res_term = pr.call_term(call, nb)
        it = P.strip(res_term[2][0], calls=False)
        item = ("field", ("variant", res_term, "Some"), 0)
        c = call["callee"]
        out.append(ForLoop(fn, header, nb, body, none_t, some_t, c.get("resolved") or c["path"], it, item))
    return out


SOURCE_CALLS_IDENTITY = (
    "<I as std::iter::IntoIterator>::into_iter",
)


ITER_NAMES = {
    "into_iter", "iter", "iter_mut", "enumerate", "rev", "skip", "take", "step_by", "map", "filter", "filter_map", "flat_map",
    "flatten", "cloned", "copied", "zip", "chain", "peekable", "skip_while", "take_while", "inspect", "by_ref", "fuse", "cycle",
    "drain", "keys", "values", "values_mut", "into_keys", "into_values", "chars", "bytes", "char_indices", "split", "rsplit",
    "splitn", "rsplitn", "split_whitespace", "lines", "windows", "chunks", "deref", "deref_mut", "as_slice", "as_ref", "borrow",
    "clone", "to_vec", "into_vec", "into_boxed_slice", "sorted",
}


def iterator_chain(t):
    """peel iterator adaptors: returns (source term, [call paths applied, innermost first])."""
    chain = []
    t = P.strip(t, calls=False)
    while True:
        # loop-carried iterator variable: phi(self, init) -> init
        if t[0] == "phi":
            alts = [a for a in P.alts(t) if a[0] != "self"]
            if len(alts) == 1:
                t = P.strip(alts[0], calls=False)
                continue
            return t, list(reversed(chain))
        if t[0] == "call" and t[2] and t[1].rsplit("::", 1)[-1] in ITER_NAMES:
            chain.append(t[1])
            t = P.strip(t[2][0], calls=False)
            continue
        if t[0] == "cast" and t[1] == "PointerCoercion":
            t = P.strip(t[2], calls=False)
            continue
        return t, list(reversed(chain))


def item_of(t):
    """if term t is (a projection of) the item of some for loop, return the next() call term."""
    t = P.strip(t)
    if t[0] == "field" and t[1][0] == "variant" and t[1][2] == "Some" and t[1][1][0] == "call" \
            and t[1][1][1].endswith("::next"):
        return t[1][1]
    return None


def in_every_iteration(fn, loop, block):
    """the block executes in every iteration that continues: it dominates every back-edge tail."""
    cfg = fn.cfg
    tails = [t for (t, h) in cfg.back_edges() if h == loop.header]
    return block in loop.body and bool(tails) and all(cfg.dominates(block, t) for t in tails)
