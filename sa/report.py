"""Check context: collects rule instances (obligations), violations, assumptions; writes the
evidence file and violation reports; applies the committed known-findings list."""
import hashlib
import json
import os
import re
import sys
import time

from . import facts as F

VERIF = F.VERIF
KNOWN = os.path.join(VERIF, "known_findings.txt")


class Unrecognised(Exception):
    """A positive rule did not find the construct it is written for (fail closed)."""

    def __init__(self, rule, msg, fn=None, line=None):
        super().__init__(msg)
        self.rule = rule
        self.msg = msg
        self.fn = fn
        self.line = line


def load_known():
    opened, fixed = {}, []
    if not os.path.exists(KNOWN):
        return opened, fixed
    for ln in open(KNOWN):
        ln = ln.strip()
        if not ln or ln.startswith("#"):
            continue
        m = re.match(r"open:\s+property=(\S+)\s+key=(\S+)\s*(.*)$", ln)
        if m:
            opened.setdefault(m.group(1), {})[m.group(2)] = m.group(3)
            continue
        m = re.match(r"fixed:\s+property=(\S+)\s+(.*)$", ln)
        if m:
            fixed.append((m.group(1), m.group(2)))
    return opened, fixed


class Ctx:
    def __init__(self, prop, tier, seed=0):
        self.prop = prop
        self.tier = tier
        self.seed = seed
        self.t0 = time.time()
        self.obligations = 0
        self.discharged = 0
        self.nontrivial = set()
        self.samples = []
        self.violations = []   # dicts
        self.assumptions = []
        self.rules = {}        # rule -> {"instances": n, "held": n, "desc": str}
        self.analysed_fns = set()
        self.notes = []
        self._facts = {}
        self.level = "other"
        self.explanation = ""
        self.exhaustive = None
        self.trusted_base = []
        self.extra = {}
        self.only_key = None

    # ---- facts ------------------------------------------------------------------------
    def facts(self, config="lib"):
        if config not in self._facts:
            self._facts[config] = F.load(config)
        return self._facts[config]

    # ---- recording --------------------------------------------------------------------
    def rule(self, rule, desc):
        self.rules.setdefault(rule, {"instances": 0, "held": 0, "desc": desc})

    def ok(self, rule, instance, nontrivial=True, sample=False, n=1):
        """`n` instances of `rule` held; `instance` is a printable key of (the first of) them."""
        r = self.rules.setdefault(rule, {"instances": 0, "held": 0, "desc": ""})
        r["instances"] += n
        r["held"] += n
        self.obligations += n
        self.discharged += n
        if nontrivial:
            self.nontrivial.add((rule, str(instance)))
        if sample and len(self.samples) < 40:
            self.samples.append({"rule": rule, "instance": instance, "verdict": "holds"})

    def count_nontrivial(self, rule, n):
        """bulk-register n distinct non-trivial instances (exhaustive table checks)."""
        for i in range(n):
            self.nontrivial.add((rule, i))

    def violation(self, rule, key, detail, fn=None, line=None, file=None, construct=None):
        """key: stable identifier without line numbers: rule|function|construct."""
        r = self.rules.setdefault(rule, {"instances": 0, "held": 0, "desc": ""})
        r["instances"] += 1
        self.obligations += 1
        full_key = f"{rule}|{key}".replace(" ", "_")
        self.violations.append({
            "property": self.prop, "rule": rule, "key": full_key, "function": fn,
            "file": file, "line": line, "construct": construct, "detail": detail,
        })

    def unrecognised(self, rule, msg, fn=None, line=None):
        self.violation(rule, f"{fn or '-'}|unrecognised-shape",
                       "fail closed: " + msg, fn=fn, line=line, construct="unrecognised shape")

    def assume(self, text):
        if text not in self.assumptions:
            self.assumptions.append(text)

    def analysed(self, fns):
        for f in fns:
            self.analysed_fns.add(f if isinstance(f, str) else f.path)

    def floor(self, what, count, minimum):
        """vacuity guard: fewer instances than confirmed by hand means the rule cannot see its constructs any
        more; fail closed (a violation of the rule's shape assumptions), never a silent pass"""
        if count < minimum:
            self.violation(f"{self.prop}.floor", f"{what.replace(' ', '-')}|floor-not-met",
                           f"fail closed: only {count} instances of `{what}` found, at least {minimum} were confirmed by hand on the "
                           f"reference tree; the rule would otherwise pass vacuously", construct="instance floor")

    # ---- finishing --------------------------------------------------------------------
    def finish(self):
        opened, _fixed = load_known()
        opened = opened.get(self.prop, {})
        real = []
        # runs against a scratch copy (ESPADA_REPO, dev-time checker validation) must not overwrite the
        # evidence / reports of /repo
        scratch = F.REPO != "/repo"
        ev_dir = os.path.join(VERIF, "build", "scratch-evidence") if scratch else os.path.join(VERIF, "evidence")
        rep_dir = os.path.join(VERIF, "build", "scratch-reports") if scratch else os.path.join(VERIF, "reports")
        os.makedirs(rep_dir, exist_ok=True)
        os.makedirs(ev_dir, exist_ok=True)
        lines = []
        seen_keys = set()
        for v in self.violations:
            if v["key"] in seen_keys:
                continue
            seen_keys.add(v["key"])
            if self.only_key and v["key"] != self.only_key:
                continue
            if v["key"] in opened:
                lines.append(f"KNOWN-FINDING: property={self.prop} {v['key']} {opened[v['key']]}")
                continue
            real.append(v)
        for v in real:
            h = hashlib.sha1(v["key"].encode()).hexdigest()[:10]
            rel = os.path.join(os.path.relpath(rep_dir, VERIF), f"{self.prop}-{h}.json")
            with open(os.path.join(VERIF, rel), "w") as fh:
                json.dump(v, fh, indent=1)
            loc = f"{v.get('file') or ''}:{v.get('line') or ''}"
            print(f"  rule {v['rule']} violated in {v.get('function')} at {loc}: {v['detail']}")
            lines.append(f"VIOLATION property={self.prop} replay={rel}")
        for name, r in sorted(self.rules.items()):
            print(f"  [{self.prop}] {name}: {r['held']}/{r['instances']} instances hold  {r['desc']}")
        for ln in lines:
            print(ln)
        wall = time.time() - self.t0
        cov = {
            "obligations": self.obligations,
            "discharged": self.discharged,
            "evaluations": self.obligations,
            "distinct_nontrivial": len(self.nontrivial),
            "rule": "one evaluation = one rule instance decided on the current source (a table slot, "
                    "a guarded site, a call site, an SCC, a type fact); non-trivial = the verdict "
                    "depended on a fact extracted from the program (not a constant of the checker); "
                    "distinct by (rule, instance key)",
            "samples": self.samples[:40] if self.samples else [{"note": "no sample recorded"}],
            "explanation": self.explanation,
            "rules": {k: {"instances": v["instances"], "held": v["held"], "desc": v["desc"]}
                      for k, v in self.rules.items()},
            "analysed_functions": len(self.analysed_fns),
            "analysed_function_list": sorted(self.analysed_fns)[:400],
            "checker_cmd": f"./check {self.prop} --tier {self.tier}",
            "trusted_base": self.trusted_base or [
                "rustc 1.97 nightly: type checking, MIR construction, const evaluation, trait resolution",
                "espada-facts driver serialisation", "python rule library under /verif/sa and /verif/rules",
                "normalisation passes over the fact base (sa/desugar.py: std combinators / iterator pipelines with closures; "
                "sa/inline.py: private helpers, jump threading; sa/placefwd.py: single-definition element references; sa/unroll.py: loops over short literal arrays of cases, known function pointers): on the reference tree the only body they rewrite is the `?` of the flop iterator's `Iterator::next` (see normalised_functions)"],
            "normalised_functions": {k: {"desugared": sorted(getattr(v, "desugared", {})), "inlined_into": sorted(getattr(v, "inlined", {})),
                                         "forwarded_refs": sorted(getattr(v, "forwarded", {})),
                                         "unrolled_case_loops": sorted(getattr(v, "unrolled", {}))}
                                     for k, v in self._facts.items()},
            "fact_configs": {k: os.path.basename(v.fact_dir) for k, v in self._facts.items()},
            "notes": self.notes,
        }
        if self.exhaustive is not None:
            cov["exhaustive"] = self.exhaustive
        cov.update(self.extra)
        ev = {
            "property_id": self.prop,
            "tier": self.tier,
            "seed": self.seed,
            "level": self.level,
            "coverage": cov,
            "assumptions": self.assumptions,
            "wall_s": round(wall, 3),
            "violations": len(real),
        }
        with open(os.path.join(ev_dir, f"{self.prop}.json"), "w") as fh:
            json.dump(ev, fh, indent=1)
        print(f"[{self.prop}] tier={self.tier} obligations={self.obligations} discharged={self.discharged} "
              f"violations={len(real)} wall={wall:.1f}s")
        return 1 if real else 0


class FilterCtx:
    """view of a Ctx that only lets through the named rules (used when one property re-evaluates part of another's rules)"""

    def __init__(self, ctx, allowed_suffixes):
        self._ctx = ctx
        self._allowed = tuple(allowed_suffixes)

    def _ok_rule(self, rule):
        return any(rule.endswith("." + a) for a in self._allowed)

    def rule(self, rule, desc):
        if self._ok_rule(rule):
            self._ctx.rule(rule, desc)

    def ok(self, rule, *a, **k):
        if self._ok_rule(rule):
            self._ctx.ok(rule, *a, **k)

    def violation(self, rule, *a, **k):
        if self._ok_rule(rule):
            self._ctx.violation(rule, *a, **k)

    def unrecognised(self, rule, *a, **k):
        if self._ok_rule(rule):
            self._ctx.unrecognised(rule, *a, **k)

    def floor(self, *a, **k):
        pass

    def __getattr__(self, name):
        return getattr(self._ctx, name)


class PrefixCtx:
    """view of a Ctx that renames rules `<old>.x` to `<new>.x` (one property re-evaluating rules written for another,
    because its own statement depends on them); optionally restricted to some rule suffixes"""

    def __init__(self, ctx, old, new, allowed=None):
        self._ctx, self._old, self._new, self._allowed = ctx, old + ".", new + ".", allowed

    def _map(self, rule):
        if rule.startswith(self._old):
            rule = self._new + rule[len(self._old):]
        if self._allowed is not None and not any(rule == self._new + a or rule.startswith(self._new + a + ".") for a in self._allowed):
            return None
        return rule

    def rule(self, rule, desc):
        r = self._map(rule)
        if r:
            self._ctx.rule(r, desc)

    def ok(self, rule, *a, **k):
        r = self._map(rule)
        if r:
            self._ctx.ok(r, *a, **k)

    def violation(self, rule, key, *a, **k):
        r = self._map(rule)
        if r:
            self._ctx.violation(r, key, *a, **k)

    def unrecognised(self, rule, *a, **k):
        r = self._map(rule)
        if r:
            self._ctx.unrecognised(r, *a, **k)

    def count_nontrivial(self, rule, n):
        r = self._map(rule)
        if r:
            self._ctx.count_nontrivial(r, n)

    def floor(self, *a, **k):
        pass

    def assume(self, *a, **k):
        pass

    def __setattr__(self, name, value):
        if name.startswith("_"):
            object.__setattr__(self, name, value)
        # settings made by the borrowed module (level, explanation, exhaustive) are ignored

    def __getattr__(self, name):
        return getattr(self._ctx, name)
