"""Resolved call graph over crate-local bodies.

Edges: direct calls (resolved callee), closure creation, fn-item reification, and
trait-bound callbacks (crate-local impl methods / closures an external generic callee can
reach through its instantiated bounds, as computed by the driver)."""
from . import prov as P


class CallGraph:
    def __init__(self, facts):
        self.F = facts
        self.edges = {}      # path -> set(path)
        self.why = {}        # (a,b) -> description of one witness edge
        self.external = {}   # path -> set(external callee path)
        for p, fn in facts.fns.items():
            self.edges[p] = set()
            self.external[p] = set()
        for p, fn in facts.fns.items():
            self._scan(fn)

    def _add(self, a, b, why):
        if b in self.F.fns:
            self.edges[a].add(b)
            self.why.setdefault((a, b), why)

    def _scan_const(self, fn, c, line):
        if "fn_path" in c:
            self._add(fn.path, c["fn_path"], f"fn item reified at line {line}")

    def _scan_operand(self, fn, op, line):
        if "const" in op:
            self._scan_const(fn, op["const"], line)

    def _scan(self, fn):
        a = fn.path
        bodies = [fn.d] + list(fn.d.get("promoted", []))
        for body in bodies:
            for b in body["blocks"]:
                for s in b["stmts"]:
                    if s["k"] != "assign":
                        continue
                    rv = s["rv"]
                    if "agg" in rv:
                        k = rv["agg"]
                        if isinstance(k, dict) and "closure" in k:
                            self._add(a, k["closure"], f"closure created at line {s['line']}")
                        for o in rv["ops"]:
                            self._scan_operand(fn, o, s["line"])
                    for key in ("use", "a", "b", "repeat"):
                        if key in rv and isinstance(rv[key], dict):
                            self._scan_operand(fn, rv[key], s["line"])
                t = b["term"]
                if t["k"] == "call":
                    c = t["callee"]
                    line = b["line"]
                    for o in t["args"]:
                        self._scan_operand(fn, o, line)
                    if "indirect" in c:
                        self.external[a].add("<indirect call>")
                        continue
                    tgt = c.get("resolved") or c["path"]
                    if tgt in self.F.fns:
                        self._add(a, tgt, f"call at line {line}")
                    elif c["path"] in self.F.fns:
                        self._add(a, c["path"], f"call at line {line}")
                    else:
                        self.external[a].add(tgt)
                    for bi in c.get("bound_impls", []):
                        for k in ("method", "closure", "fnitem"):
                            if k in bi:
                                self._add(a, bi[k], f"callback through bound of {tgt} at line {line}")

    def reach(self, entries):
        seen = set()
        st = [e for e in entries if e in self.edges]
        seen.update(st)
        while st:
            x = st.pop()
            for y in self.edges[x]:
                if y not in seen:
                    seen.add(y)
                    st.append(y)
        return seen

    def sccs(self, nodes=None):
        """strongly connected components with more than one node or a self loop."""
        nodes = set(nodes) if nodes is not None else set(self.edges)
        index = {}
        low = {}
        onstack = set()
        stack = []
        out = []
        counter = [0]

        def strong(v):
            # iterative Tarjan
            work = [(v, iter(sorted(self.edges[v] & nodes)))]
            index[v] = low[v] = counter[0]
            counter[0] += 1
            stack.append(v)
            onstack.add(v)
            while work:
                node, it = work[-1]
                advanced = False
                for w in it:
                    if w not in index:
                        index[w] = low[w] = counter[0]
                        counter[0] += 1
                        stack.append(w)
                        onstack.add(w)
                        work.append((w, iter(sorted(self.edges[w] & nodes))))
                        advanced = True
                        break
                    elif w in onstack:
                        low[node] = min(low[node], index[w])
                if advanced:
                    continue
                work.pop()
                if work:
                    parent = work[-1][0]
                    low[parent] = min(low[parent], low[node])
                if low[node] == index[node]:
                    comp = []
                    while True:
                        w = stack.pop()
                        onstack.discard(w)
                        comp.append(w)
                        if w == node:
                            break
                    if len(comp) > 1 or node in self.edges[node]:
                        out.append(sorted(comp))

        for v in sorted(nodes):
            if v not in index:
                strong(v)
        return out

    def path_between(self, a, b):
        """one call chain a -> ... -> b (list of paths) or None."""
        prev = {a: None}
        st = [a]
        while st:
            x = st.pop(0)
            if x == b and prev[x] is not None or (x == b and a == b and prev.get(x) is not None):
                break
            for y in sorted(self.edges[x]):
                if y not in prev or (y == b and a == b and prev[y] is None):
                    prev[y] = x
                    if y == b:
                        st = []
                        break
                    st.append(y)
        if b not in prev or prev[b] is None:
            return None
        chain = [b]
        x = prev[b]
        while x is not None and x != a:
            chain.append(x)
            x = prev[x]
        chain.append(a)
        return list(reversed(chain))


_cache = {}


def build(facts):
    k = id(facts)
    if k not in _cache:
        _cache[k] = CallGraph(facts)
    return _cache[k]
