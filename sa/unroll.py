"""Normalisation pass: case loops and known function pointers.

`for make in [RankPair::Suited, RankPair::Ofsuit] { .. make(high, kicker) .. }` (duplication removed by looping over a short
literal array of cases) is the same program as the body written out once per element.  The rules' templates describe the
written-out form, so a `for` loop whose source is an array literal of 2..4 elements built on the spot is unrolled in the fact
base:

  * the natural loop must be a plain `for` (header calls `Iterator::next` on `into_iter(move [e1, .., eN])`, the result is only
    read as `(opt as Some).0` inside the body and through the discriminant switch that leaves the loop);
  * the body blocks are copied once per element, reads of the item become the element operand, edges to the header go to the
    next copy (the last one to the loop exit), edges leaving the loop stay as they are;
  * locals whose every definition lies in the body are given a fresh copy per iteration (as separate written-out passes would
    have), so that flow-insensitive provenance does not merge the cases; locals also defined outside stay shared.

Afterwards an indirect call through a local whose single definition chain ends in a function item (`let f = RankPair::Suited as
fn(..)`) becomes the direct call, or the aggregate when the item is a tuple-variant constructor.

Nothing is rewritten on the reference tree (it has no such loop and no indirect call with a known target)."""
import copy

from . import loops as L
from . import prov as P

MAX_BODY = 260
MAX_ELEMS = 4


def _places(node, fn):
    if isinstance(node, dict):
        if "l" in node and "proj" in node and isinstance(node["l"], int):
            fn(node)
            for e in node["proj"]:
                if isinstance(e, dict):
                    _places(e, fn)
            return
        for v in node.values():
            _places(v, fn)
    elif isinstance(node, list):
        for x in node:
            _places(x, fn)


def _retarget(term, mapping):
    k = term["k"]
    if k == "goto":
        term["to"] = mapping.get(term["to"], term["to"])
    elif k == "switch":
        term["arms"] = [[v, mapping.get(t, t)] for v, t in term["arms"]]
        term["otherwise"] = mapping.get(term["otherwise"], term["otherwise"])
    elif k in ("call", "assert", "drop"):
        if term.get("to") is not None:
            term["to"] = mapping.get(term["to"], term["to"])


def _single_def(blocks, l):
    """(kind, block, payload) of the only definition of local l, else None"""
    found = []
    for bi, b in enumerate(blocks):
        if b.get("cleanup"):
            continue
        for si, s in enumerate(b["stmts"]):
            if s["k"] == "assign" and s["place"]["l"] == l and not s["place"]["proj"]:
                found.append(("stmt", bi, s))
        t = b["term"]
        if t["k"] == "call" and t["dest"]["l"] == l and not t["dest"]["proj"]:
            found.append(("call", bi, t))
    return found[0] if len(found) == 1 else None


def unroll_one(f):
    """unroll one case loop of function object f; returns the new fact dict or None"""
    pr = P.Prov(f)
    blocks = f.d["blocks"]
    for lp in L.for_loops(f, pr):
        if len(lp.body) > MAX_BODY:
            continue
        call = blocks[lp.next_block]["term"]
        if "std::array::IntoIter" not in (call["callee"].get("full") or "") and "array::IntoIter" not in (call["callee"].get("resolved") or ""):
            continue
        opt = call["dest"]["l"]
        if call["dest"]["proj"]:
            continue
        # receiver -> iterator local -> into_iter(move arr) -> arr = [ops]
        pl = call["args"][0].get("move") or call["args"][0].get("copy")
        l = pl["l"] if pl and not pl["proj"] else None
        it_local = None
        for _ in range(3):
            d = _single_def(blocks, l) if l is not None else None
            if d is None or d[0] != "stmt" or "ref" not in d[2]["rv"]:
                break
            rp = d[2]["rv"]["ref"]
            if not rp["proj"]:
                it_local = rp["l"]
                break
            if rp["proj"] != ["deref"]:
                break
            l = rp["l"]
        if it_local is None:
            continue
        arr = None
        l = it_local
        for _ in range(4):
            d = _single_def(blocks, l)
            if d is None:
                break
            if d[0] == "stmt":
                rv = d[2]["rv"]
                if "use" in rv:
                    p2 = rv["use"].get("move") or rv["use"].get("copy")
                    if p2 is None or p2["proj"]:
                        break
                    l = p2["l"]
                    continue
                if "agg" in rv and isinstance(rv["agg"], dict) and "array" in rv["agg"]:
                    arr = (d[1], rv["ops"])
                break
            t = d[2]
            if t["callee"].get("name") == "into_iter" and len(t["args"]) == 1:
                p2 = t["args"][0].get("move") or t["args"][0].get("copy")
                if p2 is None or p2["proj"]:
                    break
                l = p2["l"]
                continue
            break
        if arr is None or not (2 <= len(arr[1]) <= MAX_ELEMS) or arr[0] in lp.body:
            continue
        ops = arr[1]
        swb = call["to"]
        sw = blocks[swb]["term"]
        if sw["k"] != "switch":
            continue
        arms = dict((v, t) for v, t in sw["arms"])
        some_t, none_t = arms.get(1), arms.get(0)
        if some_t is None or none_t is None:
            continue
        header_chain = set()
        x = lp.header
        while True:
            header_chain.add(x)
            if x == lp.next_block:
                break
            x = blocks[x]["term"].get("to")
            if x is None or x in header_chain:
                break
        header_chain.add(swb)
        body = sorted(b for b in lp.body if b not in header_chain)
        if some_t not in body:
            continue
        # the option local is only read as (opt as Some).0 inside the body, never written there
        ok = True
        for bi in body:
            b = blocks[bi]

            def chk(plc):
                nonlocal ok
                if plc["l"] == opt:
                    pj = plc["proj"]
                    if not (len(pj) >= 2 and isinstance(pj[0], dict) and pj[0].get("variant") == "Some" and isinstance(pj[1], dict) and pj[1].get("f") == 0):
                        ok = False
            for s in b["stmts"]:
                if s["k"] == "assign" and s["place"]["l"] == opt:
                    ok = False
                _places(s, chk)
            _places(b["term"], chk)
            if b["term"]["k"] == "call" and b["term"]["dest"]["l"] == opt:
                ok = False
        if not ok:
            continue
        # body-local locals: every definition inside the body
        def_blocks = {}
        for bi, b in enumerate(blocks):
            if b.get("cleanup"):
                continue
            for s in b["stmts"]:
                if s["k"] == "assign":
                    def_blocks.setdefault(s["place"]["l"], set()).add(bi)
            t = b["term"]
            if t["k"] == "call":
                def_blocks.setdefault(t["dest"]["l"], set()).add(bi)
        bset = set(body)
        body_locals = sorted(l_ for l_, bs in def_blocks.items() if bs <= bset and l_ > f.arg_count and l_ != 0)
        nd = dict(f.d)
        nb = copy.deepcopy(blocks)
        nl = [dict(x) for x in f.d["locals"]]
        entries = []
        copies = []
        for k, elem in enumerate(ops):
            if k == 0:
                bmap = {b_: b_ for b_ in body}
                lmap = {}
            else:
                bmap = {}
                for b_ in body:
                    bmap[b_] = len(nb)
                    nb.append(copy.deepcopy(blocks[b_]))
                lmap = {}
                for l_ in body_locals:
                    lmap[l_] = len(nl)
                    nl.append(dict(f.d["locals"][l_]))
            copies.append((bmap, lmap, elem))
            entries.append(bmap[some_t])
        for k, (bmap, lmap, elem) in enumerate(copies):
            nxt = entries[k + 1] if k + 1 < len(copies) else none_t
            for b_ in body:
                blk = nb[bmap[b_]]

                def sub(plc, lmap=lmap, elem=elem):
                    if plc["l"] == opt:
                        return
                    if plc["l"] in lmap:
                        plc["l"] = lmap[plc["l"]]
                    for e in plc["proj"]:
                        if isinstance(e, dict) and "idx" in e and e["idx"] in lmap:
                            e["idx"] = lmap[e["idx"]]

                def sub_item(node, elem=elem):
                    """replace operands {move/copy (opt as Some).0 ...} by the element operand (extra projections kept)"""
                    if isinstance(node, dict):
                        for key in list(node.keys()):
                            v = node[key]
                            if isinstance(v, dict) and ("move" in v or "copy" in v):
                                plc = v.get("move") or v.get("copy")
                                if plc["l"] == opt and len(plc["proj"]) >= 2:
                                    rest = plc["proj"][2:]
                                    if "const" in elem:
                                        if rest:
                                            raise ValueError("projection of a constant element")
                                        node[key] = copy.deepcopy(elem)
                                    else:
                                        ep = elem.get("move") or elem.get("copy")
                                        node[key] = {"copy": {"l": ep["l"], "proj": list(ep["proj"]) + copy.deepcopy(rest)}}
                                    continue
                            sub_item(v, elem)
                    elif isinstance(node, list):
                        for i_, v in enumerate(node):
                            if isinstance(v, dict) and ("move" in v or "copy" in v):
                                plc = v.get("move") or v.get("copy")
                                if plc["l"] == opt and len(plc["proj"]) >= 2:
                                    rest = plc["proj"][2:]
                                    if "const" in elem:
                                        if rest:
                                            raise ValueError("projection of a constant element")
                                        node[i_] = copy.deepcopy(elem)
                                    else:
                                        ep = elem.get("move") or elem.get("copy")
                                        node[i_] = {"copy": {"l": ep["l"], "proj": list(ep["proj"]) + copy.deepcopy(rest)}}
                                    continue
                            sub_item(v, elem)
                try:
                    for s in blk["stmts"]:
                        sub_item(s)
                        # `ref (opt as Some).0`: a reference to the element
                        if s["k"] == "assign" and "ref" in s["rv"] and s["rv"]["ref"]["l"] == opt:
                            ep = elem.get("move") or elem.get("copy")
                            if ep is None:
                                raise ValueError("reference to a constant element")
                            s["rv"]["ref"] = {"l": ep["l"], "proj": list(ep["proj"]) + copy.deepcopy(s["rv"]["ref"]["proj"][2:])}
                    sub_item(blk["term"])
                except ValueError:
                    return None
                for s in blk["stmts"]:
                    _places(s, sub)
                _places(blk["term"], sub)
                mapping = dict(bmap)
                mapping[lp.header] = nxt
                mapping[lp.next_block] = nxt
                _retarget(blk["term"], mapping)
        # entry: the header chain is bypassed
        for bi, b in enumerate(nb):
            if bi in bset or any(bi in c[0].values() for c in copies):
                continue
            if bi in header_chain:
                continue
            _retarget(b["term"], {lp.header: entries[0]})
        nd["blocks"] = nb
        nd["locals"] = nl
        nd["unrolled"] = (nd.get("unrolled") or []) + [f.d["blocks"][lp.next_block]["line"]]
        return nd
    return None


def devirtualise(F, f):
    """indirect calls through a local whose definition chain ends in a function item become direct calls / aggregates"""
    blocks = f.d["blocks"]
    changed = None
    for bi, b in enumerate(blocks):
        t = b["term"]
        if t["k"] != "call" or "indirect" not in t["callee"] or b.get("cleanup"):
            continue
        op = t["callee"]["indirect"]
        target = None
        for _ in range(6):
            if "const" in op:
                c = op["const"]
                if "fn" in c:
                    target = c.get("fn_path", c["fn"])
                break
            pl = op.get("move") or op.get("copy")
            if pl is None or pl["proj"]:
                break
            d = _single_def(blocks, pl["l"])
            if d is None or d[0] != "stmt":
                break
            rv = d[2]["rv"]
            if "use" in rv:
                op = rv["use"]
                continue
            if "cast" in rv and isinstance(rv.get("a"), dict):
                op = rv["a"]
                continue
            break
        if target is None:
            continue
        if changed is None:
            changed = dict(f.d)
            changed["blocks"] = copy.deepcopy(blocks)
        nb = changed["blocks"][bi]
        adt, _, var = target.rpartition("::")
        a = F.adts.get(adt)
        if a is not None and any(v["name"] == var for v in a["variants"]):
            vidx = [i for i, v in enumerate(a["variants"]) if v["name"] == var][0]
            nb["stmts"].append({"k": "assign", "place": copy.deepcopy(t["dest"]),
                                "rv": {"agg": {"adt": adt, "variant": var, "vidx": vidx, "local": True}, "ops": copy.deepcopy(t["args"])},
                                "line": b["line"], "exp": False})
            nb["term"] = {"k": "goto", "to": t["to"], "syn": "devirtualised"}
        else:
            local = target in F.fns
            nb["term"]["callee"] = {"path": target, "full": target, "name": target.rsplit("::", 1)[-1], "trait": None, "local": local,
                                    "resolved": target, "resolved_local": local, "resolved_kind": "Item", "generic_args": [], "bound_impls": [],
                                    "syn": "devirtualised"}
    return changed


def normalise(F):
    changed = {}
    for p, f in list(F.fns.items()):
        for _ in range(6):
            nd = unroll_one(f)
            if nd is None:
                break
            f = type(f)(nd, F)
            F.fns[p] = f
            changed[p] = nd["unrolled"]
        nd = devirtualise(F, f)
        if nd is not None:
            F.fns[p] = type(f)(nd, F)
            changed.setdefault(p, []).append("devirtualised")
    return changed
