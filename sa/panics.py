"""Potential-panic site enumeration over the bodies reachable from given entry points, with
sound discharge rules and an audited allowance table (rules/allow_panics.json)."""
import json
import re
import os

from . import idioms as I
from . import prov as P
from . import regexlang
from .facts import VERIF, Broken, AnchorMissing

ALLOW_FILE = os.path.join(VERIF, "rules", "allow_panics.json")

UNWRAPS = {"unwrap", "expect", "unwrap_err", "expect_err", "unwrap_unchecked"}
PANICKING_STD = {
    # callee path suffix -> why it can panic
    "::split_at": "index out of bounds", "::split_at_mut": "index out of bounds",
    "::remove": "index out of bounds", "::swap_remove": "index out of bounds", "Vec::<T, A>::insert": "index out of bounds",
    "::copy_from_slice": "length mismatch", "::clone_from_slice": "length mismatch",
    "::drain": "range out of bounds", "::split_off": "index out of bounds", "::truncate_front": "",
    "::chunks": "zero chunk size", "::windows": "zero window size", "::step_by": "zero step",
    "::borrow_mut": "already borrowed", "::swap": "index out of bounds",
    "::from_digit": "radix", "::to_digit": "radix", "::pow": "overflow", "::abs": "overflow",
    "::div_euclid": "division by zero", "::rem_euclid": "division by zero",
    "::rotate_left": "index out of bounds", "::rotate_right": "index out of bounds",
    "::select_nth_unstable": "index out of bounds", "::replace_range": "range", "::insert_str": "char boundary",
    "::join": "thread panicked",
}
# `remove` on HashMap/HashSet/BTreeMap does not panic
NON_PANICKING = ("std::collections::HashMap", "std::collections::HashSet", "std::collections::BTreeMap",
                 "std::collections::BTreeSet", "hashbrown::")


class Site:
    def __init__(self, fn, block, kind, detail, line, info=None):
        self.fn = fn
        self.block = block
        self.kind = kind
        self.detail = detail
        self.line = line
        self.info = info or {}
        self.discharged_by = None

    @property
    def owner(self):
        return owner_of(self.fn)

    @property
    def key(self):
        return f"{self.owner}|{self.kind}|{self.detail}"


def owner_of(fn):
    """edit-stable home of a site: the self type of the enclosing impl, else the module of the (enclosing) free fn —
    so that extracting a helper method or renaming a private function does not move audited sites"""
    im = fn.impl
    if im and im.get("self_ty"):
        return im["self_ty"]
    p = fn.path
    facts = getattr(fn, "facts", None)
    for _ in range(4):
        par = fn.parent
        if par and facts is not None and par in facts.fns:
            fn = facts.fns[par]
            if fn.impl and fn.impl.get("self_ty"):
                return fn.impl["self_ty"]
            p = fn.path
        else:
            break
    return p.rsplit("::", 1)[0] if "::" in p else p


_FACTS = [None]


def _call_name(path, short):
    """name of a callee inside a site key: a crate-private function can be renamed without any change of behaviour or API, so
    it is named by its role-free signature class, not by its identifier"""
    F = _FACTS[0]
    g = F.fns.get(path) if F is not None else None
    if g is not None and g.d.get("vis") == "restricted" and g.kind in ("Fn", "AssocFn"):
        return "private-fn->" + g.local_ty(0)
    return short


def producer_of(t):
    """short description of what produced the value that is unwrapped / indexed."""
    s = P.strip(t, calls=False)
    if s[0] == "call":
        return "call:" + s[1]
    if s[0] == "phi":
        return "phi(" + ",".join(sorted({producer_of(a) for a in P.alts(s)})) + ")"
    if s[0] in ("field", "index", "cindex"):
        return coarse(s)
    if s[0] == "param":
        return "param"
    if s[0] == "agg":
        return "agg:" + s[1]
    return s[0]


def coarse(t):
    """coarse, edit-stable class of a term (for site keys)."""
    s = t
    while s[0] == "cast" or s[0] in ("ref", "deref") or (s[0] == "call" and len(s[2]) == 1 and P.is_widening_from(s[1])):
        s = s[2] if s[0] == "cast" else (s[2][0] if s[0] == "call" else s[1])
    if P.const_int(s) is not None:
        return "const"
    if s[0] == "param":
        return "param"
    if s[0] == "field":
        b = s[1]
        while b[0] in ("ref", "deref", "field", "variant"):
            b = b[1]
        if b[0] == "param":
            return "field-of-param"
        if b[0] == "call":
            return "field-of-call:" + _call_name(b[1], b[1].rsplit("::", 1)[-1])
        return "field"
    if s[0] == "call":
        return "call:" + _call_name(s[1], "::".join(s[1].replace("<", "").replace(">", "").rsplit("::", 2)[-2:]))
    if s[0] in ("index", "cindex"):
        return "elem-of-" + coarse(s[1])
    if s[0] == "phi":
        return "phi(" + ",".join(sorted({coarse(a) for a in P.alts(s)})) + ")"
    if s[0] == "bin":
        return f"{s[1]}({coarse(s[2])},{coarse(s[3])})"
    return s[0]


def coarse2(t):
    """very coarse operand class for arithmetic sites: const / param / field / call:<name> / elem / expr"""
    s = t
    while s[0] == "cast" or s[0] in ("ref", "deref") or (s[0] == "call" and len(s[2]) == 1 and P.is_widening_from(s[1])):
        s = s[2] if s[0] == "cast" else (s[2][0] if s[0] == "call" else s[1])
    if P.const_int(s) is not None:
        return "const"
    if s[0] == "param":
        return "param"
    if s[0] in ("field", "variant"):
        return "field"
    if s[0] == "call":
        return "call:" + _call_name(s[1], s[1].rsplit("::", 1)[-1])
    if s[0] in ("index", "cindex"):
        return "elem"
    return "expr"


def _asserted_relation(fn, pr, bi):
    """`Op(classA,classB)` of the condition whose failure leads to panic block bi (its only predecessor is a bool switch)"""
    from . import idioms as I_
    preds = [p for p in fn.cfg.preds[bi] if p in fn.cfg.reachable]
    if len(preds) != 1:
        return None
    pb = preds[0]
    t = fn.blocks[pb]["term"]
    if t["k"] != "switch" or t["ty"] != "bool":
        return None
    vals = [v for v, _ in t["arms"]]
    term = pr.operand(t["on"])
    for lab, tgt in fn.cfg.succ_edges[pb]:
        if tgt != bi:
            continue
        truth = I_.edge_truth(term, lab, vals)
        if truth is None:
            return None
        n = I_.norm_rel(term, not truth)      # the relation that holds when the assertion passes
        if n is None or n[0] == "call":
            return None
        return f"{n[0]}({coarse2(n[1])},{coarse2(n[2])})"
    return None


def sites_of(F, fn):
    _FACTS[0] = F
    pr = P.Prov(fn)
    out = []
    for bi in sorted(fn.cfg.reachable):
        blk = fn.blocks[bi]
        t = blk["term"]
        if t["k"] == "assert":
            m = t["msg"]
            kind = m["kind"]
            if kind == "Other":
                # pointer alignment / null checks inserted for raw-pointer writes of vec![..] expansions
                if blk.get("exp"):
                    continue
                out.append(Site(fn, bi, "assert-other", m.get("text", "")[:40], blk["line"]))
            elif kind == "BoundsCheck":
                ln = pr.operand(m["len"])
                ix = pr.operand(m["index"])
                n = P.const_int(ln)
                out.append(Site(fn, bi, "assert-bounds", f"len={n if n is not None else 'dyn'}|idx={coarse(ix)}",
                                blk["line"], {"len": ln, "index": ix}))
            elif kind == "Overflow":
                a, b = pr.operand(m["a"]), pr.operand(m["b"])
                cl = t["cond"].get("move") or t["cond"].get("copy") or {"l": 0}
                ty = fn.local_ty(cl["l"]).strip("()").split(",")[0]
                aty = m["a"]["const"].get("ty") if "const" in m["a"] else \
                    (fn.local_ty((m["a"].get("move") or m["a"].get("copy"))["l"]) if not (m["a"].get("move") or m["a"].get("copy"))["proj"] else None)
                out.append(Site(fn, bi, "assert-overflow", f"{m['op']}:{ty}|{coarse2(a)}|{coarse2(b)}", blk["line"],
                                {"a": a, "b": b, "op": m["op"], "a_ty": aty}))
            else:
                out.append(Site(fn, bi, "assert-" + kind, "", blk["line"]))
        elif t["k"] == "call":
            c = t["callee"]
            if "indirect" in c:
                continue
            path = c.get("resolved") or c["path"]
            name = c.get("name", "")
            args = [pr.operand(a) for a in t["args"]]
            if path.startswith("core::panicking::") or path.startswith("std::rt::begin_panic") or \
                    path.startswith("std::rt::panic") or "panic_fmt" in path or path.endswith("::expect_failed") or \
                    path.endswith("::unwrap_failed"):
                msg = ""
                if args and args[0][0] == "str":
                    msg = args[0][1][:40]
                detail = msg.replace(" ", "_")
                if msg.startswith("assertion failed"):
                    # `assert!(a op b)`: the message is source text (changes with every rename); key the site by the
                    # asserted relation over operand classes instead
                    rel = _asserted_relation(fn, pr, bi)
                    if rel is not None:
                        detail = "assert:" + rel
                out.append(Site(fn, bi, "panic-call", detail, blk["line"], {"args": args}))
                continue
            if t.get("syn") and name == "index":
                # synthesized by sa/desugar.py for `a.iter().zip(&b)` read by position below min(a.len(), b.len()): zip cannot panic
                continue
            ma = P._REF_ARITH.match(path)
            if ma and len(args) == 2:
                # `&a + b` on primitive integers panics on overflow like the plain operator (whose check is an Assert in MIR)
                op_ = {"add": "Add", "sub": "Sub", "mul": "Mul"}[ma.group(3)]
                a_, b_ = P.strip(args[0], calls=False), P.strip(args[1], calls=False)
                out.append(Site(fn, bi, "assert-overflow", f"{op_}:{ma.group(1)}|{coarse2(a_)}|{coarse2(b_)}", blk["line"],
                                {"a": a_, "b": b_, "op": op_, "a_ty": ma.group(1)}))
                continue
            if name in UNWRAPS and (path.startswith("std::option::Option") or path.startswith("std::result::Result")):
                prod = producer_of(args[0]) if args else "?"
                out.append(Site(fn, bi, "unwrap", prod, blk["line"], {"arg": args[0] if args else None, "callee": path}))
                continue
            if name in ("index", "index_mut") and (c.get("trait") or "").startswith("std::ops::Index"):
                ga = c.get("generic_args") or ["?", "?"]
                if path in F.fns:
                    # crate-local Index impl: its own body is analysed; the call is not a site by itself
                    continue
                out.append(Site(fn, bi, "index", f"{ga[0]}[{ga[1] if len(ga) > 1 else '?'}]", blk["line"],
                                {"args": args, "container": ga[0], "index_ty": ga[1] if len(ga) > 1 else "?"}))
                continue
            for suf, why in PANICKING_STD.items():
                if suf in ("::abs", "::pow", "::div_euclid", "::rem_euclid") and "impl f" in path:
                    continue   # float versions do not panic
                if path.endswith(suf) and not any(path.startswith(np) or np in path.split("<")[0] for np in NON_PANICKING) \
                        and path not in F.fns:
                    # HashMap::remove etc. are excluded above
                    if any(np in path for np in NON_PANICKING):
                        break
                    out.append(Site(fn, bi, "std-panicking", path, blk["line"], {"args": args, "why": why}))
                    break
    return out, pr


# ---- discharge rules -----------------------------------------------------------------------

def enum_code_max(F, term):
    """if term is `u8::from(&Enum)` / `u8::from(Enum)` cast to usize: the maximum code, else None."""
    s = P.unwiden(term)
    if s[0] == "call" and s[1].rsplit("::", 1)[-1] in ("from", "into"):
        fn = F.fns.get(s[1])
        if fn is not None and fn.impl and fn.impl.get("self_ty") == "u8":
            fn = I.resolve_forwarding(F, fn)
            tr = fn.impl.get("trait") or ""
            if tr.startswith("std::convert::From<&") and tr.endswith(">"):
                enum_path = tr[len("std::convert::From<&"):-1]
                if enum_path in F.adts and F.adts[enum_path]["kind"] == "Enum":
                    try:
                        tab = I.enum_match_table(F, fn, enum_path)
                    except Exception:
                        return None
                    vals = [I.int_leaf(v) for v in tab.values() if v and v[0] != "diverge"]
                    if vals and all(v is not None for v in vals) and len(vals) == len(F.adts[enum_path]["variants"]):
                        return max(vals)
    return None


def enum_code_exact(F, term):
    """the code when term is `u8::from(Enum::Variant)` of a constant variant, else None"""
    s = P.unwiden(term)
    if not (s[0] == "call" and len(s[2]) == 1):
        return None
    a0 = P.strip(s[2][0])
    nm = a0[2] if a0[0] == "enumc" else (a0[1].rsplit("::", 1)[-1] if a0[0] == "agg" and not a0[2] and a0[1].startswith("adt:") else None)
    if nm is None:
        return None
    fn = F.fns.get(s[1])
    if fn is None or not fn.impl:
        return None
    fn = I.resolve_forwarding(F, fn)
    tr = fn.impl.get("trait") or ""
    enum_path = tr[len("std::convert::From<&"):-1] if tr.startswith("std::convert::From<&") else None
    if enum_path not in F.adts:
        return None
    try:
        tab = I.enum_match_table(F, fn, enum_path)
    except Exception:
        return None
    return I.int_leaf(tab[nm]) if nm in tab and tab[nm] and tab[nm][0] != "diverge" else None


_UBITS = {"u8": 8, "u16": 16, "u32": 32, "u64": 64, "u128": 128, "usize": 64,
          "i8": 7, "i16": 15, "i32": 31, "i64": 63, "i128": 127, "isize": 63}


_FN = [None]      # the function whose site is being discharged (types of parameters)
_ENV = [{}]       # term -> (lo, hi): what the edges dominating the site being discharged say about integer terms


def guard_env(F, fn, pr, block):
    """integer ranges established by the conditions that dominate `block`: `(lo..=hi).contains(&x)` and `x < c` style tests"""
    env = {}
    for (src, lab, dst) in fn.cfg.dominating_edges(block):
        tt = fn.blocks[src]["term"]
        if tt["k"] != "switch" or tt["ty"] != "bool":
            continue
        vals = [v for v, _ in tt["arms"]]
        truth = I.edge_truth(None, lab, vals)
        if truth is None:
            continue
        term = pr.operand(tt["on"])
        while term[0] == "un" and term[1] == "Not":
            term, truth = term[2], not truth
        s_ = P.strip(term, calls=False)
        if truth and s_[0] == "call" and s_[1].endswith("::contains") and "RangeInclusive" in s_[1] and len(s_[2]) == 2:
            r_ = P.strip(s_[2][0], calls=False)
            if r_[0] == "call" and r_[1].endswith("RangeInclusive::<Idx>::new") and len(r_[2]) == 2:
                lo, hi = P.const_int(r_[2][0]), P.const_int(r_[2][1])
                if lo is not None and hi is not None:
                    x = P.strip(s_[2][1])
                    o = env.get(x, (None, None))
                    env[x] = (lo if o[0] is None else max(lo, o[0]), hi if o[1] is None else min(hi, o[1]))
            continue
        rel = I.norm_rel(term, truth)
        if rel is not None:
            op, x, y = rel
            if P.const_int(x) is not None and P.const_int(y) is None:
                op, x, y = I.FLIP[op], y, x
            c = P.const_int(y)
            if c is None:
                continue
            xs = P.strip(P.unwiden(P.strip(x)))
            lo, hi = {"Lt": (None, c - 1), "Le": (None, c), "Gt": (c + 1, None), "Ge": (c, None), "Eq": (c, c)}.get(op, (None, None))
            o = env.get(xs, (None, None))
            env[xs] = (lo if o[0] is None else (o[0] if lo is None else max(lo, o[0])),
                       hi if o[1] is None else (o[1] if hi is None else min(hi, o[1])))
    # only values that cannot change between the test and the site: by-value parameters that are never reassigned
    return {k: v for k, v in env.items() if v[0] is not None and v[1] is not None
            and k[0] == "param" and not pr.defs.get(k[1]) and not fn.local_ty(k[1]).startswith("&")}


def interval(F, t, depth=0):
    """(lo, hi) of an integer term built from constants, enum codes (0..max code), lossless widenings and + - * <<;
    None when any leaf is unbounded."""
    if depth > 12:
        return None
    c = P.const_int(t)
    if c is not None:
        return (c, c)
    if _ENV[0]:
        g = _ENV[0].get(P.strip(t))
        if g is not None:
            return g
    if t[0] == "phi":
        ivs = [interval(F, a, depth + 1) for a in P.alts(t)]
        if ivs and all(iv is not None for iv in ivs):
            return (min(iv[0] for iv in ivs), max(iv[1] for iv in ivs))
        return None
    if t[0] == "discr" and _FN[0] is not None:
        # `*self as usize` on a fieldless enum: between its smallest and largest declared discriminant
        s_ = P.strip(t[1])
        if s_[0] == "param":
            ty = _FN[0].local_ty(s_[1]).lstrip("&").replace("mut ", "")
            a = F.adts.get(ty)
            if a is not None and a["kind"] == "Enum" and all(not v["fields"] for v in a["variants"]):
                ds = [v["discr"] for v in a["variants"]]
                return (min(ds), max(ds))
        return None
    m = enum_code_max(F, t)
    if m is not None:
        e_ = enum_code_exact(F, t)
        return (e_, e_) if e_ is not None else (0, m)
    if t[0] == "call" and len(t[2]) == 1 and P.is_widening_from(t[1]):
        return interval(F, t[2][0], depth + 1)
    if t[0] == "cast" and t[1] == "IntToInt":
        # an `as` cast keeps the value only when it fits the target type
        r = interval(F, t[2], depth + 1)
        to = t[4] if len(t) > 4 else None
        if r is None:
            return None
        if to in _UBITS:
            lo_t = -(1 << _UBITS[to]) if to.startswith("i") else 0
            return r if lo_t <= r[0] and r[1] <= (1 << _UBITS[to]) - 1 else None
        return r if 0 <= r[0] and r[1] <= 127 else None
    s = P.strip(t, calls=False)
    if s != t:
        return interval(F, s, depth + 1)
    if t[0] == "field" and t[2] == 0 and t[1][0] == "field" and t[1][2] == 0 and t[1][1][0] == "variant" and t[1][1][2] == "Some":
        # the position component of `for (i, x) in ARRAY.iter().enumerate()`: below the array's length
        nx = t[1][1][1]
        if nx[0] == "call" and nx[1].endswith("::next") and len(nx[2]) == 1:
            from . import loops as L_
            src_, chain_ = L_.iterator_chain(nx[2][0])
            names_ = [c.rsplit("::", 1)[-1] for c in chain_ if c.rsplit("::", 1)[-1] != "into_iter"]
            if names_ == ["iter", "enumerate"] or names_ == ["enumerate"]:
                s0 = P.strip(src_, calls=False)
                while s0[0] == "cast" and s0[1] == "PointerCoercion":
                    s0 = P.strip(s0[2], calls=False)
                if s0[0] == "named":
                    v = F.const_value(s0[1])
                    if v and "array" in v and len(v["array"]) > 0:
                        return (0, len(v["array"]) - 1)
        return None
    if t[0] == "field" and t[2] == 0 and t[1][0] == "variant" and t[1][2] == "Some":
        # the payload of `a.checked_sub(b)`: a - b where that is not negative
        c_ = P.strip(t[1][1], calls=False)
        if c_[0] == "call" and c_[1].startswith("core::num::") and c_[1].endswith("::checked_sub") and len(c_[2]) == 2:
            a, b = interval(F, c_[2][0], depth + 1), interval(F, c_[2][1], depth + 1)
            if a is not None and b is not None and a[1] - b[0] >= 0:
                return (max(0, a[0] - b[1]), a[1] - b[0])
        return None
    if t[0] == "bin" and t[1] in ("Add", "Sub", "Mul", "AddWithOverflow", "SubWithOverflow", "MulWithOverflow"):
        a, b = interval(F, t[2], depth + 1), interval(F, t[3], depth + 1)
        if a is None or b is None:
            return None
        op = t[1][:3]
        if op == "Add":
            return (a[0] + b[0], a[1] + b[1])
        if op == "Sub":
            return (a[0] - b[1], a[1] - b[0])
        if a[0] >= 0 and b[0] >= 0:
            return (a[0] * b[0], a[1] * b[1])
    if t[0] == "bin" and t[1] == "Shl":
        a, b = interval(F, t[2], depth + 1), interval(F, t[3], depth + 1)
        if a is not None and b is not None and a[0] >= 0 and 0 <= b[0] and b[1] < 64:
            return (a[0] << b[0], a[1] << b[1])
    return None


_SHORTENING = {"iter", "into_iter", "iter_mut", "rev", "copied", "cloned", "enumerate", "skip", "take", "step_by", "filter",
               "filter_map", "map", "inspect", "peekable", "take_while", "skip_while", "zip", "by_ref", "fuse"}


def _trip_bound(F, fn, loop):
    """upper bound of the number of iterations of a `for` loop over a fixed-length array (through adaptors that cannot
    lengthen the sequence), else None"""
    src, chain = loop.chain()
    if any(c.rsplit("::", 1)[-1] not in _SHORTENING for c in chain):
        return None
    s = P.strip(src, calls=False)
    if s[0] == "param":
        m = re.match(r"^&?(?:mut )?\[.*; (\d+)\]$", fn.local_ty(s[1]))
        return int(m.group(1)) if m else None
    if s[0] == "named":
        v = F.const_value(s[1])
        if v and "array" in v:
            return len(v["array"])
    return None


def _bounded_counter(F, fn, pr, site):
    """`S += c` where S (a scalar local or the elements of a local array) starts at a constant, is only ever changed by
    `+= const` / `-= ..` statements, never escapes by `&mut`, and every `+=` sits in `for` loops over fixed-length arrays:
    S <= init + sum(c_j * trips_j).  Sound without knowing which element is incremented (the bound is on the total)."""
    from . import loops as L
    if site.info.get("op") != "Add":
        return None
    blk = fn.blocks[site.block]
    t = blk["term"]
    if t["k"] != "assert":
        return None
    cl = t["cond"].get("move") or t["cond"].get("copy")
    if cl is None:
        return None
    src = None
    for s in blk["stmts"]:
        if s["k"] == "assign" and s["place"]["l"] == cl["l"] and not s["place"]["proj"] and s["rv"].get("bin") == "AddWithOverflow":
            a = s["rv"]["a"]
            src = a.get("copy") or a.get("move")
    if src is None or any(e == "deref" for e in src["proj"]):
        return None
    S = src["l"]
    if S == 0 or S <= fn.arg_count:
        return None
    m = re.match(r"(\w+):(\w+)", site.detail)
    bits = _UBITS.get(m.group(2)) if m else None
    if not bits:
        return None
    # no `&mut S..` anywhere, no call writes into S
    for bi, b in enumerate(fn.blocks):
        if b["cleanup"]:
            continue
        for s in b["stmts"]:
            if s["k"] == "assign" and "ref" in s["rv"] and s["rv"].get("mut") and s["rv"]["ref"]["l"] == S:
                return None
            if s["k"] == "assign" and "raw" in s["rv"] and s["rv"]["raw"].get("l") == S:
                return None
        tt = b["term"]
        if tt["k"] == "call" and tt["dest"]["l"] == S:
            return None
    fl = L.for_loops(fn, pr)
    by_header = {l.header: l for l in fl}
    natural = fn.cfg.loops()
    total = 0
    inits = 0

    def single_def(l):
        ds = pr.defs.get(l, [])
        return ds[0] if len(ds) == 1 and ds[0][2] == "rv" else None
    writes = [(bi, si, rv) for (bi, si, kind, rv) in pr.defs.get(S, []) if kind == "rv"] + \
             [(bi, si, rv) for (bi, si, pl, rv) in pr.stores.get(S, [])]
    if len(writes) != len(pr.defs.get(S, [])) + len(pr.stores.get(S, [])):
        return None
    for (bi, si, rv) in writes:
        if bi not in fn.cfg.reachable:
            continue
        if "use" in rv and "const" in rv["use"] and isinstance(rv["use"]["const"].get("int"), int):
            inits = max(inits, rv["use"]["const"]["int"])
            continue
        if "repeat" in rv and "const" in rv["repeat"] and isinstance(rv["repeat"]["const"].get("int"), int):
            inits = max(inits, rv["repeat"]["const"]["int"])
            continue
        u = rv.get("use")
        pl = (u.get("move") or u.get("copy")) if u else None
        if not pl or len(pl["proj"]) != 1 or not isinstance(pl["proj"][0], dict) or pl["proj"][0].get("f") != 0:
            return None
        d = single_def(pl["l"])
        if d is None:
            return None
        brv = d[3]
        if brv.get("bin") == "SubWithOverflow":
            a = brv["a"].get("copy") or brv["a"].get("move")
            if a and a["l"] == S:
                continue
            return None
        if brv.get("bin") != "AddWithOverflow":
            return None
        a = brv["a"].get("copy") or brv["a"].get("move")
        c = brv["b"].get("const", {}).get("int") if "const" in brv["b"] else None
        if c is None and a and a["l"] == S:
            # `S += w` with w bounded (a weight chosen by a match on an enum, `1 << (12 - code)`, ..): the upper bound counts
            ivw = interval(F, pr.operand(brv["b"]))
            if ivw is not None and ivw[0] >= 0:
                c = ivw[1]
        if not a or a["l"] != S or not isinstance(c, int) or c < 0:
            return None
        trips = 1
        for h, body in natural.items():
            if bi in body:
                lp = by_header.get(h)
                n = _trip_bound(F, fn, lp) if lp is not None else None
                if n is None:
                    return None
                trips *= n
        total += c * trips
    if inits + total <= (1 << bits) - 1:
        return "R-bounded-counter"
    return None


def _position_index(F, fn, pr, site, n):
    """the index is the position a scan stopped at: a counter (0, += 1 per missed element) captured as `Some(counter)` inside
    a `for` loop over at most n elements, before that iteration's increment -- so it is at most (elements - 1) < n"""
    from . import loops as L
    t = P.strip(P.narrow_deep(P.strip(site.info["index"])))
    cl = None
    for l, ds in pr.defs.items():
        if len(ds) >= 2 and (pr.local(l) == t or ("self", l) == t):
            al = P.alts(pr.local(l))
            if len(al) == 2 and any(P.const_int(a) == 0 for a in al) and \
                    any(a[0] == "bin" and a[1] == "Add" and a[2] == ("self", l) and P.const_int(a[3]) == 1 for a in al):
                cl = l
    if cl is None:
        return None
    incs = [bi for (bi, si, k, rv) in pr.defs[cl] if k == "rv" and "bin" in rv]
    hits = []
    for bi in sorted(fn.cfg.reachable):
        for s_ in fn.blocks[bi]["stmts"]:
            if s_["k"] == "assign" and "agg" in s_["rv"] and isinstance(s_["rv"]["agg"], dict) and s_["rv"]["agg"].get("variant") == "Some" \
                    and s_["rv"]["agg"].get("adt") == "std::option::Option" and len(s_["rv"]["ops"]) == 1:
                o = s_["rv"]["ops"][0]
                pl = o.get("copy") or o.get("move")
                if pl and pl["l"] == cl and not pl["proj"]:
                    hits.append(bi)
    if not hits or not incs:
        return None
    for lp in L.for_loops(fn, pr):
        if all(h in lp.body or fn.cfg.dominates(lp.header, h) for h in hits) and all(i_ in lp.body for i_ in incs):
            nb = _trip_bound(F, fn, lp)
            if nb is None:
                src, chain = lp.chain()
                s0 = P.strip(src, calls=False)
                if s0[0] == "repeat" and all(c.rsplit("::", 1)[-1] in _SHORTENING for c in chain):
                    nb = int(s0[2])          # a local array `[0; N]`
            if nb is None or nb > n:
                continue
            # no increment between the loop header and a hit within one iteration
            ok = True
            for i_ in incs:
                r_ = I.reachable_avoiding(fn, [], start=i_, removed_blocks=[lp.header])
                if any(h in r_ for h in hits):
                    ok = False
            if ok:
                return "R-position-index"
    return None


def discharge(F, cg, site, pr, ctxinfo):
    fn = site.fn
    _ENV[0] = {}
    _FN[0] = fn
    if site.kind in ("assert-bounds", "assert-overflow"):
        try:
            _ENV[0] = guard_env(F, fn, pr, site.block)
        except Exception:
            _ENV[0] = {}
    try:
        return _discharge(F, cg, site, pr, ctxinfo)
    finally:
        _ENV[0] = {}


def _discharge(F, cg, site, pr, ctxinfo):
    fn = site.fn
    if site.kind == "assert-bounds":
        n = P.const_int(site.info["len"])
        i = P.const_int(site.info["index"])
        if n is not None and i is not None and 0 <= i < n:
            return "R-const"
        if n is not None:
            m = enum_code_max(F, site.info["index"])
            if m is not None and m < n:
                return "R-enum-index"
            iv = interval(F, site.info["index"]) or interval(F, P.strip(P.narrow_deep(P.strip(site.info["index"]))))
            if iv is not None and 0 <= iv[0] and iv[1] < n:
                return "R-interval"
            r = _position_index(F, fn, pr, site, n)
            if r:
                return r
            # index is the item of a `for i in 0..CONST` loop? (not present in this crate)
    if site.kind == "assert-overflow":
        a, b = P.const_int(site.info["a"]), P.const_int(site.info["b"])
        if a is not None and b is not None:
            return "R-const"
        # code(enum) + small constant: the code is at most the number of variants (C13's tables)
        if site.info.get("op") == "Add":
            for x, c in ((site.info["a"], b), (site.info["b"], a)):
                if c is not None and 0 <= c <= 64:
                    xs = x
                    while xs[0] == "cast" or (xs[0] == "call" and xs[1] not in F.fns and xs[1].rsplit("::", 1)[-1] in ("from", "into") and len(xs[2]) == 1):
                        xs = xs[2] if xs[0] == "cast" else xs[2][0]
                    m = enum_code_max(F, xs)
                    if m is not None and m + c <= 255:
                        return "R-enum-code-arith"
        # interval arithmetic over enum codes and constants: `12 - code(rank)`, `1 << (12 - code(rank))`
        ia, ib = interval(F, site.info["a"]), interval(F, site.info["b"])
        m = re.match(r"(\w+):(\w+)", site.detail)
        bits = _UBITS.get(m.group(2)) if m else None
        if ia is not None and ib is not None and bits:
            op = site.info.get("op")
            signed = m.group(2).startswith("i")
            lo_min = -(1 << bits) if signed else 0
            hi_max = (1 << bits) - 1
            res = None
            if op == "Add":
                res = (ia[0] + ib[0], ia[1] + ib[1])
            elif op == "Sub":
                res = (ia[0] - ib[1], ia[1] - ib[0])
            elif op == "Mul" and ia[0] >= 0 and ib[0] >= 0:
                res = (ia[0] * ib[0], ia[1] * ib[1])
            if res is not None and lo_min <= res[0] and res[1] <= hi_max:
                return "R-interval"
        if ib is not None and site.info.get("op") in ("Shl", "Shr") and site.info.get("a_ty") in _UBITS:
            aty = site.info["a_ty"]
            width = _UBITS[aty] + 1 if aty.startswith("i") else _UBITS[aty]
            if 0 <= ib[0] and ib[1] < width:
                return "R-interval"
        r = _bounded_counter(F, fn, pr, site)
        if r:
            return r
    if site.kind == "unwrap":
        arg = site.info.get("arg")
        if arg is not None:
            s = P.strip(arg, calls=False)
            # Regex::new(literal).unwrap()
            if s[0] == "call" and s[1] == "regex::Regex::new" and s[2]:
                lit = P.strip(s[2][0])
                if lit[0] == "str":
                    try:
                        regexlang.parse(lit[1])
                        return "R-regex-literal"
                    except regexlang.Unsupported:
                        return None
            # map.get(k).unwrap() guarded by map.contains_key(k)
            if s[0] == "call" and s[1].rsplit("::", 1)[-1] == "get" and len(s[2]) == 2:
                mp, key = P.strip(s[2][0]), P.strip(s[2][1])
                edges = []
                for b, lab, truth, term in I.bool_edges(fn, pr):
                    tt, tr = term, truth
                    while tt[0] == "un" and tt[1] == "Not":
                        tt, tr = tt[2], not tr
                    if tt[0] == "call" and tt[1].rsplit("::", 1)[-1] == "contains_key" and len(tt[2]) == 2 and tr \
                            and P.strip(tt[2][0]) == mp and P.strip(tt[2][1]) == key:
                        edges.append((b, lab))
                if edges and I.guarded_by(fn, site.block, edges):
                    return "R-checked-get"
            # unwrap of a literal Some(..)
            if s[0] == "agg" and s[1].endswith("Option::Some"):
                return "R-some-literal"
    if site.kind == "index" and "RangeFrom<usize>" in site.info.get("index_ty", "") and site.info.get("container", "").startswith("["):
        # ARRAY[start..] on a fixed-size array: in range when start <= N
        m_ = re.match(r"^\[.*; (\d+)\]$", site.info.get("container", ""))
        args_ = site.info.get("args") or []
        if m_ and len(args_) == 2:
            rng_ = P.strip(args_[1], calls=False)
            if rng_[0] == "agg" and rng_[1].endswith("RangeFrom::RangeFrom") and len(rng_[2]) == 1:
                iv = interval(F, P.strip(rng_[2][0]))
                if iv is not None and 0 <= iv[0] and iv[1] <= int(m_.group(1)):
                    return "R-interval"
    if site.kind == "index" and "RangeFrom<usize>" in site.info.get("index_ty", "") and site.info.get("container", "").startswith("std::vec::Vec<"):
        r = _range_from_after_index(fn, pr, site)
        if r:
            return r
    if site.kind == "panic-call":
        # panic arm of a match on an integer parameter; all callers pass covered constants
        r = callers_const(F, cg, fn, site, pr)
        if r:
            return r
    for extra in ctxinfo.get("extra_discharge", []):
        r = extra(F, cg, site, pr)
        if r:
            return r
    return None


LEN_CHANGING = ("push", "pop", "clear", "truncate", "remove", "swap_remove", "insert", "drain", "resize", "resize_with",
                "retain", "dedup", "append", "split_off", "extend", "set_len", "shrink_to", "extend_from_slice")


def _range_from_after_index(fn, pr, site):
    """`v[x + 1..]` on a Vec whose element `v[x]` was accessed (bounds-checked) on every path to the site, with no call that
    can change v's length in the function: x < len, hence x + 1 <= len and the slice start is in range."""
    args = site.info["args"]
    if len(args) != 2:
        return None
    recv = P.strip(args[0])
    rng = P.strip(args[1], calls=False)
    if not (rng[0] == "agg" and rng[1].endswith("RangeFrom::RangeFrom") and len(rng[2]) == 1):
        return None
    st = P.strip(rng[2][0])
    if not (st[0] == "bin" and st[1] == "Add" and P.const_int(st[3]) == 1):
        return None
    x = P.strip(st[2])
    for bi, t in fn.calls():
        if bi in fn.cfg.reachable and t["callee"].get("name") in LEN_CHANGING and t["args"] and P.strip(pr.operand(t["args"][0])) == recv:
            return None
    for bi, t in fn.calls():
        if bi == site.block or bi not in fn.cfg.reachable or not fn.cfg.dominates(bi, site.block):
            continue
        c = t["callee"]
        if c.get("name") in ("index", "index_mut") and (c.get("trait") or "").startswith("std::ops::Index") and len(t["args"]) == 2:
            ga = c.get("generic_args") or []
            if len(ga) > 1 and ga[1] == "usize" and P.strip(pr.operand(t["args"][0])) == recv and P.strip(pr.operand(t["args"][1])) == x:
                return "R-range-from-after-index"
    return None


def callers_const(F, cg, fn, site, pr):
    """site is reached only through `otherwise` of a switch on parameter k; every call of fn in the
    crate passes a constant that takes another arm."""
    cfg = fn.cfg
    # find switches on a plain integer parameter whose otherwise edge dominates the site
    for (src, lab, dst) in cfg.dominating_edges(site.block):
        t = fn.blocks[src]["term"]
        if t["k"] != "switch" or lab != "otherwise":
            continue
        term = P.strip(pr.operand(t["on"]))
        if term[0] != "param":
            continue
        k = term[1]
        covered = {v for v, _ in t["arms"]}
        callers = [(p, f2) for p, f2 in F.fns.items() if fn.path in cg.edges[p]]
        if not callers:
            return None
        for p, f2 in callers:
            pr2 = P.Prov(f2)
            found = False
            for bi, ct in f2.calls():
                if I.callee_path(ct) != fn.path:
                    continue
                found = True
                v = P.const_int(pr2.operand(ct["args"][k - 1]))
                if v is None or v not in covered:
                    return None
            if not found:
                # reached through a bound / reification: cannot see the argument
                return None
        return "R-callers-const"
    return None


def load_allow():
    if not os.path.exists(ALLOW_FILE):
        return []
    with open(ALLOW_FILE) as fh:
        return json.load(fh)["allow"]


def audit(ctx, F, cg, entries, prop, configs=("lib",), extra_discharge=(), floor_sites=0, reach=None):
    rule = f"{prop}.R-panics"
    ctx.rule(rule, "every potential panic site reachable from the entry points is discharged by a rule or audited")
    allow = [a for a in load_allow() if a.get("prop") in (prop, "*")]
    total = 0
    for config in configs:
        Fc = F if config == F.config else ctx.facts(config)
        cgc = cg if Fc is F else __import__("sa.callgraph", fromlist=["build"]).build(Fc)
        rch = cgc.reach(entries) if reach is None or Fc is not F else reach
        budget = {}
        groups = {}      # group name -> the one budget cell its members share
        for a in allow:
            k0 = (a["owner"], a["kind"], a["detail"])
            g = a.get("group")
            if g:
                # alternative forms of one site (the reference form and an accepted second form of the same computation): a tree
                # has one of them, so the members share one budget — the form that is absent leaves no slack for a new site
                cell = groups.setdefault(g, [0, ""])
                cell[0] = max(cell[0], a["count"])
                cell[1] = (cell[1] + " / " if cell[1] else "") + a["reason"]
                budget[k0] = cell
            elif k0 in budget:
                budget[k0][0] += a["count"]
                budget[k0][1] += " / " + a["reason"]
            else:
                budget[k0] = [a["count"], a["reason"]]
        counts = {"discharged": {}, "allowed": 0}
        unall = {}
        for p in sorted(rch):
            fn = Fc.fns[p]
            sites, pr = sites_of(Fc, fn)
            for s in sites:
                total += 1
                r = discharge(Fc, cgc, s, pr, {"extra_discharge": extra_discharge})
                if r:
                    counts["discharged"][r] = counts["discharged"].get(r, 0) + 1
                    ctx.ok(rule, {"site": s.key, "by": r}, sample=(counts["discharged"][r] == 1))
                    continue
                k = (s.owner, s.kind, s.detail)
                b = budget.get(k)
                if b and b[0] > 0:
                    b[0] -= 1
                    counts["allowed"] += 1
                    ctx.ok(rule, {"site": s.key, "by": "audited: " + b[1]}, sample=(counts["allowed"] <= 3))
                    continue
                unall.setdefault(k, []).append(s)
        for k, ss in sorted(unall.items()):
            s = ss[0]
            over = " (exceeds the audited count)" if budget.get(k) else ""
            ctx.violation(rule, f"{k[0]}|{k[1]}|{k[2]}" + ("" if config == "lib" else f"|{config}"),
                          f"{len(ss)} unaudited potential panic site(s){over}: {s.kind} {s.detail} "
                          f"[{config}] — no discharge rule applies and no audited reason covers it",
                          fn=s.fn.path, file=s.fn.file, line=s.line, construct=f"{s.kind}: {s.detail}")
        ctx.extra.setdefault("panic_audit", {})[config] = {
            "reachable_bodies": len(rch), "discharged": counts["discharged"], "audited": counts["allowed"],
            "unaudited_keys": len(unall),
            "unused_allowance": sorted(f"{k[0]}|{k[1]}|{k[2]}={b[0]}" for k, b in budget.items() if b[0] > 0)}
    if total < floor_sites:
        raise AnchorMissing(f"{rule}: only {total} potential panic sites enumerated, floor is {floor_sites}")
    return total
