"""Independent oracle: the 7462 standard five-card strength classes (1 = royal flush,
7462 = 7-5-4-3-2 unsuited) and best-five-of-seven on rank multisets.

Ranks are strengths 12 (ace) .. 0 (deuce).  Nothing here looks at the repository.
"""
from itertools import combinations

CATEGORIES = ["StraightFlush", "Quads", "FullHouse", "Flush", "Straight", "Trips", "TwoPair",
              "Pair", "HighCard"]
COUNTS = [10, 156, 156, 1277, 10, 858, 858, 2860, 1277]
TOTAL = 7462

# straights by their top card strength; the wheel (5-high) is 3 with ranks {12,3,2,1,0}
STRAIGHTS = []
for top in range(12, 3, -1):
    STRAIGHTS.append(tuple(range(top, top - 5, -1)))
STRAIGHTS.append((3, 2, 1, 0, 12))
STRAIGHT_SETS = {frozenset(s): i for i, s in enumerate(STRAIGHTS)}


def _build():
    flush = {}    # frozenset of 5 distinct ranks -> class when all one suit
    rainbow = {}  # sorted tuple (desc) of 5 ranks -> class when not a flush
    idx = 1
    # straight flush
    for s in STRAIGHTS:
        flush[frozenset(s)] = idx
        idx += 1
    # quads
    for q in range(12, -1, -1):
        for k in range(12, -1, -1):
            if k != q:
                rainbow[tuple(sorted([q] * 4 + [k], reverse=True))] = idx
                idx += 1
    # full house
    for t in range(12, -1, -1):
        for p in range(12, -1, -1):
            if p != t:
                rainbow[tuple(sorted([t] * 3 + [p] * 2, reverse=True))] = idx
                idx += 1
    # flush (non-straight), lexicographically descending
    five = sorted((c for c in combinations(range(12, -1, -1), 5)), reverse=True)
    for c in five:
        if frozenset(c) in STRAIGHT_SETS:
            continue
        flush[frozenset(c)] = idx
        idx += 1
    # straight
    for s in STRAIGHTS:
        rainbow[tuple(sorted(s, reverse=True))] = idx
        idx += 1
    # trips
    for t in range(12, -1, -1):
        others = [r for r in range(12, -1, -1) if r != t]
        for ks in sorted(combinations(others, 2), reverse=True):
            rainbow[tuple(sorted([t] * 3 + list(ks), reverse=True))] = idx
            idx += 1
    # two pair
    for hp in range(12, -1, -1):
        for lp in range(hp - 1, -1, -1):
            for k in range(12, -1, -1):
                if k != hp and k != lp:
                    rainbow[tuple(sorted([hp] * 2 + [lp] * 2 + [k], reverse=True))] = idx
                    idx += 1
    # pair
    for p in range(12, -1, -1):
        others = [r for r in range(12, -1, -1) if r != p]
        for ks in sorted(combinations(others, 3), reverse=True):
            rainbow[tuple(sorted([p] * 2 + list(ks), reverse=True))] = idx
            idx += 1
    # high card
    for c in five:
        if frozenset(c) in STRAIGHT_SETS:
            continue
        rainbow[tuple(c)] = idx
        idx += 1
    assert idx == TOTAL + 1, idx
    return flush, rainbow


FLUSH5, RAINBOW5 = _build()


def category(index):
    """category name of a class index 1..7462."""
    if not (1 <= index <= TOTAL):
        raise ValueError(index)
    acc = 0
    for name, n in zip(CATEGORIES, COUNTS):
        acc += n
        if index <= acc:
            return name
    raise AssertionError


def boundaries():
    out = []
    acc = 0
    for name, n in zip(CATEGORIES, COUNTS):
        out.append((acc + 1, acc + n, name))
        acc += n
    return out


def best_flush(ranks):
    """best class of 5..7 distinct ranks (strengths) all of one suit."""
    rs = sorted(set(ranks), reverse=True)
    assert 5 <= len(rs) <= 7
    return min(FLUSH5[frozenset(c)] for c in combinations(rs, 5))


def best_rainbow(ranks7):
    """best class of seven ranks (with multiplicity) when no flush is possible."""
    rs = sorted(ranks7, reverse=True)
    best = TOTAL + 1
    seen = set()
    for c in combinations(rs, 5):
        if c in seen:
            continue
        seen.add(c)
        v = RAINBOW5[c]
        if v < best:
            best = v
    return best


def multiplicity_vectors(total=7, ranks=13, maxm=4):
    """all vectors q in {0..maxm}^ranks with sum == total."""
    out = []

    def rec(i, left, cur):
        if i == ranks:
            if left == 0:
                out.append(tuple(cur))
            return
        if left > (ranks - i) * maxm:
            return
        for m in range(min(maxm, left), -1, -1):
            cur.append(m)
            rec(i + 1, left - m, cur)
            cur.pop()

    rec(0, total, [])
    return out


if __name__ == "__main__":
    import time
    t = time.time()
    vs = multiplicity_vectors()
    print(len(vs), len(FLUSH5), len(RAINBOW5), time.time() - t)
