"""Decoder of the `fmt::Arguments` template byte code of this nightly (see core/src/fmt/mod.rs)."""
from . import prov as P


class BadTemplate(Exception):
    pass


def decode(bs):
    """-> list of ("lit", str) | ("arg", index, flags|None, width|None, precision|None)"""
    out = []
    i = 0
    nxt = 0
    bs = list(bs)
    while True:
        if i >= len(bs):
            raise BadTemplate("no end marker")
        b = bs[i]
        i += 1
        if b == 0:
            break
        if b < 0x80:
            out.append(("lit", bytes(bs[i:i + b]).decode("utf-8", "replace")))
            i += b
        elif b == 0x80:
            n = bs[i] | (bs[i + 1] << 8)
            i += 2
            out.append(("lit", bytes(bs[i:i + n]).decode("utf-8", "replace")))
            i += n
        elif b & 0xC0 == 0xC0:
            flags = width = prec = None
            idx = None
            if b & 1:
                flags = int.from_bytes(bytes(bs[i:i + 4]), "little")
                i += 4
            if b & 2:
                width = int.from_bytes(bytes(bs[i:i + 2]), "little")
                i += 2
            if b & 4:
                prec = int.from_bytes(bytes(bs[i:i + 2]), "little")
                i += 2
            if b & 8:
                idx = int.from_bytes(bytes(bs[i:i + 2]), "little")
                i += 2
            if idx is None:
                idx = nxt
            nxt = idx + 1
            out.append(("arg", idx, flags, width, prec))
        else:
            raise BadTemplate(f"byte {b:#x}")
    if i != len(bs):
        raise BadTemplate("trailing bytes")
    return out


def format_calls(fn, pr=None):
    """for every `Arguments::new(template, args)` / `Arguments::from_str(lit)` call in fn:
    (block, pieces, [arg terms]) where arg terms are the values handed to Argument::new_*."""
    pr = pr or P.Prov(fn)
    out = []
    for bi, t in fn.calls():
        if bi not in fn.cfg.reachable:
            continue
        c = t["callee"]
        p = c.get("path", "")
        if p.startswith("std::fmt::Arguments") and c.get("name") == "new":
            tmpl = P.strip(pr.operand(t["args"][0]))
            args = P.strip(pr.operand(t["args"][1]))
            if tmpl[0] != "bytes":
                raise BadTemplate(f"template is not a byte literal: {P.show(tmpl)}")
            pieces = decode(tmpl[1])
            vals = []
            if args[0] == "agg" and args[1] == "array":
                for a in args[2]:
                    a = P.strip(a, calls=False)
                    if a[0] == "call" and "Argument" in a[1] and a[2]:
                        vals.append((a[1].rsplit("::", 1)[-1], P.strip(a[2][0])))
                    else:
                        vals.append(("?", a))
            out.append((bi, pieces, vals))
        elif p.startswith("std::fmt::Arguments") and c.get("name") == "from_str":
            s = P.strip(pr.operand(t["args"][0]))
            out.append((bi, [("lit", s[1] if s[0] == "str" else "?")], []))
    return out


_STR_IDENTITY = ("deref", "as_str", "as_ref", "borrow", "to_string", "to_owned", "into", "from", "must_use", "clone", "to_str")


def fold_str(t, depth=0):
    """the text of a string-valued term built only from literals: a literal, a constant, `format!(..)` whose every placeholder
    is a plain `{}` of such a term, and the conversions between str / String (`&*s`, `.as_str()`, `.to_string()`, ..); else None"""
    if depth > 12 or not isinstance(t, tuple):
        return None
    t = P.strip(t, calls=False)
    if t[0] == "str":
        return t[1]
    if t[0] == "named" and len(t) > 2 and t[2] is not None:
        return fold_str(t[2], depth + 1)
    if t[0] != "call":
        return None
    nm = t[1].rsplit("::", 1)[-1]
    if nm == "format" and t[1].endswith("fmt::format") and len(t[2]) == 1:
        a = P.strip(t[2][0], calls=False)
        if not (a[0] == "call" and a[1].startswith("std::fmt::Arguments") and a[2]):
            return None
        if a[1].endswith("::from_str"):
            return fold_str(a[2][0], depth + 1)
        if len(a[2]) != 2:
            return None
        tmpl, args = P.strip(a[2][0]), P.strip(a[2][1])
        if tmpl[0] != "bytes" or not (args[0] == "agg" and args[1] == "array"):
            return None
        try:
            pieces = decode(tmpl[1])
        except (BadTemplate, IndexError):
            return None
        out = []
        for pc in pieces:
            if pc[0] == "lit":
                out.append(pc[1])
                continue
            _, idx, flags, width, prec = pc
            if flags is not None or width is not None or prec is not None or idx >= len(args[2]):
                return None
            av = P.strip(args[2][idx], calls=False)
            if not (av[0] == "call" and av[1].rsplit("::", 1)[-1] == "new_display" and len(av[2]) == 1):
                return None
            s = fold_str(av[2][0], depth + 1)
            if s is None:
                return None
            out.append(s)
        return "".join(out)
    if nm in _STR_IDENTITY and len(t[2]) == 1:
        return fold_str(t[2][0], depth + 1)
    return None
