"""Decision-tree extraction for loop-free functions.

`enumerate_paths` lists every entry→exit path of an acyclic body with the switch
conditions taken (as provenance terms) — it reads the arms, it executes nothing.
`int_partition` turns the paths of a function branching on one integer scrutinee into an
exact interval partition of that scrutinee's domain.
"""
from . import prov as P


class NotLoopFree(Exception):
    pass


class Unanalysable(Exception):
    pass


class Path:
    __slots__ = ("blocks", "conds", "end", "end_block")

    def __init__(self, blocks, conds, end, end_block):
        self.blocks = blocks          # block indexes in order
        self.conds = conds            # list of (switch block, term of switch operand, label, switch ty)
        self.end = end                # "return" | "diverge" | "unreachable"
        self.end_block = end_block


def enumerate_paths(fn, max_paths=20000, start=0, stop_at=None):
    cfg = fn.cfg
    if cfg.has_loops():
        raise NotLoopFree(fn.path)
    pr = P.Prov(fn)
    out = []
    stack = [(start, [start], [])]
    while stack:
        b, blocks, conds = stack.pop()
        term = fn.blocks[b]["term"]
        k = term["k"]
        if stop_at is not None and b in stop_at:
            out.append(Path(blocks, conds, "stop", b))
            continue
        if k == "return":
            out.append(Path(blocks, conds, "return", b))
        elif k == "unreachable":
            out.append(Path(blocks, conds, "unreachable", b))
        elif k == "switch":
            t = pr.operand(term["on"])
            for (lab, tgt) in cfg.succ_edges[b]:
                others = [v for v, _ in term["arms"]] if lab == "otherwise" else None
                stack.append((tgt, blocks + [tgt], conds + [(b, t, lab, term["ty"], others)]))
        else:
            succ = cfg.succ_edges[b]
            if not succ:
                out.append(Path(blocks, conds, "diverge", b))
            for (_, tgt) in succ:
                stack.append((tgt, blocks + [tgt], conds))
        if len(out) > max_paths:
            raise Unanalysable(f"too many paths in {fn.path}")
    return out, pr


def region_paths(fn, start, stop_at, removed=(), max_paths=2000):
    """acyclic paths from `start` to a block of `stop_at` (or a return / diverging block), not taking the (block, label) edges
    in `removed`; a cycle that avoids `stop_at` makes the region unanalysable.  Usable inside functions with loops (one
    iteration of an innermost loop: start = first body block, stop_at = {header})."""
    cfg = fn.cfg
    pr = P.Prov(fn)
    removed = set(removed)
    out = []
    stack = [(start, [start], [])]
    while stack:
        b, blocks, conds = stack.pop()
        term = fn.blocks[b]["term"]
        k = term["k"]
        if b in stop_at and len(blocks) > 1:
            out.append(Path(blocks, conds, "stop", b))
            continue
        if k == "return":
            out.append(Path(blocks, conds, "return", b))
            continue
        if k == "unreachable":
            out.append(Path(blocks, conds, "unreachable", b))
            continue
        succ = [(lab, tgt) for (lab, tgt) in cfg.succ_edges[b] if (b, lab) not in removed]
        if not succ:
            out.append(Path(blocks, conds, "diverge", b))
        for (lab, tgt) in succ:
            if tgt in blocks and tgt not in stop_at:
                raise Unanalysable(f"cycle inside the region in {fn.path}")
            if k == "switch":
                others = [v for v, _ in term["arms"]] if lab == "otherwise" else None
                stack.append((tgt, blocks + [tgt], conds + [(b, pr.operand(term["on"]), lab, term["ty"], others)]))
            else:
                stack.append((tgt, blocks + [tgt], conds))
        if len(out) > max_paths:
            raise Unanalysable(f"too many paths in {fn.path}")
    return out


def last_assign(fn, path, local, pr):
    """term of the last full assignment to `local` along the path (None if none)."""
    res = None
    for b in path.blocks:
        blk = fn.blocks[b]
        for s in blk["stmts"]:
            if s["k"] == "assign" and s["place"]["l"] == local and not s["place"]["proj"]:
                res = ("rv", s["rv"], b)
        t = blk["term"]
        if t["k"] == "call" and t["dest"]["l"] == local and not t["dest"]["proj"]:
            res = ("call", t, b)
    if res is None:
        return None
    if res[0] == "rv":
        return pr.rvalue(res[1])
    return pr.call_term(res[1], res[2])


def diverge_callee(fn, path):
    t = fn.blocks[path.end_block]["term"]
    if t["k"] == "call":
        c = t["callee"]
        return c.get("resolved") or c.get("path")
    return t["k"]


# ---- interval sets ------------------------------------------------------------------------

def iv_and(ivs, lo, hi):
    out = []
    for a, b in ivs:
        x, y = max(a, lo), min(b, hi)
        if x <= y:
            out.append((x, y))
    return out


def iv_minus_point(ivs, v):
    out = []
    for a, b in ivs:
        if v < a or v > b:
            out.append((a, b))
        else:
            if a <= v - 1:
                out.append((a, v - 1))
            if v + 1 <= b:
                out.append((v + 1, b))
    return out


NEG = {"Lt": "Ge", "Le": "Gt", "Gt": "Le", "Ge": "Lt", "Eq": "Ne", "Ne": "Eq"}
FLIP = {"Lt": "Gt", "Le": "Ge", "Gt": "Lt", "Ge": "Le", "Eq": "Eq", "Ne": "Ne"}


def refine(ivs, op, c, lo, hi):
    """intervals of x with `x op c`."""
    if op == "Lt":
        return iv_and(ivs, lo, c - 1)
    if op == "Le":
        return iv_and(ivs, lo, c)
    if op == "Gt":
        return iv_and(ivs, c + 1, hi)
    if op == "Ge":
        return iv_and(ivs, c, hi)
    if op == "Eq":
        return iv_and(ivs, c, c)
    if op == "Ne":
        return iv_minus_point(ivs, c)
    raise Unanalysable(op)


def norm_cmp(term, truth, is_scrut):
    """normalise a bool term compared to `truth` into (op, const) on the scrutinee, or None
    if the term does not mention the scrutinee."""
    if term[0] == "un" and term[1] == "Not":
        return norm_cmp(term[2], not truth, is_scrut)
    if term[0] != "bin" or term[1] not in NEG:
        return None
    op, a, b = term[1], term[2], term[3]
    if is_scrut(a):
        c = P.const_int(b)
        if c is None and b[0] == "char":
            c = b[1]
    elif is_scrut(b):
        c = P.const_int(a)
        if c is None and a[0] == "char":
            c = a[1]
        op = FLIP[op]
    else:
        return None
    if c is None:
        raise Unanalysable(f"comparison of scrutinee with non-constant: {P.show(term)}")
    if not truth:
        op = NEG[op]
    return op, c


def int_partition(fn, is_scrut, lo, hi, allow_other_conds=False):
    """[(intervals, path, prov)] for every feasible path; intervals partition [lo, hi]."""
    paths, pr = enumerate_paths(fn)
    res = []
    for p in paths:
        ivs = [(lo, hi)]
        for (b, t, lab, ty, others) in p.conds:
            if ty == "bool":
                truth = (lab == "otherwise") if others == [0] else (lab != 0)
                if lab == "otherwise" and others != [0]:
                    raise Unanalysable("bool switch of unexpected shape")
                n = norm_cmp(t, truth, is_scrut)
                if n is None:
                    if allow_other_conds:
                        continue
                    raise Unanalysable(f"{fn.path}: branch on something else than the scrutinee: {P.show(t)}")
                ivs = refine(ivs, n[0], n[1], lo, hi)
            else:
                if not is_scrut(t):
                    if allow_other_conds:
                        continue
                    raise Unanalysable(f"{fn.path}: switch on something else than the scrutinee: {P.show(t)}")
                if lab == "otherwise":
                    for v in others:
                        ivs = iv_minus_point(ivs, v)
                else:
                    ivs = iv_and(ivs, lab, lab)
            if not ivs:
                break
        if ivs:
            res.append((ivs, p, pr))
    # partition check: disjoint and covering
    allv = sorted(iv for ivs, _, _ in res for iv in ivs)
    cur = lo
    for a, b in allv:
        if a != cur:
            raise Unanalysable(f"{fn.path}: paths do not partition the domain at {cur} (next interval starts {a})")
        cur = b + 1
    if cur != hi + 1:
        raise Unanalysable(f"{fn.path}: paths do not cover the domain above {cur}")
    return res, pr


class PathProv(P.Prov):
    """provenance restricted to one acyclic path: a local assigned on the path denotes its last
    assignment on the path (path-sensitive), other locals fall back to the flow-insensitive view."""

    def __init__(self, fn, path):
        super().__init__(fn)
        on_path = set(path.blocks)
        self.on_path = on_path
        newdefs = {}
        for l, ds in self.defs.items():
            here = [d for d in ds if d[0] in on_path]
            if here:
                # last in path order
                order = {b: i for i, b in enumerate(path.blocks)}
                here.sort(key=lambda d: (order[d[0]], -1 if d[1] is None else d[1]))
                newdefs[l] = [here[-1]]
            else:
                newdefs[l] = ds
        self.defs = newdefs


def path_term(fn, path, local):
    return PathProv(fn, path).local(local)
