//! Positive examples for rules whose expected instance count on espada is zero.
//! Every thorough run analyses this crate with the same driver and rule code and requires each
//! rule to FIRE here; a rule that stays silent on its own positive example is broken.
#![allow(dead_code, static_mut_refs)]
use std::collections::HashMap;
use std::sync::atomic::{AtomicUsize, Ordering};

// ---- R-norec: recursion through a closure passed to Option::or_else -------------------------
pub struct Walker {
    left: u32,
}

impl Walker {
    fn step(&mut self) -> Option<u32> {
        if self.left % 3 == 0 {
            None
        } else {
            Some(self.left)
        }
    }

    pub fn advance(&mut self) -> Option<u32> {
        if self.left == 0 {
            return None;
        }
        self.left -= 1;
        let found = self.step();
        found.or_else(|| self.advance())
    }
}

// ---- R-narrow: a collection length squeezed into u8 -------------------------------------------
pub fn last_index(v: &Vec<(u32, f32)>) -> u8 {
    v.len() as u8 - 1
}

// ---- no-shared-location: static, static mut, thread-local -----------------------------------
static DEALS: AtomicUsize = AtomicUsize::new(0);
static mut LAST: u8 = 0;
thread_local! {
    static SEEN: std::cell::Cell<u32> = std::cell::Cell::new(0);
}

pub fn touches_static() -> usize {
    DEALS.fetch_add(1, Ordering::Relaxed)
}

pub fn touches_static_mut(x: u8) {
    unsafe {
        LAST = x;
    }
}

pub fn touches_thread_local() -> u32 {
    SEEN.with(|s| {
        s.set(s.get() + 1);
        s.get()
    })
}

// ---- no-hash-order: hash iteration feeding an ordered sink ----------------------------------
pub fn keys_in_hash_order(m: &HashMap<u32, f32>) -> Vec<u32> {
    let mut out = vec![];
    for (k, _) in m {
        out.push(*k);
    }
    out
}

pub fn first_in_hash_order(m: &HashMap<u32, f32>) -> Option<u32> {
    for (k, v) in m {
        if *v > 0.5 {
            return Some(*k);
        }
    }
    None
}

pub fn collected_in_hash_order(m: &HashMap<u32, f32>) -> Vec<u32> {
    m.keys().copied().collect()
}

// ---- unguarded str slicing (R-str-guard must NOT discharge these) ---------------------------
pub fn first_two(s: &str) -> &str {
    if s.len() >= 2 {
        &s[0..2]
    } else {
        s
    }
}

// ---- and one that must be discharged --------------------------------------------------------
pub fn first_two_ascii(s: &str) -> &str {
    if s.len() >= 2 && s.is_ascii() {
        &s[0..2]
    } else {
        s
    }
}
