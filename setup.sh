#!/bin/sh
# Build the framework from files on disk only (offline).
set -e
cd "$(dirname "$0")"
export CARGO_NET_OFFLINE=true
(cd driver && cargo +nightly build --release --offline)
python3 -m compileall -q sa rules >/dev/null
mkdir -p build evidence reports
echo "setup ok"
