#!/usr/bin/env python3
"""Dev-time miss hunting: systematic source mutants of /repo that SURVIVE the baseline tests, run against the checks.

 1. mutants are generated textually from the non-test code of src/ (operator flips, off-by-one constants, dropped statements,
    swapped variants, boolean flips), one edit each;
 2. each is applied to a worker's scratch copy of /repo (under /tmp/espada-mg, own target dir), `cargo test --offline --lib`
    decides killed / survived (compile errors and timeouts are discarded);
 3. every survivor -- a change that still compiles and passes the 1229 tests -- is run against all 16 checks with ESPADA_REPO;
 4. survivors no check reports are listed for manual triage (equivalent mutant, outside every property, or a genuine miss).

Nothing here is part of a registered check; results go to build/mutgen/.
usage: tools/mutgen.py [-j N] [--files substr,...] [--limit N] [--resume]"""
import hashlib, json, os, re, shutil, subprocess, sys, time
from concurrent.futures import ThreadPoolExecutor
import threading, queue
HERE = os.path.dirname(os.path.dirname(os.path.abspath(__file__)))
OUT = os.path.join(HERE, "build", "mutgen")
ROOT = "/tmp/espada-mg"
PROPS = ["C01", "C02", "C03", "C04", "C05", "C06", "C07", "C08", "C09", "C10", "C11", "C12", "C13", "C14", "C15", "C17"]
FILES = ["src/evaluator/dp_table.rs", "src/card/card.rs", "src/card/rank.rs", "src/card/rank_range.rs", "src/card/suit.rs", "src/card/suit_range.rs",
         "src/evaluator/flop_exhaustive.rs", "src/evaluator/made_hand.rs", "src/evaluator/showdown.rs",
         "src/hand_range/card_pair.rs", "src/hand_range/hand_range.rs", "src/hand_range/hand_range_token.rs",
         "src/hand_range/rank_pair.rs"]


def test_spans(lines):
    """line index ranges [a, b) of `#[cfg(test)] mod .. { .. }` blocks"""
    spans = []
    i = 0
    while i < len(lines):
        if lines[i].strip().startswith("#[cfg(test)]"):
            depth, j, opened = 0, i, False
            while j < len(lines):
                for ch in lines[j]:
                    if ch == "{":
                        depth += 1
                        opened = True
                    elif ch == "}":
                        depth -= 1
                if opened and depth == 0:
                    break
                j += 1
            spans.append((i, j + 1))
            i = j + 1
        else:
            i += 1
    return spans


SUBS = [
    (r" < ", [" <= ", " > "]), (r" <= ", [" < "]), (r" > ", [" >= ", " < "]), (r" >= ", [" > "]),
    (r" == ", [" != "]), (r" != ", [" == "]),
    (r" && ", [" || "]), (r" \|\| ", [" && "]),
    (r" \+ 1\b", [" + 2", " + 0"]), (r" - 1\b", [" - 0", " - 2"]),
    (r" \+= ", [" -= "]), (r" -= ", [" += "]), (r" \*= ", [" += "]),
    (r"\btrue\b", ["false"]), (r"\bfalse\b", ["true"]),
    (r"\bSuit::Spade\b", ["Suit::Heart"]), (r"\bSuit::Heart\b", ["Suit::Diamond"]), (r"\bSuit::Club\b", ["Suit::Spade"]),
    (r"\bRank::Ace\b", ["Rank::King"]), (r"\bRank::Deuce\b", ["Rank::Trey"]), (r"\bRank::Trey\b", ["Rank::Four"]),
    (r"\bSuited\(", ["Ofsuit("]), (r"\bOfsuit\(", ["Suited("]),
    (r"\.is_none\(\)", [".is_some()"]), (r"\.is_some\(\)", [".is_none()"]),
    (r"RankRange::inclusive\(", ["RankRange::new("]), (r"\.next\(\)\.unwrap\(\)", [".prev().unwrap()"]),
    (r"\.prev\(\)\.unwrap\(\)", [".next().unwrap()"]),
    (r"\.rev\(\)", [""]), (r"\.enumerate\(\)", [".enumerate().skip(1)"]),
    (r"\[0\]", ["[1]"]), (r"\[1\]", ["[0]"]), (r"\[3\]", ["[4]"]), (r"\[4\]", ["[3]"]),
    (r"\b0\.\.", ["1.."]), (r"\b48\b", ["47"]), (r"\b49\b", ["48"]), (r"\b13\b", ["12"]), (r"\b5\b", ["4"]), (r"\b4\b", ["3"]),
    (r"\bu16::MAX\b", ["0"]), (r"1\.0", ["0.5"]), (r"\b(\d)\.\.(\d)\]", None),
    (r"\.min\(", [".max("]), (r"\.max\(", [".min("]), (r"\.all\(", [".any("]), (r"\.any\(", [".all("]),
    (r"\.0\b", [".1"]), (r"\.1\b", [".0"]),
    # second operator set
    (r"\bhigh\b", ["kicker"]), (r"\bkicker_top\b", ["kicker_bottom"]), (r"\bkicker_bottom\b", ["kicker_top"]),
    (r"\bstart_rank\b", ["prev_rank"]), (r"\bprev_rank\b", ["start_rank"]), (r"\blast_rank\b", ["start_rank"]),
    (r"\bleft\b", ["right"]), (r"\bturn_to\b", ["river_to"]), (r"\bturn_from\b", ["river_from"]),
    (r"\bcurrent_turn_index\b", ["current_river_index"]), (r"\bcurrent_river_index\b", ["current_turn_index"]),
    (r"\bRank::King\b", ["Rank::Queen"]), (r"\bRank::Four\b", ["Rank::Five"]), (r"\bSuit::Diamond\b", ["Suit::Club"]),
    (r"!self\.", ["self."]), (r"\bif !", ["if "]), (r"\*probability\b", ["1.0"]), (r"\*start_probability\b", ["1.0"]),
    (r"\b1\b", ["2", "0"]), (r"\b2\b", ["3", "1"]), (r"\b3\b", ["2"]), (r"\b7\b", ["6"]), (r"\b12\b", ["11"]),
    (r"\.\.=", [".."]), (r"\bSome\((\w+)\)", ["None"]),
    (r"\.unwrap_or\(&0_f32\)", [".unwrap_or(&1_f32)"]), (r"\.clone\(\)", [""]),
    (r"\.into_iter\(\)", [".into_iter().rev()", ".into_iter().skip(1)"]), (r"\.iter\(\)", [".iter().rev()", ".iter().skip(1)"]),
    # third operator set: table rows, constants, variant names of every kind, char literals
    (r"\bRank::(Queen|Jack|Ten|Nine|Eight|Seven|Six|Five)\b", ["Rank::Ace"]),
    (r"\bREF_(\w+)_A\b", None), (r"\bREF_ONE_", ["REF_TWO_"]), (r"\bREF_TWO_", ["REF_THREE_"]), (r"\bREF_THREE_", ["REF_FOUR_"]),
    (r"\bREF_FOUR_", ["REF_ONE_"]), (r"_K\[", ["_Q["]), (r"_5\[", ["_6["]),
    (r"'A'", ["'K'"]), (r"'K'", ["'A'"]), (r"'s'", ["'h'"]), (r"'c'", ["'d'"]), (r"'2'", ["'3'"]), (r"'T'", ["'9'"]),
    (r"=> 0,", ["=> 1,"]), (r"=> 1,", ["=> 0,"]), (r"=> 12,", ["=> 11,"]), (r"=> 3,", ["=> 2,"]),
    (r"\bSPADE_MASK\b", ["HEART_MASK"]), (r"\bCLUB_MASK\b", ["DIAMOND_MASK"]), (r"\bACE_MASK\b", ["KING_MASK"]),
    (r"\bDEUCE_MASK\b", ["TREY_MASK"]), (r"\bTEN_MASK\b", ["NINE_MASK"]),
    (r"0x0*1\b", None), (r"<< (\d+)", None),
    (r"\bMadeHandType::(\w+),", None), (r"\b(\d+)\.\.=(\d+) =>", None),
    (r"\bPocket\(", ["Suited(rank, ", None][:1]),
    (r"\bremaining_card_len\b", ["len"]), (r"\bself\.turn_from\b", ["self.river_from"]),
]
DROP2 = re.compile(r"^\s*[\w\.\[\]\(\)&\*]+(\.\w+\(.*\))+;\s*$|^\s*[\w\.\[\]]+ [\+\-\*]?= .*;\s*$")
DROP = re.compile(r"^\s*(self\.[\w\.\[\]]+\.(insert|clear|push|fill|remove)\(.*\);|[\w\.]+\.(insert|clear|push|remove|fill)\(.*\);|"
                  r"break;|continue;|return None;|[\w\.\[\]]+ = None;|[\w\.\[\]]+ \+= 1;|[\w\.\[\]]+ = 0;|\w+ = Some\(\w+\);|\w+ = None;)\s*$")


BASE = {"id": None, "root": "/repo", "added": None}


def added_lines(patch_path):
    """{file: set(new-file line numbers)} of the '+' lines of a unified diff"""
    out = {}
    cur = None
    n = 0
    for ln in open(patch_path).read().split("\n"):
        if ln.startswith("+++ "):
            cur = ln[4:].split("\t")[0]
            cur = cur[2:] if cur.startswith("b/") else cur
            out.setdefault(cur, set())
        elif ln.startswith("@@"):
            m = re.search(r"\+(\d+)", ln)
            n = int(m.group(1)) - 1
        elif cur is not None and not ln.startswith("---"):
            if ln.startswith("+"):
                n += 1
                out[cur].add(n)
            elif ln.startswith("-"):
                pass
            else:
                n += 1
    return out


def generate(only=None):
    muts = []
    for f in FILES:
        if only and not any(o in f for o in only):
            continue
        if BASE["added"] is not None and f not in BASE["added"]:
            continue
        lines = open(os.path.join(BASE["root"], f)).read().split("\n")
        spans = test_spans(lines)
        for i, ln in enumerate(lines):
            if any(a <= i < b for a, b in spans):
                continue
            if BASE["added"] is not None and (i + 1) not in BASE["added"][f]:
                continue
            st = ln.strip()
            if not st or st.startswith("//") or st.startswith("#[") or st.startswith("use ") or st.startswith("///"):
                continue
            if re.match(r"^\s*\d+(, \d+)*,?\s*$", ln):       # table rows
                continue
            if f.endswith("dp_table.rs") and not ("REF_" in ln and ("=>" in ln or "const REF" in ln)):
                continue
            for pat, reps in SUBS:
                if reps is None:
                    continue
                for m in re.finditer(pat, ln):
                    for r in reps:
                        new = ln[:m.start()] + r + ln[m.end():]
                        if new != ln:
                            muts.append((f, i, ln, new, f"{pat} -> {r}"))
            if DROP.match(ln) or (DROP2.match(ln) and not st.startswith("let ")):
                muts.append((f, i, ln, "", "drop statement"))
    # stable ids
    out = []
    for (f, i, old, new, what) in muts:
        mid = hashlib.sha1(f"{f}:{i}:{old}:{new}".encode()).hexdigest()[:10]
        out.append(dict(id=mid, file=f, line=i + 1, old=old, new=new, what=what))
    return out


def prepare_worker(w):
    d = os.path.join(ROOT, f"w{w}")
    if not os.path.isdir(os.path.join(d, "src")):
        shutil.rmtree(d, ignore_errors=True)
        os.makedirs(d)
        for n in ("src", "examples", "benches", "Cargo.toml", "Cargo.lock"):
            s, t = os.path.join(BASE["root"], n), os.path.join(d, n)
            (shutil.copytree if os.path.isdir(s) else shutil.copy)(s, t)
    return d


def run_one(w, m, assume_survived=False):
    d = prepare_worker(w)
    path = os.path.join(d, m["file"])
    orig = open(os.path.join(BASE["root"], m["file"])).read()
    lines = orig.split("\n")
    assert lines[m["line"] - 1] == m["old"]
    lines[m["line"] - 1] = m["new"]
    open(path, "w").write("\n".join(lines))
    env = dict(os.environ, CARGO_TARGET_DIR=os.path.join(d, "target"), CARGO_NET_OFFLINE="true")
    res = dict(m)
    res.pop("fired", None)
    if assume_survived:
        res["status"] = "survived"
    else:
      try:
        r = subprocess.run(["cargo", "test", "--offline", "--lib", "-q"], cwd=d, env=env, stdout=subprocess.PIPE, stderr=subprocess.STDOUT,
                           text=True, timeout=240)
        out = r.stdout
        if "error[" in out or "error:" in out and "could not compile" in out:
            res["status"] = "nocompile"
        elif re.search(r"test result: ok\. 1229 passed; 0 failed", out):
            res["status"] = "survived"
        elif "warning: unused" in out and r.returncode == 0:
            res["status"] = "survived"
        else:
            res["status"] = "killed"
      except subprocess.TimeoutExpired:
        res["status"] = "timeout"
    if res["status"] == "survived":
        env2 = dict(os.environ, ESPADA_REPO=d)
        fired = {}
        for p in PROPS:
            r = subprocess.run([os.path.join(HERE, "check"), p], env=env2, stdout=subprocess.PIPE, stderr=subprocess.STDOUT, text=True, cwd=HERE)
            if r.returncode != 0:
                v = [l.strip() for l in r.stdout.splitlines() if "violated in" in l or l.startswith("BROKEN")]
                fired[p] = (v[0][:200] if v else f"rc={r.returncode}")
        res["fired"] = fired
    open(path, "w").write(orig)
    return res


def main():
    args = sys.argv[1:]
    jobs = 8
    only = None
    limit = None
    if "-j" in args:
        jobs = int(args[args.index("-j") + 1])
    if "--files" in args:
        only = args[args.index("--files") + 1].split(",")
    if "--limit" in args:
        limit = int(args[args.index("--limit") + 1])
    os.makedirs(OUT, exist_ok=True)
    os.makedirs(ROOT, exist_ok=True)
    resf = os.path.join(OUT, "results.jsonl")
    if "--base" in args:
        # mutate only the lines a behaviour-preserving refactoring (benign/<id>) added, on top of that refactoring
        bid = args[args.index("--base") + 1]
        root = os.path.join(ROOT, "base-" + bid)
        shutil.rmtree(root, ignore_errors=True)
        os.makedirs(root)
        for n in ("src", "examples", "benches", "Cargo.toml", "Cargo.lock"):
            s_, t_ = os.path.join("/repo", n), os.path.join(root, n)
            (shutil.copytree if os.path.isdir(s_) else shutil.copy)(s_, t_)
        patch = os.path.join(HERE, "benign", bid, "patch.diff")
        r = subprocess.run(["patch", "-p1", "-s", "-i", patch], cwd=root, stdout=subprocess.PIPE, stderr=subprocess.STDOUT, text=True)
        if r.returncode != 0:
            print("base patch does not apply", r.stdout[:200])
            return
        BASE.update(id=bid, root=root, added=added_lines(patch))
        resf = os.path.join(OUT, f"base-{bid}.jsonl")
        # workers must start from the base tree
        for w in range(jobs):
            shutil.rmtree(os.path.join(ROOT, f"w{w}", "src"), ignore_errors=True)
    else:
        for w in range(jobs):
            shutil.rmtree(os.path.join(ROOT, f"w{w}", "src"), ignore_errors=True)
    muts = generate(only)
    done = {}
    if ("--resume" in args or "--recheck" in args) and os.path.exists(resf):
        for ln in open(resf):
            r = json.loads(ln)
            done[r["id"]] = r
    todo = [m for m in muts if m["id"] not in done]
    recheck = "--recheck" in args
    if recheck:
        # re-run only the checks on the known survivors (no cargo test)
        todo = [m for m in muts if done.get(m["id"], {}).get("status") == "survived"]
    if limit:
        todo = todo[:limit]
    print(f"{len(muts)} mutants generated, {len(done)} done, {len(todo)} to run, {jobs} workers", flush=True)
    q = queue.Queue()
    for m in todo:
        q.put(m)
    lock = threading.Lock()
    fh = open(resf, "a")
    counts = {}

    def worker(w):
        while True:
            try:
                m = q.get_nowait()
            except queue.Empty:
                return
            try:
                r = run_one(w, m, assume_survived=recheck)
            except Exception as e:
                r = dict(m, status="error", error=str(e)[:200])
            with lock:
                fh.write(json.dumps(r) + "\n")
                fh.flush()
                counts[r["status"]] = counts.get(r["status"], 0) + 1
                if r["status"] == "survived":
                    tag = "DETECTED " + ",".join(sorted(r["fired"])) if r.get("fired") else "UNDETECTED"
                    print(f"{r['id']} {r['file']}:{r['line']} [{r['what']}] survived -> {tag}\n      - {r['old'].strip()[:110]}\n      + {r['new'].strip()[:110]}", flush=True)
                n = sum(counts.values())
                if n % 25 == 0:
                    print(f"   .. {n}/{len(todo)} {counts}", flush=True)
    ths = [threading.Thread(target=worker, args=(w,)) for w in range(jobs)]
    for t in ths:
        t.start()
    for t in ths:
        t.join()
    print("done", counts)


if __name__ == "__main__":
    main()
