#!/usr/bin/env python3
"""Dev-time false-alarm probe: every directory under /verif/benign holds a behaviour-preserving refactoring of /repo
(written by a sub-agent that saw only the repository, confirmed by it against the 1229 baseline tests).  Each is applied
to its own scratch copy of /repo (under /tmp, removed afterwards) and every check is run against it with ESPADA_REPO;
the expected outcome is silence.  `expected_alarms` in benign/<id>/status.json records, with a reason, the refactorings
the rule templates are known not to see through (they fail closed).
usage: tools/benignrun.py [id-substring ...] [-v] [-j N]"""
import json, os, shutil, subprocess, sys
from concurrent.futures import ThreadPoolExecutor
HERE = os.path.dirname(os.path.dirname(os.path.abspath(__file__)))
PROPS = ["C01", "C02", "C03", "C04", "C05", "C06", "C07", "C08", "C09", "C10", "C11", "C12", "C13", "C14", "C15", "C17"]


def one(bid, verbose):
    scratch = f"/tmp/espada-bn-{bid}"
    shutil.rmtree(scratch, ignore_errors=True)
    os.makedirs(scratch)
    # the corpus patches are relative to the committed tree: take HEAD, not a working tree another tool may have patched
    subprocess.run("git -C /repo archive HEAD src examples benches Cargo.toml Cargo.lock | tar x -C " + scratch, shell=True, check=True)
    r = subprocess.run(["patch", "-p1", "-s", "-i", os.path.join(HERE, "benign", bid, "patch.diff")], cwd=scratch,
                       stdout=subprocess.PIPE, stderr=subprocess.STDOUT, text=True)
    if r.returncode != 0:
        shutil.rmtree(scratch, ignore_errors=True)
        return bid, {"STALE": [r.stdout[:200]]}
    env = dict(os.environ, ESPADA_REPO=scratch)
    alarms = {}
    for p in PROPS:
        r = subprocess.run([os.path.join(HERE, "check", ), p], env=env, stdout=subprocess.PIPE, stderr=subprocess.STDOUT, text=True, cwd=HERE)
        if r.returncode != 0:
            alarms[p] = [l.strip() for l in r.stdout.splitlines() if "violated in" in l or l.startswith("BROKEN")][:4]
    shutil.rmtree(scratch, ignore_errors=True)
    import glob, hashlib
    for d in glob.glob(os.path.join(HERE, "build", "facts", f"scratch{hashlib.sha1(scratch.encode()).hexdigest()[:8]}-*")):
        shutil.rmtree(d, ignore_errors=True)
    return bid, alarms


def main():
    args = sys.argv[1:]
    verbose = "-v" in args
    jobs = 6
    if "-j" in args:
        jobs = int(args[args.index("-j") + 1])
        del args[args.index("-j"):args.index("-j") + 2]
    pats = [a for a in args if a != "-v"]
    ids = sorted(d for d in os.listdir(os.path.join(HERE, "benign")) if os.path.exists(os.path.join(HERE, "benign", d, "patch.diff")))
    ids = [i for i in ids if not pats or any(p in i for p in pats)]
    silent = 0
    with ThreadPoolExecutor(jobs) as ex:
        for bid, alarms in ex.map(lambda i: one(i, verbose), ids):
            print(f"{bid:8s} {'silent' if not alarms else 'ALARMS ' + ','.join(sorted(alarms))}")
            silent += not alarms
            if verbose:
                for p, v in alarms.items():
                    for l in v:
                        print("      ", p, l[:300])
            json.dump({"alarms": alarms}, open(os.path.join(HERE, "benign", bid, "last.json"), "w"), indent=1)
    print(f"silent: {silent}/{len(ids)}")


if __name__ == "__main__":
    main()
