#!/usr/bin/env python3
"""Confirm and record seeds a sub-agent wrote against an already refactored tree (benign/<base>).
usage: tools/import_based.py <seed dir> <base id> <id infix>     e.g. /tmp/seedj COMP-2 j
For each <seed dir>/<PROP>-<n>/{patch.diff (relative to the base), demo.rs, meta.json}:
 1. in a scratch worktree of /repo (created and removed here): base + demo must pass; base + change: lib tests pass, demo fails;
 2. the combined patch (base + change, relative to /repo) is applied to /repo, every quick check runs, the patch is undone;
 3. seeded/<PROP>-<infix><n>/{patch.diff (combined), delta.diff (the change alone), demo.rs, meta.json} are written."""
import glob, json, os, re, shutil, subprocess, sys
VERIF = os.path.dirname(os.path.dirname(os.path.abspath(__file__)))
PROPS = ["C01", "C02", "C03", "C04", "C05", "C06", "C07", "C08", "C09", "C10", "C11", "C12", "C13", "C14", "C15", "C17"]


def sh(cmd, cwd=None, env=None):
    r = subprocess.run(cmd, shell=True, cwd=cwd, env=env, stdout=subprocess.PIPE, stderr=subprocess.STDOUT, text=True)
    return r.returncode, r.stdout


def main():
    sdir, base, infix = sys.argv[1], sys.argv[2], sys.argv[3]
    basep = os.path.join(VERIF, "benign", base, "patch.diff")
    # --confirm-only [--only <substr>] [--wt <dir>]: step 1 alone (touches only the scratch worktree; several may run side by
    # side, each with its own --wt), leaving <seed>/confirmed.json + combined.diff;  --confirmed: steps 2 and 3 from those files
    confirm_only, confirmed = "--confirm-only" in sys.argv, "--confirmed" in sys.argv
    only = sys.argv[sys.argv.index("--only") + 1].split(",") if "--only" in sys.argv else None
    wt = sys.argv[sys.argv.index("--wt") + 1] if "--wt" in sys.argv else "/tmp/wt-import"
    if confirmed:
        return record_all(sdir, base, infix)
    sh(f"git -C /repo worktree remove --force {wt}")
    rc, o = sh(f"git -C /repo worktree add --detach {wt} HEAD")
    env = dict(os.environ, CARGO_TARGET_DIR=wt + "/target", CARGO_NET_OFFLINE="true")
    try:
        for d in sorted(glob.glob(os.path.join(sdir, "C*-*"))):
            if not os.path.exists(os.path.join(d, "meta.json")):
                print("no meta.json:", d)
                continue
            prop, n = os.path.basename(d).split("-")
            if only and not any(o_ in os.path.basename(d) for o_ in only):
                continue
            sid = f"{prop}-{infix}{n}"
            meta = json.load(open(os.path.join(d, "meta.json")))
            sh("git checkout -- . && git clean -fdq -e target", cwd=wt)
            rc, o = sh(f"patch -p1 -s -i {basep}", cwd=wt)
            assert rc == 0, o
            sh("find . -name '*.orig' -delete", cwd=wt)
            os.makedirs(wt + "/tests", exist_ok=True)
            shutil.copy(os.path.join(d, "demo.rs"), wt + "/tests/seed_demo.rs")
            rc, o2 = sh("cargo test --offline --test seed_demo 2>&1 | tail -15", cwd=wt, env=env)
            passes_without = "test result: ok" in o2 and "FAILED" not in o2
            rc, o = sh(f"patch -p1 -s -i {d}/patch.diff", cwd=wt)
            if rc != 0:
                print(f"[{sid}] change does not apply on the base", o[:200])
                continue
            sh("find . -name '*.orig' -delete", cwd=wt)
            rc, o = sh("cargo test --offline --lib 2>&1 | grep 'test result'", cwd=wt, env=env)
            m = re.search(r"(\d+) passed; (\d+) failed", o)
            tests_ok = bool(m) and int(m.group(1)) >= 1229 and m.group(2) == "0"
            rc, o1 = sh("cargo test --offline --test seed_demo 2>&1 | tail -15", cwd=wt, env=env)
            fails_with = any(x in o1 for x in ("test result: FAILED", "panicked", "error: test failed", "could not compile", "error[E", "SIGABRT", "overflowed its stack"))
            os.remove(wt + "/tests/seed_demo.rs")
            rc, comb = sh("git add -A -- src && git diff --cached HEAD -- src", cwd=wt)
            sh("git reset -q && git checkout -- . && git clean -fdq -e target", cwd=wt)
            print(f"[{sid}] tests_ok={tests_ok} demo_fails_with={fails_with} demo_passes_on_base={passes_without}", flush=True)
            if not (tests_ok and fails_with and passes_without):
                print(o1[-500:], o2[-500:])
                continue
            if confirm_only:
                open(os.path.join(d, "combined.diff"), "w").write(comb)
                json.dump({"tests_ok": tests_ok, "fails_with": fails_with, "passes_without": passes_without}, open(os.path.join(d, "confirmed.json"), "w"))
                continue
            rc, o = sh("git status --short", cwd="/repo")
            assert not o.strip(), "/repo is not clean"
            open("/tmp/import-combined.diff", "w").write(comb)
            rc, o = sh("git apply /tmp/import-combined.diff", cwd="/repo")
            assert rc == 0, o
            fired = {}
            try:
                for p in PROPS:
                    rc, o = sh(f"./check {p}", cwd=VERIF)
                    viol = [l for l in o.splitlines() if "violated in" in l or l.startswith("BROKEN")]
                    fired[p] = {"rc": rc, "first": viol[0].strip()[:300] if viol else ""}
            finally:
                sh("git checkout -- .", cwd="/repo")
                for p in PROPS:
                    if fired.get(p, {}).get("rc") != 0:
                        sh(f"./check {p}", cwd=VERIF)
            caught = [p for p, v in fired.items() if v["rc"] == 1]
            print(f"[{sid}] caught by: {caught}", flush=True)
            out = os.path.join(VERIF, "seeded", sid)
            os.makedirs(out, exist_ok=True)
            shutil.copy("/tmp/import-combined.diff", os.path.join(out, "patch.diff"))
            shutil.copy(os.path.join(d, "patch.diff"), os.path.join(out, "delta.diff"))
            shutil.copy(os.path.join(d, "demo.rs"), os.path.join(out, "demo.rs"))
            meta2 = {"id": sid, "property": prop,
                     "summary": f"[on top of the composite refactored tree benign/{base}; delta.diff is the change itself] " + str(meta.get("summary", "")),
                     "needs_to_manifest": meta.get("needs_to_manifest"), "written_against": base,
                     "note": f"patch.diff applies to /repo itself (composite refactoring + the change); delta.diff is the change alone, relative to benign/{base}",
                     "demo_location": "tests/seed_demo.rs", "demo_cmd": "cargo test --offline --test seed_demo", "files_changed": meta.get("files_changed"),
                     "confirmed": {"baseline_tests_pass_with_change": tests_ok, "demo_fails_with_change": fails_with, "demo_passes_without_change": passes_without},
                     "what_was_run": [f"scratch worktree of /repo + benign/{base}: demo passes; + the change: cargo test --offline --lib passes, demo fails",
                                      "git -C /repo apply patch.diff (base + change); ./check <each of 16 properties> (quick); git -C /repo checkout -- ."],
                     "checks": {p: ("VIOLATION" if v["rc"] == 1 else "silent" if v["rc"] == 0 else "broken") for p, v in fired.items()},
                     "caught_by": caught, "first_report": {p: fired[p]["first"] for p in caught}}
            json.dump(meta2, open(os.path.join(out, "meta.json"), "w"), indent=1)
    finally:
        sh(f"git -C /repo worktree remove --force {wt}")
        sh("git -C /repo worktree prune")
        if os.path.exists("/tmp/import-combined.diff"):
            os.remove("/tmp/import-combined.diff")


def record_all(sdir, base, infix):
    for d in sorted(glob.glob(os.path.join(sdir, "C*-*"))):
        if not os.path.exists(os.path.join(d, "confirmed.json")):
            print("not confirmed:", d)
            continue
        prop, n = os.path.basename(d).split("-")
        sid = f"{prop}-{infix}{n}"
        meta = json.load(open(os.path.join(d, "meta.json")))
        c = json.load(open(os.path.join(d, "confirmed.json")))
        rc, o = sh("git status --short", cwd="/repo")
        assert not o.strip(), "/repo is not clean"
        comb = os.path.join(d, "combined.diff")
        rc, o = sh(f"git apply {comb}", cwd="/repo")
        assert rc == 0, o
        fired = {}
        try:
            for p in PROPS:
                rc, o = sh(f"./check {p}", cwd=VERIF)
                viol = [l for l in o.splitlines() if "violated in" in l or l.startswith("BROKEN")]
                fired[p] = {"rc": rc, "first": viol[0].strip()[:300] if viol else ""}
        finally:
            sh("git checkout -- .", cwd="/repo")
        caught = [p for p, v in fired.items() if v["rc"] == 1]
        print(f"[{sid}] caught by: {caught}", flush=True)
        out = os.path.join(VERIF, "seeded", sid)
        os.makedirs(out, exist_ok=True)
        shutil.copy(comb, os.path.join(out, "patch.diff"))
        shutil.copy(os.path.join(d, "patch.diff"), os.path.join(out, "delta.diff"))
        shutil.copy(os.path.join(d, "demo.rs"), os.path.join(out, "demo.rs"))
        meta2 = {"id": sid, "property": prop,
                 "summary": f"[on top of the composite refactored tree benign/{base}; delta.diff is the change itself] " + str(meta.get("summary", "")),
                 "needs_to_manifest": meta.get("needs_to_manifest"), "written_against": base,
                 "note": f"patch.diff applies to /repo itself (composite refactoring + the change); delta.diff is the change alone, relative to benign/{base}",
                 "demo_location": "tests/seed_demo.rs", "demo_cmd": "cargo test --offline --test seed_demo", "files_changed": meta.get("files_changed"),
                 "confirmed": {"baseline_tests_pass_with_change": c["tests_ok"], "demo_fails_with_change": c["fails_with"], "demo_passes_without_change": c["passes_without"]},
                 "what_was_run": [f"scratch worktree of /repo + benign/{base}: demo passes; + the change: cargo test --offline --lib passes, demo fails",
                                  "git -C /repo apply patch.diff (base + change); ./check <each of 16 properties> (quick); git -C /repo checkout -- ."],
                 "checks": {p: ("VIOLATION" if v["rc"] == 1 else "silent" if v["rc"] == 0 else "broken") for p, v in fired.items()},
                 "caught_by": caught, "first_report": {p: fired[p]["first"] for p in caught}}
        json.dump(meta2, open(os.path.join(out, "meta.json"), "w"), indent=1)
    for p in PROPS:
        sh(f"./check {p}", cwd=VERIF)       # evidence of the unchanged tree


if __name__ == "__main__":
    main()
